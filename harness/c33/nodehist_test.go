// C33 (b), node level - end to end through BlockChain.ProcessBlock and the
// mempool of an in-process node whose origin arbiters are harness keys:
// honestly authorised withdrawals (payload v0/v1/v2) that repeat a side-chain
// hash in the same block, in a later block, after a reorganisation, or in the
// mempool.
//
// Oracle (invariant over what the node reports): on the active chain no
// side-chain transaction hash is carried by two different transactions; the
// mempool holds no withdrawal whose hash is recorded on the active chain and no
// two withdrawals sharing a hash.
package c33

import (
	"bytes"
	"encoding/json"
	"fmt"
	"sort"
	"testing"

	"github.com/elastos/Elastos.ELA/common"
	"github.com/elastos/Elastos.ELA/core/contract"
	"github.com/elastos/Elastos.ELA/core/types"
	ctypes "github.com/elastos/Elastos.ELA/core/types/common"
	"github.com/elastos/Elastos.ELA/core/types/interfaces"
	"pgregory.net/rapid"
	"verifharness/gen"
	"verifharness/lib/vk"
	"verifharness/lib/xchain"
	"verifharness/node"
)

type occurrence struct {
	tx     common.Uint256
	ver    byte
	height uint32
}

// chainWithdrawals maps every side-chain hash on the REPORTED active chain to
// the distinct transactions carrying it.
func chainWithdrawals(blocks []*types.Block) map[common.Uint256][]occurrence {
	m := map[common.Uint256][]occurrence{}
	for _, b := range blocks {
		for _, tx := range b.Transactions {
			if !tx.IsWithdrawFromSideChainTx() {
				continue
			}
			seen := map[common.Uint256]bool{}
			for _, h := range xchain.WithdrawHashes(tx) {
				if seen[h] {
					continue // one side-chain tx may pay several targets inside one withdrawal
				}
				seen[h] = true
				m[h] = append(m[h], occurrence{tx.Hash(), tx.PayloadVersion(), b.Height})
			}
		}
	}
	return m
}

type nodeMachine struct {
	n     *node.Node
	fx    *xchain.Fixture
	keys  []*gen.Key
	tree  *node.Tree
	ops   []string
	dead  bool
	count map[string]int
	fresh uint64
}

func (m *nodeMachine) render() any { return map[string]any{"ops": m.ops} }

func (m *nodeMachine) tip() *node.TreeNode {
	return m.tree.ByHash[*m.n.Chain.BestChain.Hash]
}

// xcoinsAt returns the cross-chain coins available on top of the given tree node.
func (m *nodeMachine) xcoinsAt(tn *node.TreeNode) []xchain.Coin {
	u, err := node.Replay(tn.Blocks(), m.n.KeyIndexOf)
	if err != nil {
		return nil
	}
	var out []xchain.Coin
	for _, c := range u.Sorted() {
		if c.Owner[0] == byte(contract.PrefixCrossChain) && c.Value > 0 {
			out = append(out, xchain.Coin{Op: c.Op, Val: c.Value, Owner: c.Owner, Key: -1})
		}
	}
	return out
}

func (m *nodeMachine) freshHash() common.Uint256 {
	m.fresh++
	return common.Hash([]byte(fmt.Sprintf("node-hist-%d", m.fresh)))
}

func (m *nodeMachine) withdraw(ver byte, hashes []common.Uint256, c xchain.Coin, height uint32) interfaces.Transaction {
	tx, err := m.fx.HonestWithdraw(xchain.WithdrawSpec{Version: ver, Hashes: hashes, Coins: []xchain.Coin{c}, Height: height,
		Keys: m.keys, M: xchain.SigsFor(ver), To: m.n.Keys[2].ProgramHash})
	if err != nil {
		panic("harness: HonestWithdraw: " + err.Error())
	}
	return tx
}

// deliver builds a block with txs on parent and hands it to the node.
func (m *nodeMachine) deliver(t *rapid.T, parent *node.TreeNode, txs []interfaces.Transaction, salt uint64) (*node.TreeNode, error) {
	b, err := m.n.BuildBlock(node.BlockSpec{Parent: parent.Block, Txs: txs, Fees: common.Fixed64(100 * len(txs)), Salt: salt})
	if err != nil {
		t.Fatalf("harness: BuildBlock: %v", err)
	}
	_, _, perr := m.n.Process(b)
	tn := m.tree.Add(b, perr == nil, "")
	tn.Delivered = true
	return tn, perr
}

// checkInvariant inspects the reported active chain and the mempool.
func (m *nodeMachine) checkInvariant(t *rapid.T) {
	blocks, err := m.n.ActiveChain()
	if err != nil {
		t.Fatalf("harness: ActiveChain: %v", err)
	}
	w := chainWithdrawals(blocks)
	hs := make([]common.Uint256, 0, len(w))
	for h := range w {
		hs = append(hs, h)
	}
	sort.Slice(hs, func(i, j int) bool { return bytes.Compare(hs[i][:], hs[j][:]) < 0 })
	for _, h := range hs {
		occ := w[h]
		if len(occ) < 2 {
			continue
		}
		a, b := occ[0], occ[1]
		var sig string
		switch {
		case a.height == b.height && (a.ver != 0 || b.ver != 0):
			sig = "C33:single-use:same-block:output-payload-hashes-unchecked"
		case a.height == b.height:
			sig = "C33:single-use:same-block:v0"
		case b.ver == 2:
			sig = "C33:single-use:context-check:v2:recorded-hash-accepted"
		default:
			sig = fmt.Sprintf("C33:single-use:later-block:v%d", b.ver)
		}
		if vk.Report(t, sig, fmt.Sprintf("side-chain tx %s withdrawn by v%d tx at height %d and again by v%d tx at height %d on the active chain", h, a.ver, a.height, b.ver, b.height), m.render()) {
			m.dead = true
			return
		}
	}
	poolSeen := map[common.Uint256]byte{}
	for _, tx := range m.n.Pool.GetTxsInPool() {
		if !tx.IsWithdrawFromSideChainTx() {
			continue
		}
		own := map[common.Uint256]bool{}
		for _, h := range xchain.WithdrawHashes(tx) {
			if own[h] {
				continue
			}
			own[h] = true
			if occ, rec := w[h]; rec {
				sig := fmt.Sprintf("C33:single-use:mempool:v%d:recorded-hash-admitted", tx.PayloadVersion())
				if tx.PayloadVersion() == 2 {
					sig = "C33:single-use:context-check:v2:recorded-hash-accepted"
				}
				if vk.Report(t, sig, fmt.Sprintf("mempool holds a v%d withdrawal of side-chain tx %s already withdrawn at height %d", tx.PayloadVersion(), h, occ[0].height), m.render()) {
					m.dead = true
					return
				}
			}
			if v0, dup := poolSeen[h]; dup {
				sig := "C33:single-use:mempool:conflict-admitted"
				if v0 == 2 || tx.PayloadVersion() == 2 {
					sig = "C33:single-use:mempool:v2:conflict-slot-empty"
				}
				if vk.Report(t, sig, fmt.Sprintf("mempool holds two withdrawals (v%d, v%d) of side-chain tx %s", v0, tx.PayloadVersion(), h), m.render()) {
					m.dead = true
					return
				}
			}
			poolSeen[h] = tx.PayloadVersion()
		}
	}
}

func TestSingleUseNode(t *testing.T) {
	rapid.Check(t, func(t *rapid.T) {
		n, keys, err := xchain.NewWithdrawNode(nil)
		if err != nil {
			t.Fatalf("harness: node: %v", err)
		}
		defer n.Close()
		n.AutoPoolCleanup = rapid.Bool().Draw(t, "poolCleanup")
		m := &nodeMachine{n: n, keys: keys, fx: &xchain.Fixture{N: n, ArbKeys: keys}, tree: node.NewTree(n.Genesis), count: map[string]int{}}
		// setup: one empty block, then a funding block paying 10 cross-chain outputs
		g := m.tree.Nodes[0]
		b1, err := m.deliver(t, g, nil, 1)
		if err != nil {
			t.Fatalf("harness: block 1: %v", err)
		}
		u, _ := node.Replay(b1.Blocks(), n.KeyIndexOf)
		coins := u.Spendable(2, n.Params.PowConfiguration.CoinbaseMaturity)
		if len(coins) == 0 {
			t.Fatalf("harness: no spendable coin")
		}
		c := coins[0]
		var outs []node.Out
		const each = common.Fixed64(10 * 100000000)
		for i := 0; i < 10; i++ {
			outs = append(outs, node.Out{To: xchain.XHash(byte(1 + i%2)), Value: each})
		}
		outs = append(outs, node.Out{To: n.Keys[0].ProgramHash, Value: c.Value - 10*each - 1000})
		fund, err := n.Transfer([]node.Coin{c}, outs, 2)
		if err != nil {
			t.Fatalf("harness: fund: %v", err)
		}
		fb, err := m.n.BuildBlock(node.BlockSpec{Parent: b1.Block, Txs: []interfaces.Transaction{fund}, Fees: 1000, Salt: 2})
		if err != nil {
			t.Fatalf("harness: BuildBlock: %v", err)
		}
		if in, _, err := n.Process(fb); err != nil || !in {
			t.Fatalf("harness: funding block: %v %v", in, err)
		}
		base := m.tree.Add(fb, true, "funding")
		base.Delivered = true
		salt := uint64(10)

		recorded := func() (hs []common.Uint256) {
			blocks, _ := n.ActiveChain()
			w := chainWithdrawals(blocks)
			for _, b := range blocks { // deterministic order
				for _, tx := range b.Transactions {
					if tx.IsWithdrawFromSideChainTx() {
						for _, h := range xchain.WithdrawHashes(tx) {
							if _, ok := w[h]; ok {
								hs = append(hs, h)
								delete(w, h)
							}
						}
					}
				}
			}
			return hs
		}
		ver := func(t *rapid.T, label string) byte { return byte(rapid.IntRange(0, 2).Draw(t, label)) }
		// most cases steer around the listed known findings so that the history goes on after a repeat
		avoidV2Repeat := vk.IsKnown("C33:single-use:context-check:v2:recorded-hash-accepted") && rapid.IntRange(0, 9).Draw(t, "avoidKnownV2") < 6
		avoidSameBlock := vk.IsKnown("C33:single-use:same-block:output-payload-hashes-unchecked") && rapid.IntRange(0, 9).Draw(t, "avoidKnownSameBlock") < 6
		repeatVer := func(t *rapid.T, label string) byte {
			if avoidV2Repeat {
				return byte(rapid.IntRange(0, 1).Draw(t, label))
			}
			return ver(t, label)
		}

		actions := map[string]func(*rapid.T){
			"": func(*rapid.T) {},
			"blockFresh": func(t *rapid.T) {
				tip := m.tip()
				xs := m.xcoinsAt(tip)
				if m.dead {
					return
				}
				if len(xs) == 0 {
					t.Skip()
				}
				k := rapid.IntRange(1, min(2, len(xs))).Draw(t, "nTx")
				var txs []interfaces.Transaction
				for i := 0; i < k; i++ {
					v := ver(t, "ver")
					hs := []common.Uint256{m.freshHash()}
					if v != 0 && rapid.Bool().Draw(t, "twoTargets") {
						hs = append(hs, hs[0]) // one side-chain tx paying two targets: legitimate
					}
					txs = append(txs, m.withdraw(v, hs, xs[i], tip.Height+1))
				}
				salt++
				_, err := m.deliver(t, tip, txs, salt)
				m.ops = append(m.ops, fmt.Sprintf("blockFresh n=%d -> %v", k, err))
				if err != nil {
					vk.Class("fresh-block-rejected/" + short(err.Error()))
				} else {
					m.count["fresh"]++
				}
				m.checkInvariant(t)
			},
			"blockRepeatLater": func(t *rapid.T) {
				tip := m.tip()
				xs := m.xcoinsAt(tip)
				rec := recorded()
				if m.dead {
					return
				}
				if len(xs) == 0 || len(rec) == 0 {
					t.Skip()
				}
				v := repeatVer(t, "ver")
				h := rec[rapid.IntRange(0, len(rec)-1).Draw(t, "recordedHash")]
				salt++
				_, err := m.deliver(t, tip, []interfaces.Transaction{m.withdraw(v, []common.Uint256{h}, xs[0], tip.Height+1)}, salt)
				m.ops = append(m.ops, fmt.Sprintf("blockRepeatLater v%d -> %v", v, err))
				m.count["repeat-later"]++
				m.checkInvariant(t)
			},
			"blockSameBlockDup": func(t *rapid.T) {
				tip := m.tip()
				xs := m.xcoinsAt(tip)
				if m.dead {
					return
				}
				if len(xs) < 2 {
					t.Skip()
				}
				va, vb := ver(t, "verA"), ver(t, "verB")
				if avoidSameBlock {
					va, vb = 0, 0 // both hashes in the payload list: CheckDuplicateTx must reject the block
				}
				h := m.freshHash()
				salt++
				_, err := m.deliver(t, tip, []interfaces.Transaction{
					m.withdraw(va, []common.Uint256{h}, xs[0], tip.Height+1),
					m.withdraw(vb, []common.Uint256{h}, xs[1], tip.Height+1)}, salt)
				m.ops = append(m.ops, fmt.Sprintf("blockSameBlockDup v%d+v%d -> %v", va, vb, err))
				m.count["same-block"]++
				m.checkInvariant(t)
			},
			"poolRepeat": func(t *rapid.T) {
				tip := m.tip()
				xs := m.xcoinsAt(tip)
				rec := recorded()
				if m.dead {
					return
				}
				if len(xs) == 0 || len(rec) == 0 {
					t.Skip()
				}
				v := repeatVer(t, "ver")
				h := rec[rapid.IntRange(0, len(rec)-1).Draw(t, "recordedHash")]
				e := n.Pool.AppendToTxPool(m.withdraw(v, []common.Uint256{h}, xs[len(xs)-1], tip.Height+1))
				m.ops = append(m.ops, fmt.Sprintf("poolRepeat v%d -> %v", v, e))
				m.count["pool-repeat"]++
				m.checkInvariant(t)
			},
			"poolDup": func(t *rapid.T) {
				tip := m.tip()
				xs := m.xcoinsAt(tip)
				if m.dead {
					return
				}
				if len(xs) < 2 {
					t.Skip()
				}
				va, vb := ver(t, "verA"), ver(t, "verB")
				h := m.freshHash()
				e1 := n.Pool.AppendToTxPool(m.withdraw(va, []common.Uint256{h}, xs[len(xs)-1], tip.Height+1))
				e2 := n.Pool.AppendToTxPool(m.withdraw(vb, []common.Uint256{h}, xs[len(xs)-2], tip.Height+1))
				m.ops = append(m.ops, fmt.Sprintf("poolDup v%d+v%d -> %v / %v", va, vb, e1, e2))
				m.count["pool-dup"]++
				m.checkInvariant(t)
			},
			"reorg": func(t *rapid.T) {
				tip := m.tip()
				if m.dead {
					return
				}
				if tip.Height <= base.Height {
					t.Skip()
				}
				depth := rapid.IntRange(1, min(2, int(tip.Height-base.Height))).Draw(t, "depth")
				anc := tip
				var lost []common.Uint256
				for i := 0; i < depth; i++ {
					for _, tx := range anc.Block.Transactions {
						if tx.IsWithdrawFromSideChainTx() {
							lost = append(lost, xchain.WithdrawHashes(tx)...)
						}
					}
					anc = anc.Parent
				}
				// the new branch withdraws the rolled-back side-chain txs again, in new transactions
				cur := anc
				var rerr error
				for i := 0; i <= depth && rerr == nil; i++ {
					xs := m.xcoinsAt(cur)
					var txs []interfaces.Transaction
					if i == 0 && len(lost) > 0 && len(xs) > 0 && rapid.Bool().Draw(t, "reinclude") {
						v := ver(t, "ver")
						txs = append(txs, m.withdraw(v, []common.Uint256{lost[0]}, xs[0], cur.Height+1))
						m.count["reinclude"]++
					}
					salt++
					cur, rerr = m.deliver(t, cur, txs, salt)
				}
				m.ops = append(m.ops, fmt.Sprintf("reorg depth=%d lost=%d -> tip %d err=%v", depth, len(lost), n.Chain.GetHeight(), rerr))
				if rerr != nil {
					vk.Class("reorg-branch-rejected/" + short(rerr.Error()))
				} else if *n.Chain.BestChain.Hash == cur.Hash {
					m.count["reorg"]++
				}
				m.checkInvariant(t)
			},
		}
		t.Repeat(actions)
		class := "plain"
		nt := m.count["repeat-later"]+m.count["same-block"]+m.count["pool-repeat"]+m.count["pool-dup"] > 0
		if nt {
			class = "repeat"
		}
		if m.count["reorg"] > 0 {
			class += "+reorg"
		}
		for k, v := range m.count {
			vk.Count("node/"+k, int64(v))
		}
		key, _ := json.Marshal(m.ops)
		vk.Case("node/"+class, nt, key, m.render)
	})
}

var _ = ctypes.OutPoint{}
