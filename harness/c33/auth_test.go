// C33 (a) - a side-chain withdrawal is accepted only if it spends only
// cross-chain UTXOs and is authorised by the required number of distinct
// current cross-chain arbiters; from the restriction height on signer indexes
// are unique and in range.
//
// Every case builds one withdrawal (payload v0/v1 with cross-chain multisig
// programs, v2 with a Schnorr program over an aggregated key) around an honest
// skeleton with 0..2 adversarial edits, runs the node's complete
// SanityCheck + ContextCheck with a harness-owned arbiter set, and compares an
// acceptance with a predicate computed from what the harness knows it signed.
package c33

import (
	"encoding/json"
	"fmt"
	"math"
	"os"
	"sort"
	"strings"
	"sync"
	"testing"

	"github.com/elastos/Elastos.ELA/common"
	"github.com/elastos/Elastos.ELA/common/config"
	"github.com/elastos/Elastos.ELA/core/contract"
	"github.com/elastos/Elastos.ELA/core/contract/program"
	ctypes "github.com/elastos/Elastos.ELA/core/types/common"
	"github.com/elastos/Elastos.ELA/core/types/functions"
	"github.com/elastos/Elastos.ELA/core/types/interfaces"
	"github.com/elastos/Elastos.ELA/core/types/outputpayload"
	"github.com/elastos/Elastos.ELA/core/types/payload"
	"github.com/elastos/Elastos.ELA/crypto"
	"pgregory.net/rapid"
	"verifharness/gen"
	"verifharness/lib/vk"
	"verifharness/lib/xchain"
)

func TestMain(m *testing.M) { vk.Main(m, "C33") }

var (
	authOnce sync.Once
	authFix  *xchain.Fixture
	authErr  error
)

func authFixture(t *rapid.T) *xchain.Fixture {
	authOnce.Do(func() { authFix, authErr = xchain.NewFixture(4, 3, nil) })
	if authErr != nil {
		t.Fatalf("harness: fixture: %v", authErr)
	}
	return authFix
}

// heightAround draws a threshold relative to the block height h.
func heightAround(t *rapid.T, h uint32, label string) uint32 {
	switch rapid.IntRange(0, 6).Draw(t, label) {
	case 0:
		return 0
	case 1:
		return h - 1
	case 2:
		return h
	case 3:
		return h + 1
	case 4:
		return h + 1000
	default:
		return math.MaxUint32
	}
}

type msProgram struct {
	keylist  []*gen.Key
	m, nByte int
	signers  []int // positions in keylist that sign validly
	extra    []string
}

type authCase struct {
	Version      byte
	Height       uint32
	H1, H2       uint32 // CRClaimDPOSNodeStartHeight, DPOSNodeCrossChainHeight
	HS, HNS      uint32 // SchnorrStartHeight, NormalSchnorrStartHeight
	HF, HR       uint32 // freeze / restriction
	N, CRCN      int
	CA, NA, MC   int
	Inputs       string
	Edits        []string
	Signers      []int // v2 signer indexes
	ProgramOf    []int // v2: indexes whose (multiset) sum keys the program
	SigValid     bool  // v2
	Programs     []string
	Accepted     bool
	Stage, Error string
}

func has(ed []string, s string) bool {
	for _, e := range ed {
		if e == s {
			return true
		}
	}
	return false
}

func requiredMultisig(c *authCase, version byte) int {
	if version == 0 && c.Height < c.H1 {
		return c.N*2/3 + 1 // strictly more than the majority count of the mock (n*2/3)
	}
	if c.Height >= c.H2 {
		return c.NA + 1
	}
	return c.CA
}

func requiredSchnorr(c *authCase) int {
	if c.Height > c.H1 && c.Height < c.H2 {
		return c.MC * 2 / 3
	}
	return c.MC*2/3 + 1
}

func TestWithdrawAuthorisation(t *testing.T) {
	var honest, honestAccepted int
	rapid.Check(t, func(t *rapid.T) {
		f := authFixture(t)
		c := &authCase{}
		c.Version = byte(rapid.SampledFrom([]int{0, 1, 1, 2, 2}).Draw(t, "version"))
		c.Height = uint32(rapid.IntRange(5, 60).Draw(t, "height"))
		c.H1 = heightAround(t, c.Height, "H1")
		c.H2 = heightAround(t, c.Height, "H2")
		c.HS = rapid.SampledFrom([]uint32{math.MaxUint32, math.MaxUint32, c.Height, c.Height - 1, 0}).Draw(t, "HS")
		c.HNS = rapid.SampledFrom([]uint32{0, 0, 0, c.Height, c.Height + 1}).Draw(t, "HNS")
		switch rapid.IntRange(0, 4).Draw(t, "band") {
		case 0: // policy disabled
			c.HF, c.HR = math.MaxUint32, math.MaxUint32
		case 1: // frozen band
			c.HF, c.HR = c.Height, c.Height+1
		case 2: // restriction starts exactly here
			c.HF, c.HR = c.Height-2, c.Height
		case 3: // one block before the restriction height, not frozen
			c.HF, c.HR = c.Height+1, c.Height+1
		default:
			c.HF, c.HR = 0, 0
		}
		minN := 2
		if c.Version == 2 {
			minN = 1
		}
		c.N = rapid.IntRange(minN, xchain.MaxArbiters-1).Draw(t, "nArbiters")
		c.CRCN = c.N
		if rapid.IntRange(0, 7).Draw(t, "crcDiffers") == 0 {
			c.CRCN = rapid.IntRange(1, xchain.MaxArbiters).Draw(t, "crcN")
		}
		c.CA = rapid.IntRange(1, c.N).Draw(t, "CRAgreementCount")
		c.NA = rapid.IntRange(0, c.N-1).Draw(t, "NormalArbitratorsCount")
		c.MC = rapid.IntRange(1, c.N+1).Draw(t, "MemberCount")
		f.SetArbiters(c.N, c.CRCN)
		arbSet := map[string]bool{}
		for _, k := range f.ArbKeys[:c.N] {
			arbSet[string(k.PK)] = true
		}

		cfg := *f.N.Params
		cfg.CRConfiguration.CRClaimDPOSNodeStartHeight = c.H1
		cfg.DPoSConfiguration.DPOSNodeCrossChainHeight = c.H2
		cfg.SchnorrStartHeight = c.HS
		cfg.NormalSchnorrStartHeight = c.HNS
		cfg.CrossChainUTXOFreezeHeight = c.HF
		cfg.CrossChainUTXORestrictionHeight = c.HR
		cfg.CRConfiguration.CRAgreementCount = uint32(c.CA)
		cfg.DPoSConfiguration.NormalArbitratorsCount = c.NA
		cfg.CRConfiguration.MemberCount = uint32(c.MC)

		// ---- edits (adversarial changes of the honest skeleton)
		multisigEdits := []string{"mLow", "sigsLow", "foreignKeyReplace", "dropKey", "dupKey", "extraForeignKey",
			"nByteWrong", "dupSig", "badSig", "foreignSigPad", "shuffleKeys", "mHigh", "sigsAll"}
		schnorrEdits := []string{"dupIndex", "oobIndex", "tooFew", "programOtherSet", "badSig", "dupIndexProgramDistinct", "manySigners"}
		inputEdits := []string{"mixedInput", "stdOnlyInput", "twoXAddresses", "scriptOwnedInput", "scriptOwnedInput"}
		nEdits := rapid.SampledFrom([]int{0, 1, 1, 1, 2}).Draw(t, "nEdits")
		for i := 0; i < nEdits; i++ {
			pool := multisigEdits
			if c.Version == 2 {
				pool = schnorrEdits
			}
			if rapid.IntRange(0, 3).Draw(t, "editInputs") == 0 {
				pool = inputEdits
			}
			e := rapid.SampledFrom(pool).Draw(t, "edit")
			if !has(c.Edits, e) {
				c.Edits = append(c.Edits, e)
			}
		}
		sort.Strings(c.Edits)

		// ---- inputs
		var ins []xchain.Coin
		xi := rapid.IntRange(0, len(f.XCoins)-1).Draw(t, "xcoin")
		switch {
		case has(c.Edits, "stdOnlyInput"):
			ins = []xchain.Coin{f.SCoins[0]}
			c.Inputs = "std-only"
		case has(c.Edits, "mixedInput"):
			ins = []xchain.Coin{f.XCoins[xi], f.SCoins[rapid.IntRange(0, len(f.SCoins)-1).Draw(t, "scoin")]}
			c.Inputs = "mixed"
		case has(c.Edits, "twoXAddresses"):
			ins = []xchain.Coin{f.XCoins[0], f.XCoins[len(f.XCoins)-1]}
			c.Inputs = "x-two-addresses"
		default:
			ins = []xchain.Coin{f.XCoins[xi]}
			c.Inputs = "x-only"
			if rapid.Bool().Draw(t, "secondCoinSameAddr") {
				for _, o := range f.XCoins {
					if o.Owner == ins[0].Owner && o.Op != ins[0].Op {
						ins = append(ins, o)
						break
					}
				}
			}
		}
		var total common.Fixed64
		owners := map[common.Uint168]bool{}
		allX := true
		var inputs []*ctypes.Input
		for _, in := range ins {
			total += in.Val
			owners[in.Owner] = true
			allX = allX && in.Owner[0] == byte(contract.PrefixCrossChain)
			inputs = append(inputs, &ctypes.Input{Previous: in.Op})
		}
		nX, nStd := 0, 0
		for o := range owners {
			if o[0] == byte(contract.PrefixCrossChain) {
				nX++
			} else {
				nStd++
			}
		}

		// ---- payload and outputs
		pl := &payload.WithdrawFromSideChain{}
		to := f.N.Keys[2].ProgramHash
		outs := []*ctypes.Output{xchain.PlainOut(total-100, to)}
		txVersion := ctypes.TxVersion09
		if c.Version == 0 {
			pl.BlockHeight = c.Height
			pl.GenesisBlockAddress = "XQd1DCi6H62NQdWZQhJCRnrPn7sF9CTjaU"
			pl.SideChainTransactionHashes = []common.Uint256{f.FreshHash("auth")}
			if rapid.Bool().Draw(t, "v0TxDefault") {
				txVersion = ctypes.TxVersionDefault
			}
		} else {
			outs[0].Type = ctypes.OTWithdrawFromSideChain
			outs[0].Payload = &outputpayload.Withdraw{Version: outputpayload.WithdrawOutputVersion,
				GenesisBlockAddress: "XQd1DCi6H62NQdWZQhJCRnrPn7sF9CTjaU", SideChainTransactionHash: f.FreshHash("auth"), TargetData: []byte("t")}
		}

		// ---- programs
		var progs []*program.Program
		var msProgs []*msProgram
		reqMS := requiredMultisig(c, c.Version)
		reqSch := requiredSchnorr(c)
		if c.Version != 2 {
			for p := 0; p < nX || p < 1; p++ {
				mp := &msProgram{}
				mp.keylist = append(mp.keylist, f.ArbKeys[:c.N]...)
				// the count the code byte must carry: normal arbiters of the list the node consults
				listN := c.N
				if c.Height < c.H2 && !(c.Version == 0 && c.Height < c.H1) {
					listN = c.CRCN
				}
				mp.m = reqMS
				if mp.m < 1 {
					mp.m = 1
				}
				first := p == 0
				if first && has(c.Edits, "mLow") && mp.m > 1 {
					mp.m--
				}
				if first && has(c.Edits, "mHigh") && mp.m < len(mp.keylist) {
					mp.m++
				}
				if first && has(c.Edits, "foreignKeyReplace") {
					mp.keylist[rapid.IntRange(0, len(mp.keylist)-1).Draw(t, "replaceAt")] = f.Foreign[0]
				}
				if first && has(c.Edits, "dropKey") && len(mp.keylist) > 2 {
					i := rapid.IntRange(0, len(mp.keylist)-1).Draw(t, "dropAt")
					mp.keylist = append(append([]*gen.Key{}, mp.keylist[:i]...), mp.keylist[i+1:]...)
				}
				if first && has(c.Edits, "dupKey") {
					mp.keylist = append(mp.keylist, mp.keylist[0])
				}
				if first && has(c.Edits, "extraForeignKey") {
					mp.keylist = append(mp.keylist, f.Foreign[1])
				}
				if first && has(c.Edits, "shuffleKeys") {
					mp.keylist = rapid.Permutation(mp.keylist).Draw(t, "perm")
				}
				mp.nByte = len(mp.keylist)
				if listN != c.N && rapid.Bool().Draw(t, "nByteFollowsCRC") {
					mp.nByte = listN
				}
				if first && has(c.Edits, "nByteWrong") {
					mp.nByte += rapid.SampledFrom([]int{-1, 1}).Draw(t, "nByteDelta")
					if mp.nByte < 1 {
						mp.nByte = 1
					}
				}
				if mp.m > 16 || mp.nByte > 16 {
					t.Skip()
				}
				k := mp.m
				if first && has(c.Edits, "sigsLow") && k > 0 {
					k--
				}
				if first && has(c.Edits, "sigsAll") {
					k = len(mp.keylist)
				}
				if k > len(mp.keylist) {
					k = len(mp.keylist)
				}
				if k > 0 {
					mp.signers = rapid.Permutation(seq(len(mp.keylist))).Draw(t, "signerOrder")[:k]
				}
				if first {
					for _, e := range []string{"dupSig", "badSig", "foreignSigPad"} {
						if has(c.Edits, e) {
							mp.extra = append(mp.extra, e)
						}
					}
					if has(c.Edits, "foreignSigPad") && len(mp.signers) > 0 {
						mp.signers = mp.signers[:len(mp.signers)-1] // one valid arbiter signature is replaced by a foreign one
					}
				}
				msProgs = append(msProgs, mp)
				progs = append(progs, &program.Program{Code: xchain.Code(mp.m, xchain.Pubs(mp.keylist), mp.nByte)})
			}
		} else {
			k := reqSch
			if k < 1 {
				k = 1 // MemberCount*2/3 can be 0 in the middle band; an empty signer list authorises nothing
			}
			if has(c.Edits, "tooFew") && k > 0 {
				k--
			}
			if has(c.Edits, "manySigners") {
				k = c.N
			}
			if k > c.N {
				// more signers demanded than arbiters exist: only duplicates can satisfy the length
				for i := 0; i < k; i++ {
					c.Signers = append(c.Signers, i%c.N)
				}
			} else {
				c.Signers = append(c.Signers, rapid.Permutation(seq(c.N)).Draw(t, "signerSet")[:k]...)
			}
			if has(c.Edits, "dupIndex") || has(c.Edits, "dupIndexProgramDistinct") {
				if len(c.Signers) >= 2 {
					c.Signers[len(c.Signers)-1] = c.Signers[0]
				} else if len(c.Signers) == 1 {
					c.Signers = append(c.Signers, c.Signers[0])
				}
			}
			oob := has(c.Edits, "oobIndex")
			if oob && c.Height < c.HR {
				// below the restriction height an out-of-range index is not validated and panics in
				// checkSchnorrWithdrawFromSidechain (listed under C03); keep this check on its own subject
				oob = false
				c.Edits = remove(c.Edits, "oobIndex")
			}
			c.ProgramOf = append([]int{}, c.Signers...)
			if has(c.Edits, "dupIndexProgramDistinct") {
				// the program commits to the DISTINCT signers only
				c.ProgramOf = distinct(c.Signers)
			}
			if has(c.Edits, "programOtherSet") {
				c.ProgramOf = []int{rapid.IntRange(0, c.N-1).Draw(t, "otherSigner")}
			}
			for _, s := range c.Signers {
				pl.Signers = append(pl.Signers, uint8(s))
			}
			if oob {
				pl.Signers = append(pl.Signers, uint8(rapid.SampledFrom([]int{c.N, c.N + 1, 255}).Draw(t, "oobValue")))
			}
			if len(c.ProgramOf) == 0 {
				c.ProgramOf = []int{0}
			}
			d := xchain.SumPriv(f.ArbKeys, c.ProgramOf)
			if d.Sign() == 0 {
				t.Skip()
			}
			code := xchain.SchnorrCode(xchain.PubOf(d))
			for p := 0; p < nX || p < 1; p++ {
				progs = append(progs, &program.Program{Code: code})
			}
		}
		if nStd > 0 {
			progs = append(progs, &program.Program{Code: f.N.Keys[1].RedeemScript})
		}
		// scriptOwnedInput: a NON cross-chain coin whose owner hash is derived (standard prefix) from the very
		// script the arbiters sign with, so that no program or signature rule stands in for the X-only rule
		if has(c.Edits, "scriptOwnedInput") && !has(c.Edits, "stdOnlyInput") && !has(c.Edits, "mixedInput") {
			code := progs[0].Code
			owner := *common.ToProgramHash(byte(contract.PrefixStandard), code)
			src := f.SCoins[len(f.SCoins)-1]
			fundTx := functions.CreateTransaction(ctypes.TxVersion09, ctypes.TransferAsset, 0, &payload.TransferAsset{},
				[]*ctypes.Attribute{f.NonceAttr()}, []*ctypes.Input{{Previous: src.Op}},
				[]*ctypes.Output{xchain.PlainOut(src.Val-100, owner)}, 0, []*program.Program{{Code: []byte{1}, Parameter: []byte{1}}})
			if _, _, err := f.SaveBlock([]interfaces.Transaction{fundTx}); err != nil {
				t.Fatalf("harness: fund script-owned coin: %v", err)
			}
			defer func() {
				if err := f.RollbackTip(); err != nil {
					t.Fatalf("harness: rollback of the script-owned funding block: %v", err)
				}
			}()
			inputs = append(inputs, &ctypes.Input{Previous: ctypes.OutPoint{TxID: fundTx.Hash(), Index: 0}})
			outs[0].Value += src.Val - 100
			allX = false
			c.Inputs += "+script-owned-standard"
			extra := &program.Program{Code: code}
			if c.Version != 2 {
				msProgs = append(msProgs, msProgs[0])
				// keep the standard-key program (if any) last: signatures are filled by position
				progs = append(progs[:len(msProgs)-1], append([]*program.Program{extra}, progs[len(msProgs)-1:]...)...)
			} else {
				progs = append(progs, extra)
			}
		}

		tx := functions.CreateTransaction(txVersion, ctypes.WithdrawFromSideChain, c.Version, pl,
			[]*ctypes.Attribute{f.NonceAttr()}, inputs, outs, 0, progs)
		data := xchain.Unsigned(tx)

		// ---- signatures; the oracle records who validly signed what
		validSigners := make([]map[string]bool, len(progs))
		if c.Version != 2 {
			for i, mp := range msProgs {
				validSigners[i] = map[string]bool{}
				var sigs [][]byte
				for _, s := range mp.signers {
					k := mp.keylist[s]
					sigs = append(sigs, k.Sign(data))
					if arbSet[string(k.PK)] {
						validSigners[i][string(k.PK)] = true
					}
				}
				for _, e := range mp.extra {
					switch e {
					case "dupSig":
						if len(mp.signers) > 0 {
							sigs = append(sigs, mp.keylist[mp.signers[0]].Sign(data)) // a second signature of the same arbiter
						}
					case "badSig":
						sigs = append(sigs, mp.keylist[0].Sign(append([]byte("other message"), data...)))
					case "foreignSigPad":
						sigs = append(sigs, f.Foreign[2].Sign(data))
					}
				}
				progs[i].Parameter = xchain.Param(sigs)
				c.Programs = append(c.Programs, fmt.Sprintf("m=%d nByte=%d keys=%d sigs=%d(+%v)", mp.m, mp.nByte, len(mp.keylist), len(mp.signers), mp.extra))
			}
		} else {
			d := xchain.SumPriv(f.ArbKeys, c.ProgramOf)
			msg := common.Sha256D(data)
			if has(c.Edits, "badSig") {
				msg[0] ^= 1
			}
			c.SigValid = !has(c.Edits, "badSig")
			sig, err := xchain.SchnorrSign(d, msg)
			if err != nil {
				t.Fatalf("harness: schnorr sign: %v", err)
			}
			for i := 0; i < len(progs); i++ {
				if len(progs[i].Code) == 35 {
					progs[i].Parameter = sig
				}
			}
			c.Programs = append(c.Programs, fmt.Sprintf("schnorr signers=%v programOf=%v", pl.Signers, c.ProgramOf))
		}
		if nStd > 0 {
			s, serr := crypto.Sign(f.N.Keys[1].PrivKey(), data)
			if serr != nil {
				t.Fatalf("harness: sign: %v", serr)
			}
			progs[len(progs)-1].Parameter = append([]byte{byte(len(s))}, s...)
		}
		tx.SetPrograms(progs)

		// ---- run the node's checks
		var stage string
		var err error
		panicked, pv, frame := vk.Catch(func() { stage, err = f.CheckTx(tx, c.Height, &cfg) })
		if panicked {
			if vk.Report(t, "C33:check:panic:"+frame, fmt.Sprint(pv), c) {
				return
			}
		}
		c.Accepted = err == nil
		if os.Getenv("C33_DEBUG") == "mixed" && c.Version == 1 && c.Inputs != "x-only" && c.Inputs != "x-two-addresses" && len(c.Edits) == 1 {
			fmt.Println("MIXED", c.Inputs, stage, err)
		}
		c.Stage = stage
		if err != nil {
			c.Error = err.Error()
		}

		// ---- oracle: accepted => authorised
		class := fmt.Sprintf("v%d/%s", c.Version, map[bool]string{true: "accepted", false: "rejected"}[c.Accepted])
		nontrivial := len(c.Edits) > 0
		if c.Accepted {
			sigPrefix := fmt.Sprintf("C33:accepted:v%d:", c.Version)
			if !allX {
				vk.Report(t, sigPrefix+"non-X-input", fmt.Sprintf("inputs %s", c.Inputs), c)
				return
			}
			if c.Version != 2 {
				for i := range msProgs {
					if len(validSigners[i]) < reqMS {
						vk.Report(t, sigPrefix+"quorum", fmt.Sprintf("program %d: %d distinct current arbiters signed, %d required", i, len(validSigners[i]), reqMS), c)
						return
					}
				}
			} else {
				restricted := c.Height >= c.HR
				dset := distinct(c.Signers)
				if restricted && len(dset) != len(pl.Signers) {
					vk.Report(t, sigPrefix+"duplicate-signer-index", fmt.Sprintf("signers %v at height %d >= restriction %d", pl.Signers, c.Height, c.HR), c)
					return
				}
				for _, s := range pl.Signers {
					if restricted && int(s) >= c.N {
						vk.Report(t, sigPrefix+"signer-index-out-of-range", fmt.Sprintf("signers %v, %d arbiters", pl.Signers, c.N), c)
						return
					}
				}
				count := len(pl.Signers)
				if restricted {
					count = len(dset)
				}
				if count < reqSch {
					vk.Report(t, sigPrefix+"quorum", fmt.Sprintf("%d signers, %d required", count, reqSch), c)
					return
				}
				if !c.SigValid {
					vk.Report(t, sigPrefix+"invalid-schnorr-signature", "signature over another message accepted", c)
					return
				}
				if !sameMultiset(c.ProgramOf, c.Signers) {
					vk.Report(t, sigPrefix+"aggregate-mismatch", fmt.Sprintf("program keyed by %v, signers %v", c.ProgramOf, c.Signers), c)
					return
				}
			}
		}
		// non-vacuity: the honest skeleton is accepted wherever no height gate forbids it
		if len(c.Edits) == 0 || (len(c.Edits) == 1 && (c.Edits[0] == "shuffleKeys" || c.Edits[0] == "twoXAddresses" || c.Edits[0] == "sigsAll" || c.Edits[0] == "manySigners")) {
			gated := (c.Height >= c.HF && c.Height < c.HR) || (c.Height > c.HS && c.Version != 2) || (c.Version == 2 && c.Height < c.HNS)
			feasible := true
			if c.Version != 2 {
				listN := c.N
				if c.Height < c.H2 && !(c.Version == 0 && c.Height < c.H1) {
					listN = c.CRCN
				}
				feasible = listN == c.N && reqMS <= c.N && reqMS >= 1
			} else {
				feasible = len(pl.Signers) >= reqSch && (c.Height < c.HR || len(distinct(c.Signers)) == len(pl.Signers))
			}
			if !gated && feasible {
				honest++
				if c.Accepted {
					honestAccepted++
				} else {
					vk.Class("honest-rejected/" + c.Stage + ":" + short(c.Error))
					if os.Getenv("C33_DEBUG") != "" {
						b, _ := json.Marshal(c)
						fmt.Println("HONEST-REJECTED", string(b))
					}
				}
				class += "/honest"
			}
		}
		for _, e := range c.Edits {
			vk.Class("edit/" + e)
		}
		key, _ := json.Marshal(c)
		vk.Case(class, nontrivial, key, func() any { return c })
	})
	vk.Count("honest", int64(honest))
	vk.Count("honest-accepted", int64(honestAccepted))
	if honest > 20 && honestAccepted*10 < honest*9 {
		t.Fatalf("harness: only %d of %d honest withdrawals were accepted - fixture or gate model is off", honestAccepted, honest)
	}
}

func short(s string) string {
	if i := strings.LastIndex(s, ":"); i >= 0 && i+1 < len(s) {
		s = s[i+1:]
	}
	if len(s) > 50 {
		s = s[:50]
	}
	return strings.TrimSpace(s)
}

func seq(n int) []int {
	s := make([]int, n)
	for i := range s {
		s[i] = i
	}
	return s
}

func distinct(xs []int) []int {
	seen := map[int]bool{}
	var out []int
	for _, x := range xs {
		if !seen[x] {
			seen[x] = true
			out = append(out, x)
		}
	}
	return out
}

func remove(xs []string, s string) []string {
	var out []string
	for _, x := range xs {
		if x != s {
			out = append(out, x)
		}
	}
	return out
}

func sameMultiset(a, b []int) bool {
	if len(a) != len(b) {
		return false
	}
	x := append([]int{}, a...)
	y := append([]int{}, b...)
	sort.Ints(x)
	sort.Ints(y)
	for i := range x {
		if x[i] != y[i] {
			return false
		}
	}
	return true
}

var _ interfaces.Transaction
var _ config.Configuration
