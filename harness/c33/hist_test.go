// C33 (b), context level - a side-chain transaction hash withdrawn on the
// active chain can never be withdrawn again.
//
// History machine on a real store: honestly authorised withdrawals (payload
// v0/v1/v2) are validated with the node's complete SanityCheck+ContextCheck;
// accepted ones are connected with IChainStore.SaveBlock (what connectBlock
// does after validation), blocks are rolled back with RollbackBlock.  Model:
// the set W of side-chain hashes recorded on the active chain.  A withdrawal
// carrying a hash of W must be rejected.
package c33

import (
	"encoding/json"
	"fmt"
	"math"
	"testing"

	"github.com/elastos/Elastos.ELA/common"
	"github.com/elastos/Elastos.ELA/core/types/interfaces"
	"pgregory.net/rapid"
	"verifharness/lib/vk"
	"verifharness/lib/xchain"
)

type histBlock struct {
	hashes []common.Uint256
	coins  []xchain.Coin
	ver    byte
}

func TestSingleUseContext(t *testing.T) {
	rapid.Check(t, func(t *rapid.T) {
		f, err := xchain.NewFixture(6, 1, nil)
		if err != nil {
			t.Fatalf("harness: fixture: %v", err)
		}
		defer f.N.Close()
		const nArb, need = 4, 3
		f.SetArbiters(nArb, nArb)
		cfg := *f.N.Params
		cfg.CRConfiguration.CRClaimDPOSNodeStartHeight = 0
		cfg.DPoSConfiguration.DPOSNodeCrossChainHeight = math.MaxUint32
		cfg.CRConfiguration.CRAgreementCount = need
		cfg.CRConfiguration.MemberCount = 3
		cfg.SchnorrStartHeight = math.MaxUint32
		cfg.NormalSchnorrStartHeight = 0
		if rapid.Bool().Draw(t, "restricted") {
			cfg.CrossChainUTXOFreezeHeight, cfg.CrossChainUTXORestrictionHeight = 0, 0
		} else {
			cfg.CrossChainUTXOFreezeHeight, cfg.CrossChainUTXORestrictionHeight = math.MaxUint32, math.MaxUint32
		}

		W := map[common.Uint256]byte{} // recorded hash -> version of the recording withdrawal
		var rolled []common.Uint256
		var stack []histBlock
		free := append([]xchain.Coin{}, f.XCoins...)
		var ops []string
		var repeats, reincludes, rollbacks int
		render := func() any { return map[string]any{"ops": ops} }

		avoidV2Repeat := vk.IsKnown("C33:single-use:context-check:v2:recorded-hash-accepted") && rapid.IntRange(0, 9).Draw(t, "avoidKnownV2") < 5
		attempt := func(t *rapid.T) {
			if len(free) == 0 {
				t.Skip()
			}
			ver := byte(rapid.IntRange(0, 2).Draw(t, "version"))
			k := rapid.IntRange(1, 2).Draw(t, "nHashes")
			var hashes []common.Uint256
			repeat, reinc := false, false
			var repeatOf byte
			for i := 0; i < k; i++ {
				switch src := rapid.IntRange(0, 3).Draw(t, "hashSource"); {
				case src == 0 && len(W) > 0:
					// deterministic choice among recorded hashes
					var ks []common.Uint256
					for _, b := range stack {
						ks = append(ks, b.hashes...)
					}
					h := ks[rapid.IntRange(0, len(ks)-1).Draw(t, "recorded")]
					hashes = append(hashes, h)
					repeat, repeatOf = true, W[h]
				case src == 1 && len(rolled) > 0:
					h := rolled[rapid.IntRange(0, len(rolled)-1).Draw(t, "rolledBack")]
					if _, rec := W[h]; rec {
						repeat, repeatOf = true, W[h]
					} else {
						reinc = true
					}
					hashes = append(hashes, h)
				default:
					hashes = append(hashes, f.FreshHash("hist"))
				}
			}
			if ver == 0 && len(hashes) == 2 && hashes[0] == hashes[1] {
				hashes = hashes[:1] // a v0 payload must not list a hash twice (sanity rule, not our subject)
			}
			if repeat && ver == 2 && avoidV2Repeat {
				ver = byte(rapid.IntRange(0, 1).Draw(t, "versionNot2"))
			}
			ci := rapid.IntRange(0, len(free)-1).Draw(t, "coin")
			c := free[ci]
			tx, err := f.HonestWithdraw(xchain.WithdrawSpec{Version: ver, Hashes: hashes, Coins: []xchain.Coin{c},
				Height: f.TipBlock.Height + 1, Keys: f.ArbKeys[:nArb], M: need, To: f.N.Keys[2].ProgramHash})
			if err != nil {
				t.Fatalf("harness: build: %v", err)
			}
			stage, cerr := f.CheckTx(tx, f.TipBlock.Height+1, &cfg)
			ops = append(ops, fmt.Sprintf("attempt v%d hashes=%d repeat=%v(of v%d) reinclude=%v -> %s %v", ver, len(hashes), repeat, repeatOf, reinc, stage, cerr))
			if repeat {
				repeats++
				if cerr == nil {
					vk.Report(t, fmt.Sprintf("C33:single-use:context-check:v%d:recorded-hash-accepted", ver),
						fmt.Sprintf("a v%d withdrawal repeating a side-chain hash recorded by a connected v%d withdrawal passed SanityCheck+ContextCheck", ver, repeatOf), render())
					// known: do not connect it (the model would no longer be a set); go on
				}
				return
			}
			if cerr != nil {
				vk.Class(fmt.Sprintf("fresh-rejected/v%d/reinclude=%v/%s", ver, reinc, short(cerr.Error())))
				return
			}
			if reinc {
				reincludes++
			}
			if _, _, err := f.SaveBlock([]interfaces.Transaction{tx}); err != nil {
				t.Fatalf("harness: SaveBlock: %v", err)
			}
			for _, h := range hashes {
				W[h] = ver
			}
			stack = append(stack, histBlock{hashes, []xchain.Coin{c}, ver})
			free = append(free[:ci], free[ci+1:]...)
		}
		rollback := func(t *rapid.T) {
			if len(stack) == 0 {
				t.Skip()
			}
			b := stack[len(stack)-1]
			if err := f.RollbackTip(); err != nil {
				t.Fatalf("harness: rollback: %v", err)
			}
			stack = stack[:len(stack)-1]
			for _, h := range b.hashes {
				delete(W, h)
				rolled = append(rolled, h)
			}
			free = append(free, b.coins...)
			rollbacks++
			ops = append(ops, fmt.Sprintf("rollback v%d block", b.ver))
		}
		t.Repeat(map[string]func(*rapid.T){"": func(*rapid.T) {}, "attempt": attempt, "attempt2": attempt, "rollback": rollback})

		class := "no-repeat"
		if repeats > 0 {
			class = "repeat"
		}
		if rollbacks > 0 {
			class += "+rollback"
		}
		if reincludes > 0 {
			class += "+reinclude"
		}
		key, _ := json.Marshal(ops)
		vk.Case("context/"+class, repeats > 0, key, render)
	})
}
