// C30 - irreversible blocks are never detached; the last irreversible height
// never decreases while the node moves forward.
//
// Generator: the C12 block-tree machine (harness/c12/machine.go) on the
// compressed-parameter profile (CRCOnlyDPOSHeight and RevertToPOWStartHeight
// drawn small), with forks of depth 0..14 around the irreversible height and
// consensus-mode switches (RevertToPOW / RevertToDPOS blocks).
// Oracle: a monitor on the node's event bus (block disconnected / block
// processed) plus a comparison of the active chain before and after every
// ProcessBlock call with the last irreversible height the node had recorded.
package c30

import (
	"encoding/json"
	"fmt"
	"sync"
	"testing"

	"github.com/elastos/Elastos.ELA/common/config"
	"github.com/elastos/Elastos.ELA/core/types"
	"github.com/elastos/Elastos.ELA/events"
	"pgregory.net/rapid"
	"verifharness/c12"
	"verifharness/lib/vk"
	"verifharness/node"
)

func TestMain(m *testing.M) { vk.Main(m, "C30") }

// ---------------------------------------------------------------------------
// event monitor: the events package keeps a process-global subscriber list
// without unsubscribe, so one forwarder is registered once.

type monitor struct {
	mu       sync.Mutex
	n        *node.Node
	recorded uint32 // last irreversible height sampled after the last completed block acceptance
	detached bool   // a block was disconnected since `recorded` was sampled
	pow      bool
	problems []problem
	maxDepth int // deepest single reorganisation seen
	curDepth int
	maxEver  uint32 // highest value ever recorded (evidence only)
	belowMaxEver int
	belowNote string
}

type problem struct{ sig, detail string }

var (
	monOnce sync.Once
	monMu   sync.Mutex
	monCur  *monitor
)

func activate(mo *monitor) {
	monOnce.Do(func() {
		events.Subscribe(func(e *events.Event) {
			monMu.Lock()
			cur := monCur
			monMu.Unlock()
			if cur != nil {
				cur.on(e)
			}
		})
	})
	monMu.Lock()
	monCur = mo
	monMu.Unlock()
}

func mode(pow bool) string {
	if pow {
		return "pow-mode"
	}
	return "dpos-mode"
}

func (mo *monitor) on(e *events.Event) {
	mo.mu.Lock()
	defer mo.mu.Unlock()
	switch e.Type {
	case events.ETBlockDisconnected:
		b, ok := e.Data.(*types.Block)
		if !ok {
			return
		}
		mo.detached = true
		mo.curDepth++
		if mo.curDepth > mo.maxDepth {
			mo.maxDepth = mo.curDepth
		}
		if b.Height <= mo.maxEver && b.Height > mo.recorded {
			mo.belowMaxEver++
			mo.belowNote = fmt.Sprintf("block h%d disconnected; recorded last irreversible height now %d, earlier maximum %d, pow=%v", b.Height, mo.recorded, mo.maxEver, mo.pow)
		}
		if b.Height <= mo.recorded {
			mo.problems = append(mo.problems, problem{"C30:reorganize:detached-block-at-or-below-last-irreversible-height:" + mode(mo.pow),
				fmt.Sprintf("block at height %d disconnected while the recorded last irreversible height was %d", b.Height, mo.recorded)})
		}
	case events.ETBlockProcessed:
		// fired at the end of every maybeAcceptBlock, after the DPoS state processed the block(s)
		lih := mo.n.Arbiters.GetLastIrreversibleHeight()
		if !mo.detached && lih < mo.recorded {
			mo.problems = append(mo.problems, problem{"C30:last-irreversible-height-decreased-while-moving-forward:" + mode(mo.pow),
				fmt.Sprintf("last irreversible height %d -> %d after a block acceptance that disconnected nothing", mo.recorded, lih)})
		}
		mo.recorded = lih
		if lih > mo.maxEver {
			mo.maxEver = lih
		}
		mo.pow = mo.n.Arbiters.IsInPOWMode()
		mo.detached = false
		mo.curDepth = 0
	}
}

// ---------------------------------------------------------------------------

type caseState struct {
	mo *monitor
	// classification
	crossForkDelivered bool // a heavier branch forking at or below the irreversible height became known
	crossInPow         bool
	crossInDpos        bool
	sawPow, sawBackToDpos bool
	reorgs             int
	maxLIH             uint32
}

func (cs *caseState) onStep(m *c12.Machine, s *c12.Step) bool {
	mo := cs.mo
	mo.mu.Lock()
	probs := mo.problems
	mo.problems = nil
	mo.mu.Unlock()
	for _, p := range probs {
		vk.Report(m.T, p.sig, p.detail+fmt.Sprintf(" [step %d: %s %v]", m.Steps, s.Op, s.Blk), m.Render())
		return false
	}
	if s.Panic != "" {
		vk.Report(m.T, "C30:ProcessBlock:panic", s.Panic, m.Render())
		return false
	}
	if s.After == nil {
		m.T.Fatalf("harness: node tip %s is not a block of the tree", s.AfterHash.String())
	}
	before, after := s.Before, s.After

	// model-side clause, independent of the event bus: the part of the old
	// active chain at or below the irreversible height recorded BEFORE the call
	// is still part of the active chain
	k := s.LIHBefore
	if k > before.Height {
		k = before.Height
	}
	if k > 0 {
		anc := before
		for anc.Height > k {
			anc = anc.Parent
		}
		if !anc.IsAncestorOf(after) {
			vk.Report(m.T, "C30:active-chain:block-at-or-below-last-irreversible-height-replaced:"+mode(s.PowBefore),
				fmt.Sprintf("tip %v (h%d) -> %v (h%d): block %v at height %d <= last irreversible height %d left the active chain",
					before, before.Height, after, after.Height, anc, anc.Height, s.LIHBefore), m.Render())
			return false
		}
	}
	// step-level monotonicity (single acceptances are covered by the monitor)
	disc := 0
	for _, e := range s.Events {
		if !e.Connected {
			disc++
		}
	}
	if disc == 0 && s.LIHAfter < s.LIHBefore {
		vk.Report(m.T, "C30:last-irreversible-height-decreased-while-moving-forward:"+mode(s.PowBefore),
			fmt.Sprintf("%d -> %d in a step without disconnects", s.LIHBefore, s.LIHAfter), m.Render())
		return false
	}
	if disc > 0 {
		cs.reorgs++
		if s.LIHAfter < s.LIHBefore {
			vk.Count("lih-lower-after-reorg-step", 1)
		}
	}
	if s.LIHAfter > cs.maxLIH {
		cs.maxLIH = s.LIHAfter
	}
	// BlockChain.ReorganizeChain does not publish ETBlockProcessed: re-sample the
	// recorded height at the end of every call (it is what the node's state holds now)
	mo.mu.Lock()
	mo.recorded, mo.pow, mo.detached, mo.curDepth = s.LIHAfter, s.PowAfter, false, 0
	if s.LIHAfter > mo.maxEver {
		mo.maxEver = s.LIHAfter
	}
	mo.mu.Unlock()
	if s.PowAfter {
		cs.sawPow = true
	} else if cs.sawPow {
		cs.sawBackToDpos = true
	}
	// non-triviality: a heavier branch forking at or below the irreversible height became known
	if s.LIHBefore > 0 && before.Height > m.N.Params.CRCOnlyDPOSHeight {
		for _, x := range s.NewlyAccepted {
			if x.Work.Cmp(before.Work) > 0 && !before.IsAncestorOf(x) && c12.ForkPoint(before, x).Height <= s.LIHBefore {
				cs.crossForkDelivered = true
				if s.PowBefore {
					cs.crossInPow = true
				} else {
					cs.crossInDpos = true
				}
			}
		}
	}
	return true
}

type profile struct{ crcOnly, revertStart uint32 }

// The shipped networks all have CRCOnlyDPOSHeight < RevertToPOWStartHeight
// (State.IsIrreversible is switched off up to CRCOnlyDPOSHeight while the
// irreversible height is recorded from RevertToPOWStartHeight on); the
// generator keeps that order.
func drawProfile(t *rapid.T) profile {
	c := uint32(rapid.IntRange(2, 12).Draw(t, "CRCOnlyDPOSHeight"))
	lo := int(c) + 1
	if lo < 7 {
		lo = 7
	}
	return profile{crcOnly: c, revertStart: uint32(rapid.IntRange(lo, lo+8).Draw(t, "RevertToPOWStartHeight"))}
}

func (p profile) tweak(c *config.Configuration) {
	// PublicDPOSHeight stays far away: below it the coinbase rule does not depend
	// on the arbiters' round state, so a block built for a side branch is valid
	// there whatever the node's current tip is.
	node.Compressed(node.Heights{VoteStart: 2, CRCOnlyDPOS: p.crcOnly, RevertToPOWStart: p.revertStart})(c)
}

// forceReorg: BlockChain.ReorganizeChain on a fully known valid block that is
// not on the active chain (what the DPoS layer would ask for after seeing a
// confirm for a block of a side chain).
func forceReorg(m *c12.Machine) map[string]func(*rapid.T) {
	return map[string]func(*rapid.T){
		"force-reorg": func(t *rapid.T) {
			if m.Tip == nil {
				t.Skip("dead")
			}
			var side []*c12.Blk
			for _, b := range m.Blocks {
				if b.Accepted && b.ChainOK && !b.Stranded && !b.IsAncestorOf(m.Tip) && m.N.Chain.BlockExists(&b.Hash) {
					side = append(side, b)
				}
			}
			if len(side) == 0 {
				t.Skip("no side-chain block")
			}
			// prefer the far ends of side branches
			b := side[rapid.IntRange(0, len(side)-1).Draw(t, "side")]
			for rapid.Bool().Draw(t, "descend") {
				var next *c12.Blk
				for _, c := range b.Children {
					if c.Accepted && c.ChainOK && m.N.Chain.BlockExists(&c.Hash) {
						next = c
					}
				}
				if next == nil {
					break
				}
				b = next
			}
			m.ForceReorganize(b)
		},
	}
}

func runCase(t *rapid.T, unit string, invalid bool) {
	p := drawProfile(t)
	mb, md := 8, 8
	if vk.Thorough() {
		mb, md = 14, 14
	}
	cs := &caseState{}
	cfg := c12.Config{Tweak: p.tweak, Invalid: invalid, Reverts: true, MaxBranch: mb, MaxDepth: md, OnStep: cs.onStep}
	if unit == "api" {
		cfg.ExtraActions = forceReorg
	}
	m := c12.Start(t, cfg)
	defer m.Close()
	m.Extra = map[string]any{"CRCOnlyDPOSHeight": p.crcOnly, "RevertToPOWStartHeight": p.revertStart}
	cs.mo = &monitor{n: m.N}
	activate(cs.mo)
	defer activate(nil)
	hi := p.revertStart
	if p.crcOnly > hi {
		hi = p.crcOnly
	}
	m.Premine(t, int(hi)+rapid.IntRange(0, 10).Draw(t, "premineExtra"))
	t.Repeat(m.Actions())

	class := "no-irreversible-height-reached"
	switch {
	case cs.crossInPow && cs.crossInDpos:
		class = "heavier-fork-at-or-below-LIH:both-modes"
	case cs.crossInPow:
		class = "heavier-fork-at-or-below-LIH:pow-mode"
	case cs.crossInDpos:
		class = "heavier-fork-at-or-below-LIH:dpos-mode"
	case cs.maxLIH > 0 && cs.reorgs > 0:
		class = "reorgs-above-LIH-only"
	case cs.maxLIH > 0:
		class = "LIH-live-no-reorg"
	}
	if cs.sawPow {
		vk.Class(unit + "/with-revert-to-pow")
	}
	if cs.sawBackToDpos {
		vk.Class(unit + "/with-revert-to-pow-and-back-to-dpos")
	}
	if cs.mo.maxDepth >= 6 {
		vk.Class(unit + "/with-reorg-depth>=6")
	}
	if cs.mo.belowNote != "" {
		vk.Note("sample:detached-at-or-below-earlier-higher-recorded-height", cs.mo.belowNote+" ops-tail="+fmt.Sprint(tail(m.Ops, 12)))
	}
	vk.Count("reorg-steps", int64(cs.reorgs))
	vk.Count("detached-blocks-at-or-below-an-earlier-higher-recorded-height", int64(cs.mo.belowMaxEver))
	vk.Count("deliveries", int64(m.Steps))
	key, _ := json.Marshal(m.Ops)
	vk.Case(unit+"/"+class, cs.crossForkDelivered, key, m.Render)
}

// TestIrreversible: valid blocks only (deep forks, mode switches).
func TestIrreversible(t *testing.T) {
	rapid.Check(t, func(t *rapid.T) { runCase(t, "valid", false) })
}

// TestIrreversibleWithInvalid: branches may contain invalid blocks (a failed
// reorganisation must not detach irreversible blocks either).
func TestIrreversibleWithInvalid(t *testing.T) {
	rapid.Check(t, func(t *rapid.T) { runCase(t, "invalid", true) })
}

func tail(a []string, n int) []string {
	if len(a) > n {
		return a[len(a)-n:]
	}
	return a
}

// TestIrreversibleForcedReorg: additionally calls the exported
// BlockChain.ReorganizeChain(block) on side-chain blocks.
func TestIrreversibleForcedReorg(t *testing.T) {
	rapid.Check(t, func(t *rapid.T) { runCase(t, "api", false) })
}
