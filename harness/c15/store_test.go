package c15

// Unit "store": the indexed transaction cache (indexers.TxCache behind
// UnspentIndex.FetchTx / ChainStoreFFLDB.GetTransaction) at store level.
// Synthesised blocks (no signatures; the store does not validate) carrying
// transactions of every shape - no inputs and no outputs (special payload-only
// types), inputs but no outputs, one to many outputs, spenders that use up all
// outputs of an earlier transaction - are connected through the real
// IChainStore.SaveBlock and disconnected in LIFO order through RollbackBlock,
// with alternative blocks (new and carried-over transactions) connected
// afterwards.  After every step, for every transaction ever connected, the
// cached lookup is compared with (a) the model of the connected chain and (b) a
// fresh, empty-cache UnspentIndex over the same database.

import (
	"bytes"
	"encoding/json"
	"fmt"
	"testing"

	"github.com/elastos/Elastos.ELA/blockchain/indexers"
	"github.com/elastos/Elastos.ELA/common"
	"github.com/elastos/Elastos.ELA/common/config"
	"github.com/elastos/Elastos.ELA/core/contract/program"
	ctypes "github.com/elastos/Elastos.ELA/core/types/common"
	"github.com/elastos/Elastos.ELA/core/types/functions"
	"github.com/elastos/Elastos.ELA/core/types/interfaces"
	"github.com/elastos/Elastos.ELA/core/types/payload"
	"pgregory.net/rapid"
	"verifharness/gen"
	"verifharness/lib/vk"
	"verifharness/lib/xchain"
)

var noIOTypes = []ctypes.TxType{
	ctypes.ActivateProducer, ctypes.IllegalProposalEvidence, ctypes.IllegalVoteEvidence, ctypes.IllegalBlockEvidence,
	ctypes.IllegalSidechainEvidence, ctypes.InactiveArbitrators, ctypes.NextTurnDPOSInfo, ctypes.RevertToPOW, ctypes.RevertToDPOS,
}

type sTx struct {
	tx     interfaces.Transaction
	bytes  []byte
	shape  string
	height uint32 // 0 = not connected
}

type sBlock struct {
	height  uint32
	txs     []common.Uint256
	spent   map[ctypes.OutPoint]common.Fixed64
	created []ctypes.OutPoint
}

type machS struct {
	t      *rapid.T
	f      *xchain.Fixture
	params *config.Configuration
	volume uint32
	ops    []string
	op     string
	dead   bool

	txs   map[common.Uint256]*sTx
	order []common.Uint256
	utxo  map[ctypes.OutPoint]common.Fixed64
	stack []*sBlock

	disconnects, altAfterDisconnect, noioDetached, zeroOutDetached, carried int
	shapes                                                                  map[string]int
}

func (m *machS) log(f string, a ...any) { m.ops = append(m.ops, fmt.Sprintf(f, a...)) }
func (m *machS) render() any {
	return map[string]any{"unit": "store", "TxCacheVolume": m.volume, "ops": m.ops}
}
func (m *machS) report(sig, detail string) {
	m.dead = true
	vk.Report(m.t, "C15:store:"+sig+":"+m.op, detail, m.render())
}

func wireRoundTrips(tx interfaces.Transaction) bool {
	buf := new(bytes.Buffer)
	if err := tx.Serialize(buf); err != nil {
		return false
	}
	raw := append([]byte{}, buf.Bytes()...)
	r := bytes.NewReader(raw)
	tx2, err := functions.GetTransactionByBytes(r)
	if err != nil {
		return false
	}
	if err := tx2.Deserialize(r); err != nil || r.Len() != 0 {
		return false
	}
	buf2 := new(bytes.Buffer)
	if err := tx2.Serialize(buf2); err != nil {
		return false
	}
	return bytes.Equal(raw, buf2.Bytes()) && tx2.Hash() == tx.Hash()
}

func (m *machS) sortedUTXO(exclude map[ctypes.OutPoint]bool) []ctypes.OutPoint {
	var ops []ctypes.OutPoint
	for op := range m.utxo {
		if !exclude[op] {
			ops = append(ops, op)
		}
	}
	sortOutpoints(ops)
	return ops
}

func sortOutpoints(ops []ctypes.OutPoint) {
	for i := 1; i < len(ops); i++ {
		for j := i; j > 0; j-- {
			a, b := ops[j-1], ops[j]
			if c := a.TxID.Compare(b.TxID); c > 0 || (c == 0 && a.Index > b.Index) {
				ops[j-1], ops[j] = b, a
			} else {
				break
			}
		}
	}
}

// genTx draws one transaction of a drawn shape; nil if not constructible now.
func (m *machS) genTx(used map[ctypes.OutPoint]bool) *sTx {
	t := m.t
	attrs := []*ctypes.Attribute{m.f.NonceAttr()}
	progs := []*program.Program{{Code: []byte{1, 2, 3}, Parameter: []byte{4}}}
	shape := rapid.SampledFrom([]string{"noio", "noio", "burn", "one-out", "many-out", "many-out", "sweep"}).Draw(t, "shape")
	if shape == "noio" {
		tt := rapid.SampledFrom(noIOTypes).Draw(t, "noioType")
		spec := gen.SpecOf(tt)
		ver := spec.Versions[rapid.IntRange(0, len(spec.Versions)-1).Draw(t, "noioVer")]
		pl := gen.NewFiller(t, nil).Payload(tt, ver)
		tx := functions.CreateTransaction(ctypes.TxVersion09, tt, ver, pl, attrs, nil, nil, 0, progs)
		if !wireRoundTrips(tx) {
			return nil
		}
		return &sTx{tx: tx, shape: "no-inputs-no-outputs/" + spec.Name}
	}
	avail := m.sortedUTXO(used)
	if len(avail) == 0 {
		return nil
	}
	var spend []ctypes.OutPoint
	if shape == "sweep" {
		// all still unspent outputs of one transaction (its index entry disappears)
		first := avail[rapid.IntRange(0, len(avail)-1).Draw(t, "sweepOf")]
		for _, op := range avail {
			if op.TxID == first.TxID {
				spend = append(spend, op)
			}
		}
	} else {
		k := rapid.IntRange(1, 3).Draw(t, "nin")
		seen := map[ctypes.OutPoint]bool{}
		for i := 0; i < k; i++ {
			op := avail[rapid.IntRange(0, len(avail)-1).Draw(t, "in")]
			if !seen[op] {
				seen[op] = true
				spend = append(spend, op)
			}
		}
	}
	var total common.Fixed64
	var ins []*ctypes.Input
	for _, op := range spend {
		total += m.utxo[op]
		ins = append(ins, &ctypes.Input{Previous: op})
	}
	nout := 1
	switch shape {
	case "burn":
		nout = 0
	case "many-out":
		nout = rapid.IntRange(2, 16).Draw(t, "nout")
	case "sweep":
		nout = rapid.IntRange(1, 3).Draw(t, "nout")
	}
	var outs []*ctypes.Output
	for i := 0; i < nout; i++ {
		v := total / common.Fixed64(nout+1)
		if v <= 0 {
			v = 1
		}
		outs = append(outs, xchain.PlainOut(v, m.f.N.Keys[1+i%3].ProgramHash))
	}
	ver := ctypes.TxVersionDefault
	if rapid.Bool().Draw(t, "v9") {
		ver = ctypes.TxVersion09
	}
	tx := functions.CreateTransaction(ver, ctypes.TransferAsset, 0, &payload.TransferAsset{}, attrs, ins, outs, 0, progs)
	if !wireRoundTrips(tx) {
		return nil
	}
	names := map[string]string{"burn": "inputs-no-outputs", "one-out": "one-output", "many-out": "many-outputs", "sweep": "spends-all-outputs-of-a-tx"}
	return &sTx{tx: tx, shape: names[shape]}
}

func (m *machS) usable(tx interfaces.Transaction, used map[ctypes.OutPoint]bool) bool {
	for _, in := range tx.Inputs() {
		if _, ok := m.utxo[in.Previous]; !ok || used[in.Previous] {
			return false
		}
	}
	return true
}

func (m *machS) connect() {
	t := m.t
	used := map[ctypes.OutPoint]bool{}
	var recs []*sTx
	// carry over transactions that are currently detached (an alternative block
	// may contain the same transaction at another height)
	for _, h := range m.order {
		r := m.txs[h]
		if r.height == 0 && !r.tx.IsCoinBaseTx() && rapid.IntRange(0, 3).Draw(t, "carry") == 0 && m.usable(r.tx, used) {
			for _, in := range r.tx.Inputs() {
				used[in.Previous] = true
			}
			recs = append(recs, r)
			m.carried++
		}
	}
	for n := rapid.IntRange(0, 4).Draw(t, "ntx"); n > 0; n-- {
		if r := m.genTx(used); r != nil {
			for _, in := range r.tx.Inputs() {
				used[in.Previous] = true
			}
			recs = append(recs, r)
		}
	}
	var txs []interfaces.Transaction
	for _, r := range recs {
		txs = append(txs, r.tx)
	}
	b, _, err := m.f.SaveBlock(txs)
	if err != nil {
		t.Fatalf("harness: SaveBlock: %v", err)
	}
	sb := &sBlock{height: b.Height, spent: map[ctypes.OutPoint]common.Fixed64{}}
	var shapes []string
	for _, tx := range b.Transactions {
		h := tx.Hash()
		r, ok := m.txs[h]
		if !ok {
			r = &sTx{tx: tx, shape: "coinbase"}
			for _, c := range recs {
				if c.tx.Hash() == h {
					r.shape = c.shape
				}
			}
			m.txs[h] = r
			m.order = append(m.order, h)
		}
		r.tx, r.bytes, r.height = tx, txBytes(tx), b.Height
		sb.txs = append(sb.txs, h)
		m.shapes[r.shape]++
		if !tx.IsCoinBaseTx() {
			shapes = append(shapes, r.shape)
			for _, in := range tx.Inputs() {
				sb.spent[in.Previous] = m.utxo[in.Previous]
				delete(m.utxo, in.Previous)
			}
		}
		for i, o := range tx.Outputs() {
			op := ctypes.OutPoint{TxID: h, Index: uint16(i)}
			m.utxo[op] = o.Value
			sb.created = append(sb.created, op)
		}
	}
	if m.disconnects > 0 {
		m.altAfterDisconnect++
	}
	m.stack = append(m.stack, sb)
	m.log("connect h=%d %v", b.Height, shapes)
}

func (m *machS) disconnect() {
	if len(m.stack) == 0 {
		return
	}
	sb := m.stack[len(m.stack)-1]
	if err := m.f.RollbackTip(); err != nil {
		m.t.Fatalf("harness: RollbackTip: %v", err)
	}
	m.stack = m.stack[:len(m.stack)-1]
	for _, op := range sb.created {
		delete(m.utxo, op)
	}
	for op, v := range sb.spent {
		m.utxo[op] = v
	}
	for _, h := range sb.txs {
		r := m.txs[h]
		r.height = 0
		if len(r.tx.Outputs()) == 0 {
			m.zeroOutDetached++
			if len(r.tx.Inputs()) == 0 {
				m.noioDetached++
			}
		}
	}
	m.disconnects++
	m.log("disconnect h=%d (%d txs)", sb.height, len(sb.txs))
}

// check compares, for every transaction ever connected, the cached lookup with
// the model and with an uncached lookup.
func (m *machS) check() {
	if m.dead {
		return
	}
	store := m.f.N.Store.GetFFLDB()
	fresh := indexers.NewUnspentIndex(store, m.params)
	for _, h := range m.order {
		r := m.txs[h]
		got, gh, err := store.GetTransaction(h)
		utx, uh, uerr := fresh.FetchTx(h)
		id := fmt.Sprintf("%s (%s)", h.String()[:10], r.shape)
		switch {
		case r.height == 0 && err == nil:
			m.report("answers-for-disconnected-tx", fmt.Sprintf("GetTransaction serves %s at height %d after its block was disconnected (uncached lookup: %v)", id, gh, uerr))
		case r.height != 0 && err != nil:
			m.report("fails-for-connected-tx", fmt.Sprintf("GetTransaction(%s): %v (uncached lookup: err=%v)", id, err, uerr))
		case r.height != 0 && !bytes.Equal(txBytes(got), r.bytes):
			m.report("wrong-bytes", fmt.Sprintf("GetTransaction(%s) returns other bytes than the connected block holds", id))
		case r.height != 0 && gh != r.height:
			m.report("wrong-height", fmt.Sprintf("GetTransaction(%s) height %d, connected at %d", id, gh, r.height))
		case (err == nil) != (uerr == nil):
			m.report("differs-from-uncached", fmt.Sprintf("%s: cached err=%v, uncached err=%v", id, err, uerr))
		case err == nil && (uh != gh || !bytes.Equal(txBytes(utx), txBytes(got))):
			m.report("differs-from-uncached", fmt.Sprintf("%s: cached (height %d) and uncached (height %d) answers differ", id, gh, uh))
		}
		if m.dead {
			return
		}
	}
}

func TestStoreTxCache(t *testing.T) {
	rapid.Check(t, func(t *rapid.T) {
		m := &machS{t: t, txs: map[common.Uint256]*sTx{}, utxo: map[ctypes.OutPoint]common.Fixed64{}, shapes: map[string]int{}}
		m.volume = uint32(rapid.SampledFrom([]int{0, 1, 3, 100000}).Draw(t, "TxCacheVolume"))
		f, err := xchain.NewFixture(0, 16, func(p *config.Configuration) { p.TxCacheVolume = m.volume })
		if err != nil {
			t.Fatalf("harness: fixture: %v", err)
		}
		defer f.N.Close()
		m.f, m.params = f, f.N.Params
		for _, c := range f.SCoins {
			m.utxo[c.Op] = c.Val
		}
		m.op = "connect"
		t.Repeat(map[string]func(*rapid.T){
			"": func(t *rapid.T) { m.t = t; m.check() },
			"connect": func(t *rapid.T) {
				m.t = t
				m.op = "connect"
				if !m.dead {
					m.connect()
				}
			},
			"connect2": func(t *rapid.T) {
				m.t = t
				m.op = "connect"
				if !m.dead {
					m.connect()
				}
			},
			"disconnect": func(t *rapid.T) {
				m.t = t
				m.op = "disconnect"
				if !m.dead {
					m.disconnect()
				}
			},
		})
		nt := m.zeroOutDetached > 0 && m.altAfterDisconnect > 0
		cl := "store/connect-only"
		switch {
		case m.noioDetached > 0 && m.altAfterDisconnect > 0:
			cl = "store/payload-only-tx-detached+alternative-block"
		case m.zeroOutDetached > 0 && m.altAfterDisconnect > 0:
			cl = "store/zero-output-tx-detached+alternative-block"
		case m.disconnects > 0:
			cl = "store/disconnects"
		}
		for s, n := range m.shapes {
			vk.Count("store/connected/"+s, int64(n))
		}
		vk.Count("store/disconnects", int64(m.disconnects))
		vk.Count("store/carried-into-alternative-block", int64(m.carried))
		key, _ := json.Marshal(m.ops)
		vk.Case(cl, nt, key, m.render)
	})
}
