// C15 - caches are transparent and bounded.
//
// Unit "send": the serialized-block send cache in p2p.WriteMessage.
package c15

import (
	"bytes"
	"crypto/sha256"
	"encoding/binary"
	"encoding/json"
	"fmt"
	"net"
	"testing"
	"time"

	"github.com/elastos/Elastos.ELA/common"
	"github.com/elastos/Elastos.ELA/core/contract/program"
	"github.com/elastos/Elastos.ELA/core/transaction"
	"github.com/elastos/Elastos.ELA/core/types"
	ctypes "github.com/elastos/Elastos.ELA/core/types/common"
	"github.com/elastos/Elastos.ELA/core/types/functions"
	"github.com/elastos/Elastos.ELA/core/types/interfaces"
	"github.com/elastos/Elastos.ELA/core/types/outputpayload"
	"github.com/elastos/Elastos.ELA/core/types/payload"
	"github.com/elastos/Elastos.ELA/p2p"
	"github.com/elastos/Elastos.ELA/p2p/msg"
	"pgregory.net/rapid"
	"verifharness/lib/vk"
)

func TestMain(m *testing.M) { vk.Main(m, "C15") }

// recConn records everything written to it.
type recConn struct{ buf bytes.Buffer }

func (c *recConn) Read(b []byte) (int, error)         { return 0, fmt.Errorf("not readable") }
func (c *recConn) Write(b []byte) (int, error)        { return c.buf.Write(b) }
func (c *recConn) Close() error                       { return nil }
func (c *recConn) LocalAddr() net.Addr                { return &net.TCPAddr{} }
func (c *recConn) RemoteAddr() net.Addr               { return &net.TCPAddr{} }
func (c *recConn) SetDeadline(t time.Time) error      { return nil }
func (c *recConn) SetReadDeadline(t time.Time) error  { return nil }
func (c *recConn) SetWriteDeadline(t time.Time) error { return nil }

func wire() {
	functions.GetTransactionByTxType = transaction.GetTransaction
	functions.GetTransactionByBytes = transaction.GetTransactionByBytes
	functions.CreateTransaction = transaction.CreateTransaction
	functions.GetTransactionParameters = transaction.GetTransactionparameters
}

// synthBlock builds a small block; i selects the content (distinct hashes).
func synthBlock(i int, ntx int) *types.Block {
	var txs []interfaces.Transaction
	cb := functions.CreateTransaction(0, ctypes.CoinBase, payload.CoinBaseVersion, &payload.CoinBase{Content: []byte{byte(i)}},
		[]*ctypes.Attribute{}, []*ctypes.Input{{Previous: ctypes.OutPoint{Index: 0xffff}, Sequence: 0xffffffff}},
		[]*ctypes.Output{{Value: common.Fixed64(100 + i), Type: ctypes.OTNone, Payload: &outputpayload.DefaultOutput{}}},
		uint32(i), []*program.Program{})
	txs = append(txs, cb)
	for k := 0; k < ntx; k++ {
		var prev common.Uint256
		prev[0], prev[1] = byte(i), byte(k+1)
		tx := functions.CreateTransaction(0, ctypes.TransferAsset, 0, &payload.TransferAsset{}, []*ctypes.Attribute{},
			[]*ctypes.Input{{Previous: ctypes.OutPoint{TxID: prev, Index: uint16(k)}}},
			[]*ctypes.Output{{Value: common.Fixed64(k + 1), Type: ctypes.OTNone, Payload: &outputpayload.DefaultOutput{}}},
			0, []*program.Program{{Code: []byte{1, 2, 3}, Parameter: []byte{4, 5}}})
		txs = append(txs, tx)
	}
	b := &types.Block{Header: ctypes.Header{Version: 0, Timestamp: uint32(1000 + i), Bits: 0x207fffff, Height: uint32(10 + i), Nonce: uint32(i)}}
	b.Header.MerkleRoot[0] = byte(i)
	b.Transactions = txs
	return b
}

func synthConfirm(b *types.Block, nvotes int) *payload.Confirm {
	c := &payload.Confirm{Proposal: payload.DPOSProposal{Sponsor: bytes.Repeat([]byte{2}, 33), BlockHash: b.Hash(), ViewOffset: 1, Sign: bytes.Repeat([]byte{7}, 64)}}
	for i := 0; i < nvotes; i++ {
		c.Votes = append(c.Votes, payload.DPOSProposalVote{ProposalHash: c.Proposal.Hash(), Signer: bytes.Repeat([]byte{byte(3 + i)}, 33), Accept: true,
			Sign: bytes.Repeat([]byte{byte(9 + i)}, 64)})
	}
	return c
}

// refFrame is the reference framing: header (magic, 12-byte command, length,
// first 4 bytes of double-SHA256) followed by the payload.
func refFrame(magic uint32, cmd string, payload []byte) []byte {
	out := make([]byte, 24, 24+len(payload))
	binary.LittleEndian.PutUint32(out[0:], magic)
	copy(out[4:16], cmd)
	binary.LittleEndian.PutUint32(out[16:], uint32(len(payload)))
	h1 := sha256.Sum256(payload)
	h2 := sha256.Sum256(h1[:])
	copy(out[20:24], h2[:4])
	return append(out, payload...)
}

// the callback the peers pass to WriteMessage (p2p/peer/peer.go, dpos/p2p/peer/peer.go)
func getDposBlock(m p2p.Message) (*types.DposBlock, bool) {
	mb, ok := m.(*msg.Block)
	if !ok {
		return nil, false
	}
	d, ok := mb.Serializable.(*types.DposBlock)
	return d, ok
}

func TestSendCache(t *testing.T) {
	wire()
	const nblocks = 5
	var blocks []*types.Block
	var confirms []*payload.Confirm
	for i := 0; i < nblocks; i++ {
		b := synthBlock(i, i%3)
		blocks = append(blocks, b)
		confirms = append(confirms, synthConfirm(b, 2+i%2))
	}
	rapid.Check(t, func(t *rapid.T) {
		p2p.VerifResetBlocksCache()
		magic := uint32(rapid.SampledFrom([]uint32{2018201, 0xffffffff, 1}).Draw(t, "magic"))
		var ops []string
		type ckey struct {
			i       int
			confirm bool
		}
		sent := map[ckey]int{}
		distinctBlocks := map[int]bool{}
		resent, bothVariants := 0, false
		dead := false
		render := func() any { return map[string]any{"unit": "send", "magic": magic, "ops": ops} }
		t.Repeat(map[string]func(*rapid.T){
			"": func(t *rapid.T) {
				// invariant after every action: the cache stays within BlocksCacheSize
				if dead {
					return
				}
				outer, entries, fifo := p2p.VerifBlocksCacheStats()
				if !checkSendBounds(t, outer, entries, fifo, render) {
					dead = true
				}
			},
			"block": func(t *rapid.T) {
				if dead {
					return
				}
				i := rapid.IntRange(0, nblocks-1).Draw(t, "block")
				withConfirm := rapid.Bool().Draw(t, "confirm")
				// a fresh DposBlock value every time, as GetDposBlockByHash returns
				d := &types.DposBlock{Block: blocks[i], HaveConfirm: withConfirm}
				if withConfirm {
					d.Confirm = confirms[i]
				}
				m := msg.NewBlock(d)
				want := new(bytes.Buffer)
				if err := d.Serialize(want); err != nil {
					t.Fatalf("harness: %v", err)
				}
				conn := &recConn{}
				err := p2p.WriteMessage(conn, magic, m, time.Second, getDposBlock)
				ops = append(ops, fmt.Sprintf("block %d confirm=%v", i, withConfirm))
				if err != nil {
					dead = true
					vk.Report(t, "C15:sendcache:write-error", err.Error(), render())
					return
				}
				exp := refFrame(magic, "block", want.Bytes())
				if !bytes.Equal(conn.buf.Bytes(), exp) {
					dead = true
					kind := "bytes-differ"
					// which variant did we get?
					other := &types.DposBlock{Block: blocks[i], HaveConfirm: !withConfirm}
					if !withConfirm {
						other.Confirm = confirms[i]
					}
					ob := new(bytes.Buffer)
					_ = other.Serialize(ob)
					if bytes.Equal(conn.buf.Bytes(), refFrame(magic, "block", ob.Bytes())) {
						kind = "other-confirm-variant"
					}
					vk.Report(t, "C15:sendcache:transparency:"+kind,
						fmt.Sprintf("block %d confirm=%v: wire bytes differ from header+Serialize() (%d vs %d bytes)", i, withConfirm, conn.buf.Len(), len(exp)), render())
					return
				}
				k := ckey{i, withConfirm}
				if sent[k] > 0 {
					resent++
				}
				sent[k]++
				distinctBlocks[i] = true
				if sent[ckey{i, !withConfirm}] > 0 {
					bothVariants = true
				}
			},
			"plainBlock": func(t *rapid.T) {
				if dead {
					return
				}
				// a block message that does not wrap a DposBlock goes the uncached way
				i := rapid.IntRange(0, nblocks-1).Draw(t, "block")
				m := msg.NewBlock(blocks[i])
				want := new(bytes.Buffer)
				_ = blocks[i].Serialize(want)
				conn := &recConn{}
				err := p2p.WriteMessage(conn, magic, m, time.Second, getDposBlock)
				ops = append(ops, fmt.Sprintf("plain block %d", i))
				if err != nil || !bytes.Equal(conn.buf.Bytes(), refFrame(magic, "block", want.Bytes())) {
					dead = true
					vk.Report(t, "C15:sendcache:transparency:plain-block", fmt.Sprintf("plain block %d: err=%v", i, err), render())
				}
			},
			"ping": func(t *rapid.T) {
				if dead {
					return
				}
				nonce := rapid.Uint64().Draw(t, "nonce")
				conn := &recConn{}
				err := p2p.WriteMessage(conn, magic, msg.NewPing(nonce), time.Second, getDposBlock)
				var pl [8]byte
				binary.LittleEndian.PutUint64(pl[:], nonce)
				ops = append(ops, "ping")
				if err != nil || !bytes.Equal(conn.buf.Bytes(), refFrame(magic, "ping", pl[:])) {
					dead = true
					vk.Report(t, "C15:sendcache:transparency:ping", fmt.Sprintf("ping: err=%v", err), render())
				}
			},
		})
		evicted := len(sent) > p2p.BlocksCacheSize
		nt := evicted && resent > 0 && bothVariants
		cl := "send/plain"
		switch {
		case nt:
			cl = "send/evict+hit+both-variants"
		case evicted:
			cl = "send/evict"
		case resent > 0:
			cl = "send/hit"
		}
		key, _ := json.Marshal(ops)
		vk.Case(cl, nt, key, render)
	})
}

func checkSendBounds(t *rapid.T, outer, entries, fifo int, render func() any) bool {
	ok := true
	defer func() { _ = ok }()
	switch {
	case fifo < 0:
		vk.Report(t, "C15:sendcache:bound:fifo-lists-diverge", "hash FIFO and confirm FIFO have different lengths", render())
	case fifo > p2p.BlocksCacheSize:
		vk.Report(t, "C15:sendcache:bound:fifo", fmt.Sprintf("eviction FIFO holds %d > BlocksCacheSize %d", fifo, p2p.BlocksCacheSize), render())
	case entries > p2p.BlocksCacheSize:
		vk.Report(t, "C15:sendcache:bound:entries", fmt.Sprintf("%d cached serializations > BlocksCacheSize %d", entries, p2p.BlocksCacheSize), render())
	case outer > p2p.BlocksCacheSize:
		vk.Report(t, "C15:sendcache:bound:outer-map", fmt.Sprintf("the cache map holds %d block hashes (%d serializations) > BlocksCacheSize %d", outer, entries, p2p.BlocksCacheSize), render())
	default:
		return true
	}
	return false
}
