package c15

// Unit "chain": the transaction reference cache and transaction cache of
// blockchain.UTXOCache, the indexed transaction cache in front of the tx index
// (indexers.TxCache behind UnspentIndex.FetchTx) and the decoded block cache of
// the ffldb chain store, on the in-process node, under mined blocks,
// reorganizations, mempool traffic (the pool resolves references through the
// same caches, also while blocks are being detached), explicit cleans and tiny
// cache sizes.  Oracle: a model of the node's active chain (txid -> tx bytes,
// height) built from the blocks the harness made.

import (
	"bytes"
	"encoding/json"
	"fmt"
	"sort"
	"sync"
	"testing"

	"github.com/elastos/Elastos.ELA/blockchain"
	"github.com/elastos/Elastos.ELA/common"
	"github.com/elastos/Elastos.ELA/common/config"
	"github.com/elastos/Elastos.ELA/core/contract/program"
	"github.com/elastos/Elastos.ELA/core/types"
	ctypes "github.com/elastos/Elastos.ELA/core/types/common"
	"github.com/elastos/Elastos.ELA/core/types/functions"
	"github.com/elastos/Elastos.ELA/core/types/interfaces"
	"github.com/elastos/Elastos.ELA/core/types/outputpayload"
	"github.com/elastos/Elastos.ELA/core/types/payload"
	"github.com/elastos/Elastos.ELA/events"
	"pgregory.net/rapid"
	"verifharness/lib/vk"
	"verifharness/node"
)

const ela = common.Fixed64(100000000)

var (
	discOnce sync.Once
	discMu   sync.Mutex
	discCur  *machC
)

// netsync's ETBlockDisconnected handler: reinsert the detached transactions.
func subscribeDisconnect() {
	discOnce.Do(func() {
		events.Subscribe(func(e *events.Event) {
			if e.Type != events.ETBlockDisconnected {
				return
			}
			discMu.Lock()
			m := discCur
			discMu.Unlock()
			if m == nil || !m.poolReinsert {
				return
			}
			b, ok := e.Data.(*types.Block)
			if !ok {
				return
			}
			for _, tx := range b.Transactions[1:] {
				if err := m.n.Pool.MaybeAcceptTransaction(tx); err != nil {
					m.n.Pool.RemoveTransaction(tx)
				} else {
					m.reinserted++
				}
			}
		})
	})
}

type txRec struct {
	tx    interfaces.Transaction
	bytes []byte
}

type machC struct {
	t            *rapid.T
	n            *node.Node
	ops          []string
	op           string
	maxRef       int
	volume       uint32
	poolReinsert bool
	dead         bool

	txs     map[common.Uint256]*txRec // every transaction the harness knows
	txOrder []common.Uint256
	blocks  map[common.Uint256]*types.Block
	blkOrd  []common.Uint256
	active  map[common.Uint256]uint32 // txid -> height, for the node's active chain
	activeB map[common.Uint256]bool
	utxo    node.UTXOSet
	known   map[ctypes.OutPoint]common.Fixed64

	// classification
	reorgs, reinserted, evictions, probes, staleProbes, hitsBeforeReorg, cleans int
	refProbedBeforeReorg                                                        map[common.Uint256]bool
}

func (m *machC) log(f string, a ...any) { m.ops = append(m.ops, fmt.Sprintf(f, a...)) }
func (m *machC) render() any {
	return map[string]any{"unit": "chain", "MaxReferenceSize": m.maxRef, "TxCacheVolume": m.volume, "poolReinsert": m.poolReinsert, "ops": m.ops}
}

// txBytes is the serialization of tx with the programs in canonical order: the
// node's signature check sorts the programs of the object it validates in place,
// so the order (not the content) of a multi-owner transaction's programs may
// differ between the object the harness built and the copy read back.
func txBytes(tx interfaces.Transaction) []byte {
	buf := new(bytes.Buffer)
	if err := tx.SerializeUnsigned(buf); err != nil {
		panic("harness: " + err.Error())
	}
	var ps [][]byte
	for _, p := range tx.Programs() {
		pb := new(bytes.Buffer)
		_ = p.Serialize(pb)
		ps = append(ps, pb.Bytes())
	}
	sort.Slice(ps, func(i, j int) bool { return bytes.Compare(ps[i], ps[j]) < 0 })
	buf.WriteByte(byte(len(ps)))
	for _, p := range ps {
		buf.Write(p)
	}
	return buf.Bytes()
}

func (m *machC) register(tx interfaces.Transaction) {
	h := tx.Hash()
	if _, ok := m.txs[h]; ok {
		return
	}
	m.txs[h] = &txRec{tx: tx, bytes: txBytes(tx)}
	m.txOrder = append(m.txOrder, h)
	for i, o := range tx.Outputs() {
		m.known[ctypes.OutPoint{TxID: h, Index: uint16(i)}] = o.Value
	}
}

func (m *machC) resync() {
	blocks, err := m.n.ActiveChain()
	if err != nil {
		m.t.Fatalf("harness: ActiveChain: %v", err)
	}
	u, err := node.Replay(blocks, m.n.KeyIndexOf)
	if err != nil {
		m.t.Fatalf("harness: replay: %v", err)
	}
	m.utxo = u
	m.active = map[common.Uint256]uint32{}
	m.activeB = map[common.Uint256]bool{}
	for _, b := range blocks {
		m.activeB[b.Hash()] = true
		for _, tx := range b.Transactions {
			m.register(tx)
			m.active[tx.Hash()] = b.Height
		}
	}
}

func (m *machC) report(sig, detail string) {
	m.dead = true
	vk.Report(m.t, "C15:"+sig+":"+m.op, detail, m.render())
}

func (m *machC) feeOf(tx interfaces.Transaction) common.Fixed64 {
	var in, out common.Fixed64
	for _, i := range tx.Inputs() {
		in += m.known[i.Previous]
	}
	for _, o := range tx.Outputs() {
		out += o.Value
	}
	return in - out
}

// sizes: every cache within its configured bound.
func (m *machC) checkSizes() {
	if m.dead {
		return
	}
	refs, list, txs := m.n.Chain.UTXOCache.VerifReferenceCacheSizes()
	switch {
	case refs > m.maxRef || list > m.maxRef:
		m.report("refcache:bound", fmt.Sprintf("reference cache holds %d entries (eviction list %d) > MaxReferenceSize %d", refs, list, m.maxRef))
		return
	case refs != list:
		m.report("refcache:list-map-diverge", fmt.Sprintf("reference map %d entries, eviction list %d", refs, list))
		return
	case txs > m.maxRef+1:
		// insertTransaction trims to MaxReferenceSize and then adds one
		m.report("utxo-txcache:bound", fmt.Sprintf("UTXOCache.TxCache holds %d > MaxReferenceSize+1 = %d", txs, m.maxRef+1))
		return
	}
	if refs == m.maxRef {
		m.evictions++
	}
	ent, fifo := blockchain.VerifDecodedBlockCacheSizes(m.n.Store.GetFFLDB())
	if ent > blockchain.BlocksCacheSize || fifo > blockchain.BlocksCacheSize {
		m.report("blockcache:bound", fmt.Sprintf("decoded block cache holds %d blocks (fifo %d) > BlocksCacheSize %d", ent, fifo, blockchain.BlocksCacheSize))
		return
	}
	if tc := blockchain.VerifIndexedTxCache(m.n.Store.GetFFLDB()); tc != nil {
		if tc.VerifLen() > tc.VerifTrimTrigger()+8 {
			m.report("indexed-txcache:bound", fmt.Sprintf("indexed tx cache holds %d > trim trigger %d (+ one block)", tc.VerifLen(), tc.VerifTrimTrigger()))
		}
	}
}

func outBytes(o *ctypes.Output, ver ctypes.TransactionVersion) []byte {
	buf := new(bytes.Buffer)
	_ = o.Serialize(buf, ver)
	return buf.Bytes()
}

// probeRef: UTXOCache.GetTxReference(tx) against the model.
func (m *machC) probeRef(tx interfaces.Transaction, what string) {
	wantErr := false
	for _, in := range tx.Inputs() {
		p, ok := m.txs[in.Previous.TxID]
		if _, act := m.active[in.Previous.TxID]; !ok || !act || int(in.Previous.Index) >= len(p.tx.Outputs()) {
			wantErr = true
		}
	}
	got, err := m.n.Chain.UTXOCache.GetTxReference(tx)
	m.probes++
	if wantErr {
		m.staleProbes++
	}
	m.log("probe reference of %s (%s) -> err=%v", tx.Hash().String()[:10], what, err)
	switch {
	case wantErr && err == nil:
		var miss string
		for _, in := range tx.Inputs() {
			if _, act := m.active[in.Previous.TxID]; !act {
				miss = in.Previous.TxID.String()[:10]
			}
		}
		m.report("refcache:answers-for-tx-not-on-chain",
			fmt.Sprintf("GetTxReference resolved an input whose funding transaction %s is not on the active chain (an uncached lookup fails)", miss))
		return
	case !wantErr && err != nil:
		m.report("refcache:fails-for-tx-on-chain", fmt.Sprintf("GetTxReference failed (%v) although every funding transaction is on the active chain", err))
		return
	case err != nil:
		return
	}
	if len(got) != len(tx.Inputs()) {
		m.report("refcache:wrong-count", fmt.Sprintf("%d references for %d inputs", len(got), len(tx.Inputs())))
		return
	}
	for _, in := range tx.Inputs() {
		o, ok := got[in]
		if !ok {
			m.report("refcache:missing-input", "an input has no reference in the result")
			return
		}
		p := m.txs[in.Previous.TxID].tx
		want := p.Outputs()[in.Previous.Index]
		if !bytes.Equal(outBytes(&o, p.Version()), outBytes(want, p.Version())) {
			m.report("refcache:wrong-output", fmt.Sprintf("input %s:%d resolved to a different output than the chain holds", in.Previous.TxID.String()[:10], in.Previous.Index))
			return
		}
	}
	// the literal uncached lookup: a fresh cache over the same store
	fresh := blockchain.NewUTXOCache(m.n.Store, m.n.Params)
	if _, ferr := fresh.GetTxReference(tx); (ferr != nil) != (err != nil) {
		m.report("refcache:differs-from-fresh-cache", fmt.Sprintf("cached err=%v, uncached err=%v", err, ferr))
	}
}

func (m *machC) probeTx(h common.Uint256) {
	rec := m.txs[h]
	_, act := m.active[h]
	got, err := m.n.Chain.UTXOCache.GetTransaction(h)
	m.probes++
	if !act {
		m.staleProbes++
	}
	m.log("probe UTXOCache.GetTransaction(%s) active=%v -> err=%v", h.String()[:10], act, err)
	switch {
	case !act && err == nil:
		m.report("utxo-txcache:answers-for-tx-not-on-chain", fmt.Sprintf("GetTransaction returned %s which is not on the active chain", h.String()[:10]))
	case act && err != nil:
		m.report("utxo-txcache:fails-for-tx-on-chain", err.Error())
	case act && !bytes.Equal(txBytes(got), rec.bytes):
		m.report("utxo-txcache:wrong-bytes", fmt.Sprintf("cached transaction %s (%s) differs from the chain's: %x vs %x", h.String()[:10], got.TxType().Name(), txBytes(got), rec.bytes))
	}
}

func (m *machC) probeFetch(h common.Uint256) {
	rec := m.txs[h]
	height, act := m.active[h]
	got, gh, err := m.n.Store.GetFFLDB().GetTransaction(h)
	m.probes++
	if !act {
		m.staleProbes++
	}
	m.log("probe FetchTx(%s) active=%v -> height=%d err=%v", h.String()[:10], act, gh, err)
	switch {
	case !act && err == nil:
		m.report("indexed-txcache:answers-for-tx-not-on-chain", fmt.Sprintf("FetchTx returned %s (height %d) which is not on the active chain", h.String()[:10], gh))
	case act && err != nil:
		m.report("indexed-txcache:fails-for-tx-on-chain", err.Error())
	case act && !bytes.Equal(txBytes(got), rec.bytes):
		m.report("indexed-txcache:wrong-bytes", "FetchTx returned different bytes than the block holds")
	case act && gh != height:
		m.report("indexed-txcache:wrong-height", fmt.Sprintf("FetchTx height %d, the transaction is at height %d", gh, height))
	}
}

func (m *machC) probeBlock(h common.Uint256) {
	b := m.blocks[h]
	got, err := m.n.Store.GetFFLDB().GetBlock(h)
	m.probes++
	m.log("probe GetBlock(%s h=%d) active=%v -> err=%v", h.String()[:10], b.Height, m.activeB[h], err)
	if err != nil {
		if m.activeB[h] {
			m.report("blockcache:fails-for-active-block", err.Error())
		}
		return
	}
	want := new(bytes.Buffer)
	_ = (&types.DposBlock{Block: b}).Serialize(want)
	gb := new(bytes.Buffer)
	if err := got.Serialize(gb); err != nil {
		m.report("blockcache:unserializable", err.Error())
		return
	}
	if !bytes.Equal(gb.Bytes(), want.Bytes()) {
		m.report("blockcache:wrong-bytes", fmt.Sprintf("GetBlock(%s) re-serializes to %d bytes, stored %d", h.String()[:10], gb.Len(), want.Len()))
	}
}

func (m *machC) spendable() []node.Coin {
	return m.utxo.Spendable(m.n.Chain.GetHeight()+1, m.n.Params.PowConfiguration.CoinbaseMaturity)
}

// genTransfer spends 1-2 coins, preferring recently created ones (their funding
// transaction sits in a block a shallow reorganization detaches).
func (m *machC) genTransfer(exclude map[ctypes.OutPoint]bool) interfaces.Transaction {
	t := m.t
	var cands []node.Coin
	for _, c := range m.spendable() {
		if c.Value >= ela && !exclude[c.Op] && !c.IsCoinbase {
			cands = append(cands, c)
		}
	}
	if len(cands) == 0 {
		return nil
	}
	sort.SliceStable(cands, func(i, j int) bool { return cands[i].Height > cands[j].Height })
	k := rapid.IntRange(1, 2).Draw(t, "nin")
	var coins []node.Coin
	taken := map[ctypes.OutPoint]bool{}
	for i := 0; i < k; i++ {
		hi := len(cands) - 1
		if rapid.Bool().Draw(t, "recent") && hi > 3 {
			hi = 3
		}
		c := cands[rapid.IntRange(0, hi).Draw(t, "coin")]
		if !taken[c.Op] {
			taken[c.Op] = true
			coins = append(coins, c)
		}
	}
	fee := common.Fixed64(rapid.SampledFrom([]int64{100, 1000, 10000}).Draw(t, "fee"))
	var total common.Fixed64
	for _, c := range coins {
		total += c.Value
	}
	total -= fee
	nout := rapid.IntRange(1, 3).Draw(t, "nout")
	var outs []node.Out
	for i := 0; i < nout; i++ {
		v := total / common.Fixed64(nout)
		if i == nout-1 {
			v = total - v*common.Fixed64(nout-1)
		}
		outs = append(outs, node.Out{To: m.n.Keys[rapid.IntRange(0, 3).Draw(t, "to")].ProgramHash, Value: v})
	}
	tx, err := m.n.Transfer(coins, outs, m.n.Chain.GetHeight()+1)
	if err != nil {
		t.Fatalf("harness: Transfer: %v", err)
	}
	// signatures are randomised: an identical unsigned transaction drawn twice has
	// the same id but other program bytes - keep one object per id
	if rec, ok := m.txs[tx.Hash()]; ok {
		return rec.tx
	}
	m.register(tx)
	return tx
}

func (m *machC) process(b *types.Block, what string) bool {
	h := b.Hash()
	if _, ok := m.blocks[h]; !ok {
		m.blocks[h] = b
		m.blkOrd = append(m.blkOrd, h)
	}
	tipBefore := *m.n.Chain.BestChain.Hash
	in, orphan, err := m.n.Process(b)
	m.log("%s h=%d txs=%d -> inMain=%v orphan=%v err=%v", what, b.Height, len(b.Transactions)-1, in, orphan, err)
	if err != nil {
		return false
	}
	if in && b.Previous != tipBefore {
		m.reorgs++
	}
	m.resync()
	return true
}

func runC(t *rapid.T) *machC {
	m := &machC{t: t, txs: map[common.Uint256]*txRec{}, blocks: map[common.Uint256]*types.Block{},
		known: map[ctypes.OutPoint]common.Fixed64{}, refProbedBeforeReorg: map[common.Uint256]bool{}}
	m.maxRef = rapid.SampledFrom([]int{1, 2, 5, 100000}).Draw(t, "MaxReferenceSize")
	m.volume = uint32(rapid.SampledFrom([]int{0, 1, 3, 100000}).Draw(t, "TxCacheVolume"))
	m.poolReinsert = rapid.IntRange(0, 3).Draw(t, "poolReinsert") != 0
	saved := blockchain.MaxReferenceSize
	blockchain.MaxReferenceSize = m.maxRef
	defer func() { blockchain.MaxReferenceSize = saved }()
	n, err := node.New(node.Opts{NKeys: 6, Tweak: func(p *config.Configuration) { p.TxCacheVolume = m.volume }})
	if err != nil {
		t.Fatalf("harness: node.New: %v", err)
	}
	m.n = n
	subscribeDisconnect()
	discMu.Lock()
	discCur = m
	discMu.Unlock()
	defer func() {
		discMu.Lock()
		discCur = nil
		discMu.Unlock()
		n.Close()
	}()
	m.op = "setup"
	m.blocks[n.Genesis.Hash()] = n.Genesis
	b1, err := n.BuildBlock(node.BlockSpec{Parent: n.Genesis})
	if err != nil || !m.process(b1, "setup") {
		t.Fatalf("harness: setup block 1: %v", err)
	}
	var big node.Coin
	for _, c := range m.spendable() {
		if c.Value > big.Value {
			big = c
		}
	}
	var outs []node.Out
	var sum common.Fixed64
	for i := 0; i < 10; i++ {
		v := common.Fixed64(50+i) * ela
		outs = append(outs, node.Out{To: n.Keys[i%4].ProgramHash, Value: v})
		sum += v
	}
	outs = append(outs, node.Out{To: n.Keys[0].ProgramHash, Value: big.Value - sum - 10000})
	fan, err := n.Transfer([]node.Coin{big}, outs, 2)
	if err != nil {
		t.Fatalf("harness: %v", err)
	}
	m.register(fan)
	b2, err := n.BuildBlock(node.BlockSpec{Parent: b1, Txs: []interfaces.Transaction{fan}, Fees: 10000})
	if err != nil || !m.process(b2, "setup") {
		t.Fatalf("harness: setup block 2: %v", err)
	}
	m.ops = nil

	pickTx := func(label string) (common.Uint256, bool) {
		if len(m.txOrder) == 0 {
			return common.Uint256{}, false
		}
		// half of the draws go to transactions that are off the active chain or
		// spend from one that is (the answers a stale cache entry would get wrong)
		var off []common.Uint256
		for _, h := range m.txOrder {
			_, act := m.active[h]
			stale := !act
			for _, in := range m.txs[h].tx.Inputs() {
				if _, pa := m.active[in.Previous.TxID]; !pa && !m.txs[h].tx.IsCoinBaseTx() {
					stale = true
				}
			}
			if stale {
				off = append(off, h)
			}
		}
		if len(off) > 0 && rapid.Bool().Draw(m.t, label+"Detached") {
			return off[rapid.IntRange(0, len(off)-1).Draw(m.t, label+"Off")], true
		}
		// bias to the newest transactions
		i := len(m.txOrder) - 1 - rapid.IntRange(0, min(len(m.txOrder)-1, 7)).Draw(m.t, label)
		if rapid.IntRange(0, 3).Draw(m.t, label+"Any") == 0 {
			i = rapid.IntRange(0, len(m.txOrder)-1).Draw(m.t, label+"Idx")
		}
		return m.txOrder[i], true
	}

	actions := map[string]func(*rapid.T){
		"": func(t *rapid.T) { m.t = t; m.checkSizes() },
		"submit": func(t *rapid.T) {
			m.op = "submit"
			tx := m.genTransfer(nil)
			if tx == nil {
				return
			}
			err := m.n.Pool.AppendToTxPoolWithoutEvent(tx)
			m.log("submit %s -> %v", tx.Hash().String()[:10], err)
		},
		"mine": func(t *rapid.T) {
			m.op = "mine"
			var txs []interfaces.Transaction
			spent := map[ctypes.OutPoint]bool{}
			for _, tx := range m.n.Pool.GetTxsInPool() {
				_ = tx
			}
			pool := m.n.Pool.GetTxsInPool()
			sort.Slice(pool, func(i, j int) bool { a, b := pool[i].Hash(), pool[j].Hash(); return a.Compare(b) < 0 })
			for _, tx := range pool {
				ok := rapid.IntRange(0, 9).Draw(t, "include") < 7
				for _, in := range tx.Inputs() {
					if _, have := m.utxo[in.Previous]; !have || spent[in.Previous] {
						ok = false
					}
				}
				if ok {
					for _, in := range tx.Inputs() {
						spent[in.Previous] = true
					}
					txs = append(txs, tx)
				}
			}
			extra := rapid.IntRange(0, 2).Draw(t, "direct")
			for i := 0; i < extra; i++ {
				if tx := m.genTransfer(spent); tx != nil {
					for _, in := range tx.Inputs() {
						spent[in.Previous] = true
					}
					txs = append(txs, tx)
				}
			}
			var fees common.Fixed64
			for _, tx := range txs {
				fees += m.feeOf(tx)
			}
			tip, _ := m.n.Tip()
			b, err := m.n.BuildBlock(node.BlockSpec{Parent: tip, Txs: txs, Fees: fees, Salt: uint64(len(m.blkOrd))})
			if err != nil {
				t.Fatalf("harness: %v", err)
			}
			m.process(b, "mine")
		},
		"fork": func(t *rapid.T) {
			m.op = "reorg"
			height := m.n.Chain.GetHeight()
			if height < 3 {
				return
			}
			depth := uint32(rapid.IntRange(1, 3).Draw(t, "depth"))
			if height-depth < 2 {
				depth = height - 2
			}
			if depth == 0 {
				return
			}
			active, _ := m.n.ActiveChain()
			u, err := node.Replay(active[:height-depth+1], m.n.KeyIndexOf)
			if err != nil {
				t.Fatalf("harness: %v", err)
			}
			var carry []interfaces.Transaction
			for _, b := range active[height-depth+1:] {
				for _, tx := range b.Transactions[1:] {
					if rapid.IntRange(0, 2).Draw(t, "carry") == 0 {
						carry = append(carry, tx)
					}
				}
			}
			parent := active[height-depth]
			spent := map[ctypes.OutPoint]bool{}
			for i := 0; i < int(depth)+1; i++ {
				var txs []interfaces.Transaction
				if i == 0 {
					for _, tx := range carry {
						ok := true
						for _, in := range tx.Inputs() {
							if _, have := u[in.Previous]; !have || spent[in.Previous] {
								ok = false
							}
						}
						if ok {
							for _, in := range tx.Inputs() {
								spent[in.Previous] = true
							}
							txs = append(txs, tx)
						}
					}
				}
				var fees common.Fixed64
				for _, tx := range txs {
					fees += m.feeOf(tx)
				}
				b, err := m.n.BuildBlock(node.BlockSpec{Parent: parent, Txs: txs, Fees: fees, Salt: 0xF000 + uint64(len(m.blkOrd)), MinerKey: 1})
				if err != nil {
					t.Fatalf("harness: %v", err)
				}
				if !m.process(b, fmt.Sprintf("fork(depth %d, %d/%d)", depth, i+1, depth+1)) {
					break
				}
				parent = b
			}
			// right after the reorganization: look up everything that left the chain
			// or spends from something that left it
			m.op = "lookup-after-reorg"
			for _, h := range append([]common.Uint256{}, m.txOrder...) {
				if m.dead {
					return
				}
				tx := m.txs[h].tx
				if tx.IsCoinBaseTx() {
					continue
				}
				_, act := m.active[h]
				orphaned := false
				for _, in := range tx.Inputs() {
					if _, pa := m.active[in.Previous.TxID]; !pa {
						orphaned = true
					}
				}
				if orphaned {
					m.probeRef(tx, "spends from a detached transaction")
				}
				if !act && !m.dead {
					m.probeTx(h)
					if !m.dead {
						m.probeFetch(h)
					}
				}
			}
		},
		"probeRef": func(t *rapid.T) {
			m.op = "lookup"
			h, ok := pickTx("ref")
			if !ok {
				return
			}
			tx := m.txs[h].tx
			if tx.IsCoinBaseTx() {
				return
			}
			if rapid.Bool().Draw(t, "altSequence") {
				// same outpoints under a different cache key (the key is the whole input)
				var ins []*ctypes.Input
				for _, in := range tx.Inputs() {
					ins = append(ins, &ctypes.Input{Previous: in.Previous, Sequence: in.Sequence + 1})
				}
				tx = functions.CreateTransaction(0, ctypes.TransferAsset, 0, &payload.TransferAsset{}, []*ctypes.Attribute{}, ins,
					[]*ctypes.Output{{Value: 1, Type: ctypes.OTNone, Payload: &outputpayload.DefaultOutput{}}}, 0, []*program.Program{})
			}
			m.probeRef(tx, "known tx")
		},
		"probeTx": func(t *rapid.T) {
			m.op = "lookup"
			if h, ok := pickTx("tx"); ok {
				m.probeTx(h)
			}
		},
		"probeFetch": func(t *rapid.T) {
			m.op = "lookup"
			if h, ok := pickTx("fetch"); ok {
				m.probeFetch(h)
			}
		},
		"probeBlock": func(t *rapid.T) {
			m.op = "lookup"
			i := len(m.blkOrd) - 1 - rapid.IntRange(0, min(len(m.blkOrd)-1, 5)).Draw(t, "blk")
			m.probeBlock(m.blkOrd[i])
		},
		"clean": func(t *rapid.T) {
			m.op = "clean"
			if rapid.Bool().Draw(t, "all") {
				m.n.Chain.UTXOCache.CleanCache()
				m.log("CleanCache")
			} else {
				m.n.Chain.UTXOCache.CleanTxCache()
				m.log("CleanTxCache")
			}
			m.cleans++
		},
	}
	for _, a := range []string{"submit2", "submit3"} {
		actions[a] = actions["submit"]
	}
	actions["mine2"] = actions["mine"]
	actions["probeRef2"] = actions["probeRef"]
	actions["probeRef3"] = actions["probeRef"]
	for name, f := range actions {
		if name == "" {
			continue
		}
		f := f
		actions[name] = func(t *rapid.T) {
			if m.dead {
				return
			}
			m.t = t
			f(t)
		}
	}
	t.Repeat(actions)
	return m
}

func TestChainCaches(t *testing.T) {
	rapid.Check(t, func(t *rapid.T) {
		m := runC(t)
		nt := m.evictions > 0 && m.reorgs > 0 && m.probes > 0
		cl := "chain/plain"
		switch {
		case m.reorgs > 0 && m.staleProbes > 0 && m.reinserted > 0:
			cl = "chain/reorg+reinsert+probe-of-detached"
		case m.reorgs > 0 && m.staleProbes > 0:
			cl = "chain/reorg+probe-of-detached"
		case m.reorgs > 0:
			cl = "chain/reorg"
		case m.evictions > 0:
			cl = "chain/evictions"
		}
		if m.maxRef <= 5 {
			vk.Class("chain/tiny-reference-cache")
		}
		vk.Count("chain/probes", int64(m.probes))
		vk.Count("chain/probes-of-detached", int64(m.staleProbes))
		vk.Count("chain/reorgs", int64(m.reorgs))
		vk.Count("chain/reinserted", int64(m.reinserted))
		vk.Count("chain/steps-at-full-reference-cache", int64(m.evictions))
		key, _ := json.Marshal(m.ops)
		vk.Case(cl, nt, key, m.render)
	})
}

// Unit "trim": the indexed transaction cache is shrunk by trim() once it
// exceeds TxCacheVolume+TrimmingInterval; which entries go is arbitrary, so
// every lookup must fall through to the index.  The cache is pre-filled with
// synthetic entries (through the real setTxn) to reach the trigger.
func TestIndexedTxCacheTrim(t *testing.T) {
	rapid.Check(t, func(t *rapid.T) {
		m := &machC{t: t, txs: map[common.Uint256]*txRec{}, blocks: map[common.Uint256]*types.Block{},
			known: map[ctypes.OutPoint]common.Fixed64{}, maxRef: blockchain.MaxReferenceSize, op: "trim"}
		m.volume = uint32(rapid.SampledFrom([]int{0, 1, 3, 50}).Draw(t, "TxCacheVolume"))
		n, err := node.New(node.Opts{NKeys: 6, Tweak: func(p *config.Configuration) { p.TxCacheVolume = m.volume }})
		if err != nil {
			t.Fatalf("harness: node.New: %v", err)
		}
		m.n = n
		defer n.Close()
		m.blocks[n.Genesis.Hash()] = n.Genesis
		b1, err := n.BuildBlock(node.BlockSpec{Parent: n.Genesis})
		if err != nil || !m.process(b1, "setup") {
			t.Fatalf("harness: setup: %v", err)
		}
		tc := blockchain.VerifIndexedTxCache(n.Store.GetFFLDB())
		if tc == nil {
			t.Fatalf("harness: no indexed tx cache")
		}
		trigger := tc.VerifTrimTrigger()
		mineSome := func(k int) {
			for i := 0; i < k; i++ {
				var txs []interfaces.Transaction
				spent := map[ctypes.OutPoint]bool{}
				for j := rapid.IntRange(0, 2).Draw(t, "ntx"); j > 0; j-- {
					if tx := m.genTransferAny(spent); tx != nil {
						for _, in := range tx.Inputs() {
							spent[in.Previous] = true
						}
						txs = append(txs, tx)
					}
				}
				var fees common.Fixed64
				for _, tx := range txs {
					fees += m.feeOf(tx)
				}
				tip, _ := n.Tip()
				b, err := n.BuildBlock(node.BlockSpec{Parent: tip, Txs: txs, Fees: fees, Salt: uint64(len(m.blkOrd))})
				if err != nil || !m.process(b, "mine") {
					t.Fatalf("harness: mine: %v", err)
				}
			}
		}
		mineSome(rapid.IntRange(2, 5).Draw(t, "before"))
		// fill up to just below / above the trigger
		over := rapid.SampledFrom([]int{-2, 0, 1, 2, 40}).Draw(t, "over")
		target := trigger + over
		for i := 0; tc.VerifLen() < target; i++ {
			var prev common.Uint256
			prev[0], prev[1], prev[2], prev[3] = 0xEE, byte(i), byte(i>>8), byte(i>>16)
			tx := functions.CreateTransaction(0, ctypes.TransferAsset, 0, &payload.TransferAsset{}, []*ctypes.Attribute{},
				[]*ctypes.Input{{Previous: ctypes.OutPoint{TxID: prev}}},
				[]*ctypes.Output{{Value: 1, Type: ctypes.OTNone, Payload: &outputpayload.DefaultOutput{}}}, 0, []*program.Program{})
			tc.VerifSetTxn(1, tx)
		}
		before := tc.VerifLen()
		m.log("cache filled to %d (trigger %d, volume %d)", before, trigger, m.volume)
		mineSome(rapid.IntRange(1, 3).Draw(t, "after"))
		after := tc.VerifLen()
		m.log("after connecting blocks: %d cached", after)
		trimmed := after < before
		if after > trigger+8 {
			m.report("indexed-txcache:bound", fmt.Sprintf("indexed tx cache holds %d after connecting blocks, trim trigger %d (TxCacheVolume %d)", after, trigger, m.volume))
		}
		// every real transaction (cached or trimmed away) is still served exactly
		hs := append([]common.Uint256{}, m.txOrder...)
		for _, h := range hs {
			if m.dead {
				break
			}
			m.probeFetch(h)
		}
		cl := "trim/below-trigger"
		if trimmed {
			cl = "trim/trimmed"
		}
		key, _ := json.Marshal(m.ops)
		vk.Case(cl, trimmed, key, m.render)
	})
}

// genTransferAny is genTransfer without the non-coinbase restriction.
func (m *machC) genTransferAny(exclude map[ctypes.OutPoint]bool) interfaces.Transaction {
	var cands []node.Coin
	for _, c := range m.spendable() {
		if c.Value >= ela && !exclude[c.Op] {
			cands = append(cands, c)
		}
	}
	if len(cands) == 0 {
		return nil
	}
	c := cands[rapid.IntRange(0, len(cands)-1).Draw(m.t, "coin")]
	fee := common.Fixed64(1000)
	half := (c.Value - fee) / 2
	tx, err := m.n.Transfer([]node.Coin{c}, []node.Out{{To: m.n.Keys[1].ProgramHash, Value: half}, {To: m.n.Keys[2].ProgramHash, Value: c.Value - fee - half}}, m.n.Chain.GetHeight()+1)
	if err != nil {
		m.t.Fatalf("harness: %v", err)
	}
	if rec, ok := m.txs[tx.Hash()]; ok {
		return rec.tx
	}
	m.register(tx)
	return tx
}
