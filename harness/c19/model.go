// Reference model for C19: a sorted map written for the harness (sorted slice
// of string keys + Go map), and the iterator semantics documented by the treap
// package (start inclusive, limit exclusive, Seek = first key >= seek key).
package c19

import (
	"sort"
)

// nodeFields is the per-node overhead documented in treap/common.go
// ("24-bytes for each key and value + 8 bytes for each of the priority, left,
// and right fields").
const nodeFields = 72

type omap struct {
	keys []string // sorted, distinct
	vals map[string]string
	size uint64
}

func newOmap() *omap { return &omap{vals: map[string]string{}} }

func (o *omap) clone() *omap {
	c := &omap{keys: append([]string(nil), o.keys...), vals: make(map[string]string, len(o.vals)), size: o.size}
	for k, v := range o.vals {
		c.vals[k] = v
	}
	return c
}

func (o *omap) idx(k string) (int, bool) {
	i := sort.SearchStrings(o.keys, k)
	return i, i < len(o.keys) && o.keys[i] == k
}

func (o *omap) put(k, v string) {
	i, ok := o.idx(k)
	if ok {
		o.size -= uint64(len(o.vals[k]))
		o.size += uint64(len(v))
		o.vals[k] = v
		return
	}
	o.keys = append(o.keys, "")
	copy(o.keys[i+1:], o.keys[i:])
	o.keys[i] = k
	o.vals[k] = v
	o.size += nodeFields + uint64(len(k)) + uint64(len(v))
}

func (o *omap) del(k string) bool {
	i, ok := o.idx(k)
	if !ok {
		return false
	}
	o.size -= nodeFields + uint64(len(k)) + uint64(len(o.vals[k]))
	o.keys = append(o.keys[:i], o.keys[i+1:]...)
	delete(o.vals, k)
	return true
}

func (o *omap) has(k string) bool { _, ok := o.vals[k]; return ok }
func (o *omap) len() int          { return len(o.keys) }

// ceil returns the smallest key >= k (strict: > k).
func (o *omap) ceil(k string, strict bool) (string, bool) {
	i := sort.SearchStrings(o.keys, k)
	if strict && i < len(o.keys) && o.keys[i] == k {
		i++
	}
	if i < len(o.keys) {
		return o.keys[i], true
	}
	return "", false
}

// below returns the largest key < k.
func (o *omap) below(k string) (string, bool) {
	i := sort.SearchStrings(o.keys, k)
	if i > 0 {
		return o.keys[i-1], true
	}
	return "", false
}

func (o *omap) min() (string, bool) {
	if len(o.keys) == 0 {
		return "", false
	}
	return o.keys[0], true
}

func (o *omap) max() (string, bool) {
	if len(o.keys) == 0 {
		return "", false
	}
	return o.keys[len(o.keys)-1], true
}

// miter is the model of one treap.Iterator.
type miter struct {
	hasStart, hasLimit bool
	start, limit       string
	isNew              bool
	valid              bool
	key                string
}

func (m *miter) inRange(k string) bool {
	if m.hasStart && k < m.start {
		return false
	}
	if m.hasLimit && k >= m.limit {
		return false
	}
	return true
}

func (m *miter) set(k string, ok bool) bool {
	if ok && m.inRange(k) {
		m.valid, m.key = true, k
		return true
	}
	m.valid, m.key = false, ""
	return false
}

func (m *miter) first(o *omap) bool {
	m.isNew = false
	if m.hasStart {
		k, ok := o.ceil(m.start, false)
		return m.set(k, ok)
	}
	k, ok := o.min()
	return m.set(k, ok)
}

func (m *miter) last(o *omap) bool {
	m.isNew = false
	if m.hasLimit {
		k, ok := o.below(m.limit)
		return m.set(k, ok)
	}
	k, ok := o.max()
	return m.set(k, ok)
}

// seek: the iterator moves to the first key >= s of the whole map and is
// exhausted when that key is outside [start, limit) (this is what the package's
// own test table expects for a seek key below the start key).
func (m *miter) seek(o *omap, s string) bool {
	m.isNew = false
	k, ok := o.ceil(s, false)
	return m.set(k, ok)
}

func (m *miter) next(o *omap) bool {
	if m.isNew {
		return m.first(o)
	}
	if !m.valid {
		return false
	}
	k, ok := o.ceil(m.key, true)
	return m.set(k, ok)
}

func (m *miter) prev(o *omap) bool {
	if m.isNew {
		return m.last(o)
	}
	if !m.valid {
		return false
	}
	k, ok := o.below(m.key)
	return m.set(k, ok)
}
