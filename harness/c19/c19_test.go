// C19 - treaps behave as ordered maps; immutable treaps are persistent.
//
// Generator: rapid state machines over treap.Mutable and treap.Immutable
// (through the verif alias package database/treapverif) with a 12-key and a
// 4000-key universe, optional pre-built initial treaps whose node priorities
// the generator chooses (random, tied, and degenerate chains deeper than the
// iterator's static parent stack), live iterators with start/limit keys, and -
// for Immutable - a tree of retained versions.
// Oracle: the harness's own sorted-map model (model.go), the documented Size
// formula, a structural walker (BST order, node count, byte count, shape
// fingerprint of retained versions).
package c19

import (
	"bytes"
	"encoding/hex"
	"encoding/json"
	"fmt"
	"math/rand"
	"strconv"
	"testing"

	tv "github.com/elastos/Elastos.ELA/database/treapverif"
	"pgregory.net/rapid"
	"verifharness/lib/vk"
)

func TestMain(m *testing.M) { vk.Main(m, "C19") }

// ---------------------------------------------------------------- universes

type universe struct {
	name string
	keys []string // sorted
}

var smallU = universe{"small", []string{"\x00", "a", "aa", "ab", "abc", "b", "ba", "m", "mmmmmm", "z", "\xff", "\xff\xff"}}

var largeU = func() universe {
	u := universe{name: "large"}
	for i := 0; i < 4000; i++ {
		v := i*13 + 7
		k := []byte{byte(v >> 8), byte(v)}
		for j := 0; j < i%4; j++ {
			k = append(k, byte(i%251))
		}
		u.keys = append(u.keys, string(k))
	}
	return u
}()

func (u universe) drawKey(t *rapid.T, label string) string {
	return u.keys[rapid.IntRange(0, len(u.keys)-1).Draw(t, label)]
}

// drawProbe draws a start/limit/seek key: a universe key, or a byte string
// that falls between two universe keys, or one beyond the last key.
func (u universe) drawProbe(t *rapid.T, label string) string {
	k := u.drawKey(t, label)
	switch rapid.IntRange(0, 9).Draw(t, label+"Variant") {
	case 0, 1:
		return k + "\x00" // immediately above k
	case 2:
		if len(k) > 1 {
			return k[:len(k)-1] // a proper prefix sorts below k
		}
	case 3:
		return "\xff\xff\xff" // above every key
	}
	return k
}

func drawValue(t *rapid.T) []byte {
	switch rapid.IntRange(0, 11).Draw(t, "valKind") {
	case 0:
		return nil // stored as an empty, non-nil slice
	case 1:
		return []byte{}
	case 2:
		return rapid.SliceOfN(rapid.Byte(), 100, 300).Draw(t, "bigval")
	}
	return rapid.SliceOfN(rapid.Byte(), 1, 12).Draw(t, "val")
}

func q(s string) string { return strconv.Quote(s) }

// ---------------------------------------------------------------- initial treaps

type initial struct {
	kind   string
	keys   [][]byte
	values [][]byte
	prios  []int
}

// drawInitial: most cases start empty; the others start from a treap built by
// the hook constructor with generator-chosen priorities.
func drawInitial(t *rapid.T, u universe) initial {
	kinds := []string{"empty", "empty", "empty", "random", "random", "tied"}
	if u.name == "large" {
		kinds = append(kinds, "empty", "random", "chain-right", "chain-left", "zigzag")
	}
	in := initial{kind: rapid.SampledFrom(kinds).Draw(t, "init")}
	if in.kind == "empty" {
		return in
	}
	maxN := len(u.keys)
	lo := 1
	if u.name == "large" {
		maxN = 300
		if in.kind != "random" && in.kind != "tied" {
			lo, maxN = 130, 260 // deeper than staticDepth (128)
		}
	}
	n := rapid.IntRange(lo, maxN).Draw(t, "initN")
	// a sorted random subset of the universe: pick a stride walk
	pos := rapid.IntRange(0, len(u.keys)-n).Draw(t, "initOff")
	stride := 1
	if room := (len(u.keys) - pos) / n; room > 1 {
		stride = rapid.IntRange(1, room).Draw(t, "initStride")
	}
	sorted := make([]string, n)
	for i := range sorted {
		sorted[i] = u.keys[pos+i*stride]
	}
	order := make([]int, n) // insertion order / priority rank
	switch in.kind {
	case "zigzag":
		l, r := 0, n-1
		for i := 0; i < n; i++ {
			if i%2 == 0 {
				order[i] = l
				l++
			} else {
				order[i] = r
				r--
			}
		}
	case "chain-left":
		for i := range order {
			order[i] = n - 1 - i
		}
	default:
		for i := range order {
			order[i] = i
		}
	}
	for rank, idx := range order {
		k := sorted[idx]
		in.keys = append(in.keys, []byte(k))
		in.values = append(in.values, []byte("v"+k[:1]))
		switch in.kind {
		case "random":
			in.prios = append(in.prios, rapid.IntRange(0, 1<<40).Draw(t, "prio"))
		case "tied":
			in.prios = append(in.prios, rapid.IntRange(0, 3).Draw(t, "prio"))
		default:
			in.prios = append(in.prios, 1000+rank) // increasing: each node hangs below the previous one
		}
	}
	return in
}

func (in initial) model() *omap {
	o := newOmap()
	for i, k := range in.keys {
		o.put(string(k), string(in.values[i]))
	}
	return o
}

func cp(b []byte) []byte {
	if b == nil {
		return nil
	}
	return append([]byte{}, b...)
}

func cps(bs [][]byte) [][]byte {
	out := make([][]byte, len(bs))
	for i, b := range bs {
		out[i] = cp(b)
	}
	return out
}

// ---------------------------------------------------------------- iterators

type liveIter struct {
	id   int
	it   *tv.Iterator
	m    miter
	ver  int  // immutable: version index
	dead bool // a listed known finding left it undefined

	pendingReseek bool // ForceReseek was called while positioned, no Next/Prev since
	reposSince    bool // First/Last/Seek since that ForceReseek
}

func (li *liveIter) rangeKind() string {
	switch {
	case li.m.hasStart && li.m.hasLimit:
		return "start+limit"
	case li.m.hasStart:
		return "start-only"
	case li.m.hasLimit:
		return "limit-only"
	}
	return "unbounded"
}

type reporter interface {
	report(t *rapid.T, sig, detail string) bool // true: listed known finding
	log(f string, a ...any)
}

// drawIter creates the iterator arguments.  Real callers (ffldb) always pass
// start < limit; the package documents that either may be nil.
func drawIterArgs(t *rapid.T, u universe) (m miter, start, limit []byte) {
	m.isNew = true
	switch rapid.IntRange(0, 9).Draw(t, "rangeKind") {
	case 0, 1:
	case 2, 3:
		m.hasStart = true
	case 4, 5:
		m.hasLimit = true
	default:
		m.hasStart, m.hasLimit = true, true
	}
	if m.hasStart {
		m.start = u.drawProbe(t, "start")
		start = []byte(m.start)
	}
	if m.hasLimit {
		m.limit = u.drawProbe(t, "limit")
		limit = []byte(m.limit)
	}
	if m.hasStart && m.hasLimit && m.start > m.limit && rapid.IntRange(0, 9).Draw(t, "keepEmptyRange") != 0 {
		m.start, m.limit = m.limit, m.start
		start, limit = limit, start
	}
	return
}

var iterOps = []string{"Next", "Next", "Next", "Prev", "Prev", "First", "Last", "Seek"}

// stepIter performs one positioning call on the real iterator and the model
// and compares result, Valid, Key and Value.
func stepIter(t *rapid.T, r reporter, li *liveIter, o *omap, u universe, kind string) {
	if li.dead {
		return
	}
	op := rapid.SampledFrom(iterOps).Draw(t, "iterOp")
	var got, want bool
	ctx := "plain"
	if li.pendingReseek {
		ctx = "after-reseek"
		if li.reposSince {
			ctx = "after-reseek+reposition"
		}
	}
	site := op
	switch op {
	case "First":
		got, want = li.it.First(), li.m.first(o)
		site += "[" + li.rangeKind() + "]"
	case "Last":
		got, want = li.it.Last(), li.m.last(o)
		site += "[" + li.rangeKind() + "]"
	case "Next":
		got, want = li.it.Next(), li.m.next(o)
	case "Prev":
		got, want = li.it.Prev(), li.m.prev(o)
	case "Seek":
		s := u.drawProbe(t, "seek")
		if o.len() > 0 && rapid.Bool().Draw(t, "seekNearExisting") {
			s = o.keys[rapid.IntRange(0, o.len()-1).Draw(t, "seekIdx")]
			if rapid.IntRange(0, 3).Draw(t, "seekJustAbove") == 0 {
				s += "\x00"
			}
		}
		if li.m.hasStart && s < li.m.start {
			vk.Class("iter/seek-below-start")
		}
		got, want = li.it.Seek([]byte(s)), li.m.seek(o, s)
		op += "(" + q(s) + ")"
	}
	r.log("%s it%d.%s -> %v", kind, li.id, op, got)
	switch op[:4] {
	case "Next", "Prev":
		li.pendingReseek, li.reposSince = false, false
	default:
		if li.pendingReseek {
			li.reposSince = true
		}
	}
	sig := "C19:" + kind + ".Iterator." + site + ":" + ctx
	bad := func(clause, detail string) {
		if r.report(t, sig+":"+clause, detail) {
			li.dead = true
		}
	}
	wantKey, wantVal := []byte(nil), []byte(nil)
	if want {
		wantKey, wantVal = []byte(li.m.key), []byte(o.vals[li.m.key])
	}
	gk, gv := li.it.Key(), li.it.Value()
	switch {
	case got != want:
		bad("result", fmt.Sprintf("returned %v (key %s), model %v (key %s)", got, q(string(gk)), want, q(li.m.key)))
	case li.it.Valid() != want:
		bad("valid", fmt.Sprintf("Valid()=%v after the call returned %v", li.it.Valid(), got))
	case !bytes.Equal(gk, wantKey) || (gk == nil) != !want:
		bad("key", fmt.Sprintf("Key()=%s want %s", q(string(gk)), q(string(wantKey))))
	case !bytes.Equal(gv, wantVal) || (gv == nil) != !want:
		bad("value", fmt.Sprintf("Value()=%x (nil=%v) want %x at key %s", gv, gv == nil, wantVal, q(li.m.key)))
	}
}

// guard runs f; a panic raised inside the treap package is a verdict (an
// ordered map answers, it does not crash).  Panics that do not come from the
// repository (rapid's own control flow: Skip, Fatalf) are passed on untouched.
func guard(t *rapid.T, r reporter, kind string, f func()) (died bool) {
	p, val, frame := vk.Catch(f)
	if !p {
		return false
	}
	if frame == "unknown" {
		panic(val)
	}
	r.log("PANIC in %s: %v", frame, val)
	r.report(t, "C19:"+kind+":panic:"+frame, fmt.Sprint(val))
	return true
}

// ---------------------------------------------------------------- shared scans

type scanner interface {
	ForEach(func(k, v []byte) bool)
}

func scanAll(s scanner) (ks, vs []string, nilVal bool) {
	s.ForEach(func(k, v []byte) bool {
		ks = append(ks, string(k))
		vs = append(vs, string(v))
		if v == nil {
			nilVal = true
		}
		return true
	})
	return
}

func diffScan(o *omap, ks, vs []string) string {
	if len(ks) != len(o.keys) {
		return fmt.Sprintf("scan yields %d pairs, model has %d", len(ks), len(o.keys))
	}
	for i, k := range ks {
		if k != o.keys[i] {
			return fmt.Sprintf("pair %d: key %s, model %s", i, q(k), q(o.keys[i]))
		}
		if vs[i] != o.vals[k] {
			return fmt.Sprintf("pair %d key %s: value %x, model %x", i, q(k), vs[i], o.vals[k])
		}
	}
	return ""
}

// ---------------------------------------------------------------- mutable machine

type mmachine struct {
	u         universe
	initKind  string
	initN     int
	t         *tv.Mutable
	o         *omap
	iters     []*liveIter
	nextIter  int
	ops       []string
	dead      bool
	heapClean bool // no Delete so far: Put alone must keep the min-heap order

	innerDeletes, twoChildDeletes, deletes, puts, updates int
	iterStepsAfterMutation, iterSteps, maxHeight          int
	heapViolationsAfterDelete                             int
}

func (m *mmachine) log(f string, a ...any) { m.ops = append(m.ops, fmt.Sprintf(f, a...)) }

func (m *mmachine) render() any {
	return map[string]any{"machine": "mutable", "universe": m.u.name, "init": m.initKind, "initN": m.initN, "ops": m.ops}
}

func (m *mmachine) report(t *rapid.T, sig, detail string) bool {
	return vk.Report(t, sig, detail, m.render())
}

func (m *mmachine) fail(t *rapid.T, sig, detail string) {
	if m.report(t, sig, detail) {
		m.dead = true
	}
}

func (m *mmachine) afterMutation() {
	// precondition documented on Mutable.Iterator and honoured by ffldb
	// (transaction.notifyActiveIters): every live iterator is told.
	for _, li := range m.iters {
		li.it.ForceReseek()
		if li.m.valid && !li.m.isNew {
			li.pendingReseek, li.reposSince = true, false
		}
	}
}

func (m *mmachine) checkCounters(t *rapid.T, after string) {
	if got := m.t.Len(); got != m.o.len() {
		m.fail(t, "C19:Mutable.Len:after-"+after, fmt.Sprintf("Len()=%d model %d", got, m.o.len()))
	}
	if got := m.t.Size(); got != m.o.size {
		m.fail(t, "C19:Mutable.Size:after-"+after, fmt.Sprintf("Size()=%d model %d", got, m.o.size))
	}
}

func (m *mmachine) fullCheck(t *rapid.T, after string) {
	if m.dead {
		return
	}
	m.checkCounters(t, after)
	ks, vs, nilVal := scanAll(m.t)
	if d := diffScan(m.o, ks, vs); d != "" {
		m.fail(t, "C19:Mutable.ForEach:content-after-"+after, d)
	}
	if nilVal {
		m.fail(t, "C19:Mutable.ForEach:nil-value", "a stored value is nil (Put promises an empty non-nil slice)")
	}
	info := tv.InspectMutable(m.t)
	if info.Height > m.maxHeight {
		m.maxHeight = info.Height
	}
	switch {
	case !info.BSTOK:
		m.fail(t, "C19:Mutable:bst-order-after-"+after, info.Detail)
	case info.Nodes != m.o.len():
		m.fail(t, "C19:Mutable:reachable-nodes-after-"+after, fmt.Sprintf("%d reachable nodes, model %d", info.Nodes, m.o.len()))
	case info.Bytes != m.o.size:
		m.fail(t, "C19:Mutable:reachable-bytes-after-"+after, fmt.Sprintf("%d bytes reachable, model %d", info.Bytes, m.o.size))
	case !info.HeapOK && m.heapClean:
		m.fail(t, "C19:Mutable.Put:heap-order", info.Detail)
	}
	if !info.HeapOK && !m.heapClean {
		m.heapViolationsAfterDelete++
	}
}

func runMutable(t *rapid.T, u universe) *mmachine {
	rand.Seed(rapid.Int64().Draw(t, "prioritySeed")) // the treap draws node priorities from the global PRNG
	in := drawInitial(t, u)
	m := &mmachine{u: u, initKind: in.kind, initN: len(in.keys), heapClean: true}
	if in.kind == "empty" {
		m.t, m.o = tv.NewMutable(), newOmap()
	} else {
		m.t, m.o = tv.NewMutableWithPriorities(cps(in.keys), cps(in.values), in.prios), in.model()
		if guard(t, m, "Mutable", func() { m.fullCheck(t, "build") }) {
			m.dead = true
		}
	}

	existingOrAny := func(t *rapid.T) string {
		if m.o.len() > 0 && rapid.IntRange(0, 9).Draw(t, "existing") < 7 {
			return m.o.keys[rapid.IntRange(0, m.o.len()-1).Draw(t, "existingIdx")]
		}
		return u.drawKey(t, "key")
	}
	put := func(t *rapid.T) {
		k := existingOrAny(t)
		if rapid.Bool().Draw(t, "fresh") {
			k = u.drawKey(t, "key")
		}
		v := drawValue(t)
		if m.o.has(k) {
			m.updates++
		} else {
			m.puts++
		}
		m.t.Put([]byte(k), cp(v))
		m.o.put(k, string(v))
		m.log("Put(%s, %d bytes nil=%v)", q(k), len(v), v == nil)
		m.afterMutation()
		m.checkCounters(t, "Put")
	}
	del := func(t *rapid.T) {
		k := existingOrAny(t)
		ch := m.t.VerifChildren([]byte(k))
		m.t.Delete([]byte(k))
		had := m.o.del(k)
		m.log("Delete(%s) present=%v children=%d", q(k), had, ch)
		if (ch >= 0) != had {
			m.fail(t, "C19:Mutable.Delete:lookup", fmt.Sprintf("key %s: node found=%v, model present=%v", q(k), ch >= 0, had))
		}
		if had {
			m.deletes++
			m.heapClean = false
			if ch >= 1 {
				m.innerDeletes++
			}
			if ch == 2 {
				m.twoChildDeletes++
			}
		}
		m.afterMutation()
		m.checkCounters(t, "Delete")
	}
	iterStep := func(t *rapid.T) {
		if len(m.iters) == 0 {
			t.Skip("no iterator")
		}
		li := m.iters[rapid.IntRange(0, len(m.iters)-1).Draw(t, "iter")]
		if li.pendingReseek {
			m.iterStepsAfterMutation++
		}
		m.iterSteps++
		stepIter(t, m, li, m.o, u, "Mutable")
	}
	actions := map[string]func(*rapid.T){
		"put": put, "put2": put, "put3": put,
		"delete": del, "delete2": del,
		"get": func(t *rapid.T) {
			k := existingOrAny(t)
			got := m.t.Get([]byte(k))
			want, ok := m.o.vals[k]
			m.log("Get(%s)", q(k))
			if (got != nil) != ok || string(got) != want {
				m.fail(t, "C19:Mutable.Get:value", fmt.Sprintf("Get(%s)=%x nil=%v; model present=%v value %x", q(k), got, got == nil, ok, want))
			}
			if m.t.Has([]byte(k)) != ok {
				m.fail(t, "C19:Mutable.Has:result", fmt.Sprintf("Has(%s)=%v model %v", q(k), !ok, ok))
			}
		},
		"scan": func(t *rapid.T) {
			m.log("fullCheck")
			m.fullCheck(t, "ops")
		},
		"scanStop": func(t *rapid.T) {
			stop := rapid.IntRange(1, m.o.len()+1).Draw(t, "stopAfter")
			var seen []string
			m.t.ForEach(func(k, v []byte) bool {
				seen = append(seen, string(k))
				return len(seen) < stop
			})
			want := stop
			if want > m.o.len() {
				want = m.o.len()
			}
			m.log("ForEach(stop after %d)", stop)
			if len(seen) != want {
				m.fail(t, "C19:Mutable.ForEach:early-stop", fmt.Sprintf("callback ran %d times, want %d", len(seen), want))
				return
			}
			for i, k := range seen {
				if k != m.o.keys[i] {
					m.fail(t, "C19:Mutable.ForEach:early-stop-order", fmt.Sprintf("pair %d is %s, model %s", i, q(k), q(m.o.keys[i])))
					return
				}
			}
		},
		"newIter": func(t *rapid.T) {
			mi, start, limit := drawIterArgs(t, u)
			li := &liveIter{id: m.nextIter, it: m.t.Iterator(start, limit), m: mi}
			m.nextIter++
			if len(m.iters) < 4 {
				m.iters = append(m.iters, li)
			} else {
				m.iters[rapid.IntRange(0, 3).Draw(t, "replace")] = li
			}
			m.log("it%d = Iterator(%s,%s) start=%v limit=%v", li.id, q(mi.start), q(mi.limit), mi.hasStart, mi.hasLimit)
		},
		"iter": iterStep, "iter2": iterStep, "iter3": iterStep, "iter4": iterStep,
		"reseekNoMutation": func(t *rapid.T) {
			// ForceReseek without a mutation must be harmless
			m.log("ForceReseek(all) without mutation")
			m.afterMutation()
		},
		"reset": func(t *rapid.T) {
			if rapid.IntRange(0, 5).Draw(t, "reallyReset") != 0 {
				t.Skip("rare")
			}
			m.t.Reset()
			m.o = newOmap()
			m.heapClean = true
			m.log("Reset()")
			m.afterMutation()
			m.checkCounters(t, "Reset")
		},
		"": func(t *rapid.T) {},
	}
	for name, f := range actions {
		f := f
		actions[name] = func(t *rapid.T) {
			if m.dead {
				return
			}
			if guard(t, m, "Mutable", func() { f(t) }) {
				m.dead = true
			}
		}
	}
	t.Repeat(actions)
	guard(t, m, "Mutable", func() { m.fullCheck(t, "ops") })
	return m
}

func (m *mmachine) classify() (string, bool) {
	nt := m.innerDeletes >= 1
	cl := "mutable/" + m.u.name + "/init=" + m.initKind
	switch {
	case m.twoChildDeletes > 0 && m.iterStepsAfterMutation > 0:
		cl += "/2child-delete+iter-after-mutation"
	case m.twoChildDeletes > 0:
		cl += "/2child-delete"
	case m.innerDeletes > 0:
		cl += "/1child-delete"
	case m.deletes > 0:
		cl += "/leaf-delete-only"
	default:
		cl += "/no-delete"
	}
	return cl, nt
}

func finishMutable(m *mmachine) {
	cl, nt := m.classify()
	key, _ := json.Marshal([]any{m.u.name, m.initKind, m.initN, m.ops})
	vk.Case(cl, nt, key, m.render)
	vk.Count("mutable.iterator-steps", int64(m.iterSteps))
	vk.Count("mutable.iterator-steps-after-mutation", int64(m.iterStepsAfterMutation))
	vk.Count("mutable.deletes-of-node-with-2-children", int64(m.twoChildDeletes))
	vk.Count("mutable.walks-with-heap-order-broken-after-a-delete(informational)", int64(m.heapViolationsAfterDelete))
	if m.maxHeight > 128 {
		vk.Count("mutable.cases-with-height>128(parent-stack-overflow-path)", 1)
	}
}

func TestMutableSmall(t *testing.T) {
	rapid.Check(t, func(t *rapid.T) { finishMutable(runMutable(t, smallU)) })
}

func TestMutableLarge(t *testing.T) {
	rapid.Check(t, func(t *rapid.T) { finishMutable(runMutable(t, largeU)) })
}

// ---------------------------------------------------------------- immutable machine

type version struct {
	id        int
	parent    int
	t         *tv.Immutable
	o         *omap
	fp        [32]byte
	heapClean bool
	born      string
}

type imachine struct {
	u        universe
	initKind string
	initN    int
	vers     []*version
	head     int
	iters    []*liveIter
	nextIter int
	ops      []string
	dead     bool

	innerDeletes, twoChildDeletes, deletes, branches, rechecks, iterSteps, maxHeight int
	heapViolationsAfterDelete                                                        int
}

const maxVersions = 200

func (m *imachine) log(f string, a ...any) { m.ops = append(m.ops, fmt.Sprintf(f, a...)) }

func (m *imachine) render() any {
	return map[string]any{"machine": "immutable", "universe": m.u.name, "init": m.initKind, "initN": m.initN, "ops": m.ops}
}

func (m *imachine) report(t *rapid.T, sig, detail string) bool {
	return vk.Report(t, sig, detail, m.render())
}

func (m *imachine) fail(t *rapid.T, sig, detail string) {
	if m.report(t, sig, detail) {
		m.dead = true
	}
}

// checkVersion compares one retained version with the model snapshot taken
// when it was produced.  when = "fresh" right after it was produced, "old"
// after later updates were derived from it or from its relatives.
func (m *imachine) checkVersion(t *rapid.T, v *version, when string) {
	if m.dead {
		return
	}
	pre := "C19:Immutable[" + when + "]"
	if got := v.t.Len(); got != v.o.len() {
		m.fail(t, pre+".Len", fmt.Sprintf("v%d (%s): Len()=%d model %d", v.id, v.born, got, v.o.len()))
	}
	if got := v.t.Size(); got != v.o.size {
		m.fail(t, pre+".Size", fmt.Sprintf("v%d (%s): Size()=%d model %d", v.id, v.born, got, v.o.size))
	}
	ks, vs, nilVal := scanAll(v.t)
	if d := diffScan(v.o, ks, vs); d != "" {
		m.fail(t, pre+".ForEach:content", fmt.Sprintf("v%d (%s): %s", v.id, v.born, d))
	}
	if nilVal {
		m.fail(t, pre+".ForEach:nil-value", "a stored value is nil")
	}
	info := tv.InspectImmutable(v.t)
	if info.Height > m.maxHeight {
		m.maxHeight = info.Height
	}
	switch {
	case !info.BSTOK:
		m.fail(t, pre+":bst-order", fmt.Sprintf("v%d (%s): %s", v.id, v.born, info.Detail))
	case info.Nodes != v.o.len():
		m.fail(t, pre+":reachable-nodes", fmt.Sprintf("v%d (%s): %d nodes, model %d", v.id, v.born, info.Nodes, v.o.len()))
	case info.Bytes != v.o.size:
		m.fail(t, pre+":reachable-bytes", fmt.Sprintf("v%d (%s): %d bytes, model %d", v.id, v.born, info.Bytes, v.o.size))
	case !info.HeapOK && v.heapClean:
		m.fail(t, "C19:Immutable.Put:heap-order", fmt.Sprintf("v%d (%s): %s", v.id, v.born, info.Detail))
	}
	if !info.HeapOK && !v.heapClean {
		m.heapViolationsAfterDelete++
	}
	if when == "fresh" {
		v.fp = info.Fingerprint
	} else if info.Fingerprint != v.fp {
		// the type documents that a version is never modified ("the treap it
		// points to is immutable"): any change of a reachable node is a defect
		// even when the scan still happens to agree
		m.fail(t, pre+":node-modified-in-place", fmt.Sprintf("v%d (%s): shape fingerprint changed %s -> %s", v.id, v.born,
			hex.EncodeToString(v.fp[:6]), hex.EncodeToString(info.Fingerprint[:6])))
	}
}

func (m *imachine) recheckAll(t *rapid.T) {
	m.rechecks++
	for _, v := range m.vers {
		m.checkVersion(t, v, "old")
		if m.dead {
			return
		}
	}
}

func (m *imachine) addVersion(t *rapid.T, parent *version, nt *tv.Immutable, o *omap, heapClean bool, born string) {
	v := &version{parent: parent.id, t: nt, o: o, heapClean: heapClean, born: born}
	if len(m.vers) < maxVersions {
		v.id = len(m.vers)
		m.vers = append(m.vers, v)
	} else {
		v.id = maxVersions - 1 // the last slot is recycled once the retention limit is reached
		m.vers[v.id] = v
		for _, li := range m.iters {
			if li.ver == v.id {
				li.dead = true
			}
		}
	}
	m.head = v.id
	m.checkVersion(t, v, "fresh")
}

func runImmutable(t *rapid.T, u universe) *imachine {
	rand.Seed(rapid.Int64().Draw(t, "prioritySeed"))
	in := drawInitial(t, u)
	m := &imachine{u: u, initKind: in.kind, initN: len(in.keys)}
	v0 := &version{id: 0, parent: -1, heapClean: true, born: "initial " + in.kind}
	if in.kind == "empty" {
		v0.t, v0.o = tv.NewImmutable(), newOmap()
	} else {
		v0.t, v0.o = tv.NewImmutableWithPriorities(cps(in.keys), cps(in.values), in.prios), in.model()
	}
	m.vers = []*version{v0}
	if guard(t, m, "Immutable", func() { m.checkVersion(t, v0, "fresh") }) {
		m.dead = true
	}

	pick := func(t *rapid.T, label string) *version {
		if len(m.vers) > 1 && rapid.IntRange(0, 9).Draw(t, label+"Old") < 2 {
			return m.vers[rapid.IntRange(0, len(m.vers)-1).Draw(t, label)]
		}
		return m.vers[m.head]
	}
	keyFor := func(t *rapid.T, v *version) string {
		if v.o.len() > 0 && rapid.IntRange(0, 9).Draw(t, "existing") < 7 {
			return v.o.keys[rapid.IntRange(0, v.o.len()-1).Draw(t, "existingIdx")]
		}
		return u.drawKey(t, "key")
	}
	put := func(t *rapid.T) {
		v := pick(t, "base")
		if v.id != m.head {
			m.branches++
		}
		k := keyFor(t, v)
		if rapid.Bool().Draw(t, "fresh") {
			k = u.drawKey(t, "key")
		}
		val := drawValue(t)
		nt := v.t.Put([]byte(k), cp(val))
		o := v.o.clone()
		o.put(k, string(val))
		m.log("v%d.Put(%s, %d bytes nil=%v)", v.id, q(k), len(val), val == nil)
		m.addVersion(t, v, nt, o, v.heapClean, fmt.Sprintf("v%d.Put(%s)", v.id, q(k)))
		// the base version must still answer as before at the touched key
		got := v.t.Get([]byte(k))
		want, ok := v.o.vals[k]
		if (got != nil) != ok || string(got) != want {
			m.fail(t, "C19:Immutable[old].Get:after-Put-on-it", fmt.Sprintf("v%d.Get(%s)=%x nil=%v, model present=%v %x", v.id, q(k), got, got == nil, ok, want))
		}
	}
	del := func(t *rapid.T) {
		v := pick(t, "base")
		if v.id != m.head {
			m.branches++
		}
		k := keyFor(t, v)
		ch := v.t.VerifChildren([]byte(k))
		nt := v.t.Delete([]byte(k))
		o := v.o.clone()
		had := o.del(k)
		m.log("v%d.Delete(%s) present=%v children=%d", v.id, q(k), had, ch)
		heapClean := v.heapClean
		if had {
			m.deletes++
			heapClean = false
			if ch >= 1 {
				m.innerDeletes++
			}
			if ch == 2 {
				m.twoChildDeletes++
			}
		} else if nt != v.t {
			// documented: "The original immutable treap is returned if the key does not exist"
			m.fail(t, "C19:Immutable.Delete:absent-key-new-version", fmt.Sprintf("v%d.Delete(%s) of an absent key returned a different treap", v.id, q(k)))
		}
		m.addVersion(t, v, nt, o, heapClean, fmt.Sprintf("v%d.Delete(%s)", v.id, q(k)))
		got := v.t.Get([]byte(k))
		want, ok := v.o.vals[k]
		if (got != nil) != ok || string(got) != want {
			m.fail(t, "C19:Immutable[old].Get:after-Delete-on-it", fmt.Sprintf("v%d.Get(%s)=%x nil=%v, model present=%v %x", v.id, q(k), got, got == nil, ok, want))
		}
	}
	iterStep := func(t *rapid.T) {
		if len(m.iters) == 0 {
			t.Skip("no iterator")
		}
		li := m.iters[rapid.IntRange(0, len(m.iters)-1).Draw(t, "iter")]
		if li.dead {
			t.Skip("iterator retired")
		}
		m.iterSteps++
		if rapid.IntRange(0, 7).Draw(t, "forceReseek") == 0 {
			li.it.ForceReseek() // documented no-op for immutable treaps
			m.log("it%d.ForceReseek()", li.id)
		}
		stepIter(t, m, li, m.vers[li.ver].o, u, "Immutable")
	}
	actions := map[string]func(*rapid.T){
		"put": put, "put2": put, "put3": put,
		"delete": del, "delete2": del,
		"get": func(t *rapid.T) {
			v := pick(t, "ver")
			k := keyFor(t, v)
			got := v.t.Get([]byte(k))
			want, ok := v.o.vals[k]
			m.log("v%d.Get(%s)", v.id, q(k))
			when := "old"
			if v.id == m.head {
				when = "fresh"
			}
			if (got != nil) != ok || string(got) != want {
				m.fail(t, "C19:Immutable["+when+"].Get:value", fmt.Sprintf("v%d.Get(%s)=%x nil=%v; model present=%v value %x", v.id, q(k), got, got == nil, ok, want))
			}
			if v.t.Has([]byte(k)) != ok {
				m.fail(t, "C19:Immutable["+when+"].Has:result", fmt.Sprintf("v%d.Has(%s)=%v model %v", v.id, q(k), !ok, ok))
			}
		},
		"checkOne": func(t *rapid.T) {
			v := pick(t, "ver")
			m.log("check v%d", v.id)
			m.checkVersion(t, v, "old")
		},
		"recheckAll": func(t *rapid.T) {
			if rapid.IntRange(0, 3).Draw(t, "reallyAll") != 0 {
				t.Skip("rare")
			}
			m.log("recheck all %d versions", len(m.vers))
			m.recheckAll(t)
		},
		"scanStop": func(t *rapid.T) {
			v := pick(t, "ver")
			stop := rapid.IntRange(1, v.o.len()+1).Draw(t, "stopAfter")
			n := 0
			v.t.ForEach(func(k, val []byte) bool { n++; return n < stop })
			want := stop
			if want > v.o.len() {
				want = v.o.len()
			}
			m.log("v%d.ForEach(stop after %d)", v.id, stop)
			if n != want {
				m.fail(t, "C19:Immutable.ForEach:early-stop", fmt.Sprintf("callback ran %d times, want %d", n, want))
			}
		},
		"newIter": func(t *rapid.T) {
			v := pick(t, "ver")
			mi, start, limit := drawIterArgs(t, u)
			li := &liveIter{id: m.nextIter, it: v.t.Iterator(start, limit), m: mi, ver: v.id}
			m.nextIter++
			if len(m.iters) < 4 {
				m.iters = append(m.iters, li)
			} else {
				m.iters[rapid.IntRange(0, 3).Draw(t, "replace")] = li
			}
			m.log("it%d = v%d.Iterator(%s,%s) start=%v limit=%v", li.id, v.id, q(mi.start), q(mi.limit), mi.hasStart, mi.hasLimit)
		},
		"iter": iterStep, "iter2": iterStep, "iter3": iterStep,
		"": func(t *rapid.T) {},
	}
	for name, f := range actions {
		f := f
		actions[name] = func(t *rapid.T) {
			if m.dead {
				return
			}
			if guard(t, m, "Immutable", func() { f(t) }) {
				m.dead = true
			}
		}
	}
	t.Repeat(actions)
	guard(t, m, "Immutable", func() { m.recheckAll(t) })
	return m
}

func finishImmutable(m *imachine) {
	nt := m.innerDeletes >= 1 && len(m.vers) >= 5
	cl := "immutable/" + m.u.name + "/init=" + m.initKind
	switch {
	case len(m.vers) < 5:
		cl += "/<5-versions"
	case m.twoChildDeletes > 0 && m.branches > 0:
		cl += "/2child-delete+branching"
	case m.twoChildDeletes > 0:
		cl += "/2child-delete"
	case m.innerDeletes > 0:
		cl += "/1child-delete"
	default:
		cl += "/no-inner-delete"
	}
	key, _ := json.Marshal([]any{m.u.name, m.initKind, m.initN, m.ops})
	vk.Case(cl, nt, key, m.render)
	vk.Count("immutable.versions-retained-and-rechecked", int64(len(m.vers)))
	vk.Count("immutable.updates-derived-from-a-non-head-version", int64(m.branches))
	vk.Count("immutable.iterator-steps", int64(m.iterSteps))
	vk.Count("immutable.walks-with-heap-order-broken-after-a-delete(informational)", int64(m.heapViolationsAfterDelete))
	if m.maxHeight > 128 {
		vk.Count("immutable.cases-with-height>128(parent-stack-overflow-path)", 1)
	}
}

func TestImmutableSmall(t *testing.T) {
	rapid.Check(t, func(t *rapid.T) { finishImmutable(runImmutable(t, smallU)) })
}

func TestImmutableLarge(t *testing.T) {
	rapid.Check(t, func(t *rapid.T) { finishImmutable(runImmutable(t, largeU)) })
}
