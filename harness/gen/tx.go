package gen

import (
	"bytes"

	"github.com/elastos/Elastos.ELA/auxpow"
	"github.com/elastos/Elastos.ELA/common"
	pg "github.com/elastos/Elastos.ELA/core/contract/program"
	"github.com/elastos/Elastos.ELA/core/types"
	ctypes "github.com/elastos/Elastos.ELA/core/types/common"
	"github.com/elastos/Elastos.ELA/core/types/functions"
	"github.com/elastos/Elastos.ELA/core/types/interfaces"
	"github.com/elastos/Elastos.ELA/core/types/payload"
	"pgregory.net/rapid"
)

// TxOpts steers GenTx.  The zero value means "anything well formed".
type TxOpts struct {
	Ring *Ring // default FixedRing(6)

	// Types restricts the tx types drawn (default: all of Specs).
	Types []ctypes.TxType
	// PayloadVersion fixes the payload version (default: a defined version of
	// the type; with UndefinedVersions sometimes max+1 or 0xff).
	PayloadVersion    *byte
	UndefinedVersions bool
	// TxVersion fixes the transaction version byte.  Default: 0 or 9 for
	// types <= 0x08, 9 (rarely 10..255) otherwise - the documented domain.
	TxVersion *ctypes.TransactionVersion

	MaxAttrs, MaxInputs, MaxOutputs, MaxPrograms int // defaults 3, 5, 5, 3
	Budget                                       int // longest data field (default 300)

	// OutputTypes restricts output payload types for version >= 9
	// (default: all of OutputTypes).
	OutputTypes []ctypes.OutputType
}

func (o *TxOpts) defaults() {
	if o.Ring == nil {
		o.Ring = FixedRing(6)
	}
	if len(o.Types) == 0 {
		o.Types = TxTypes()
	}
	if o.MaxAttrs == 0 {
		o.MaxAttrs = 3
	}
	if o.MaxInputs == 0 {
		o.MaxInputs = 5
	}
	if o.MaxOutputs == 0 {
		o.MaxOutputs = 5
	}
	if o.MaxPrograms == 0 {
		o.MaxPrograms = 3
	}
	if o.Budget == 0 {
		o.Budget = 300
	}
	if len(o.OutputTypes) == 0 {
		o.OutputTypes = OutputTypes
	}
}

// Attribute usages the codec accepts.
var AttributeUsages = []ctypes.AttributeUsage{
	ctypes.Nonce, ctypes.Script, ctypes.Memo, ctypes.Description, ctypes.DescriptionUrl, ctypes.Confirmations,
}

// GenAttribute draws one attribute.
func GenAttribute(t *rapid.T, budget int) *ctypes.Attribute {
	return &ctypes.Attribute{
		Usage: rapid.SampledFrom(AttributeUsages).Draw(t, "attrUsage"),
		Data:  DataBytes(16<<20, budget).Draw(t, "attrData"),
	}
}

// GenInput draws one input.
func GenInput(t *rapid.T) *ctypes.Input {
	var in ctypes.Input
	in.Previous.TxID = Uint256().Draw(t, "prevTx")
	in.Previous.Index = uint16(rapid.SampledFrom([]int{0, 0, 0, 1, 2, 3, 0xfffe, 0xffff}).Draw(t, "prevIdx"))
	in.Sequence = rapid.SampledFrom([]uint32{0, 0, 1, 0xfffffffe, 0xffffffff, 12345}).Draw(t, "seq")
	return &in
}

// GenOutput draws one output; for txVersion >= 9 it carries an output payload
// of one of the allowed types.
func (f *Filler) GenOutput(txVersion ctypes.TransactionVersion, otypes []ctypes.OutputType) *ctypes.Output {
	t := f.T
	o := &ctypes.Output{}
	if rapid.IntRange(0, 5).Draw(t, "assetKind") == 0 {
		o.AssetID = Uint256().Draw(t, "asset")
	} else {
		o.AssetID = ELAAssetID
	}
	o.Value = Fixed64().Draw(t, "value")
	o.OutputLock = rapid.SampledFrom([]uint32{0, 0, 0, 1, 100, 0xffffffff}).Draw(t, "outLock")
	o.ProgramHash = f.Ring.Hash168(t)
	if txVersion >= ctypes.TxVersion09 {
		if len(otypes) == 0 {
			otypes = OutputTypes
		}
		// plain outputs dominate real traffic; keep every other type frequent
		if rapid.IntRange(0, 2).Draw(t, "outPlain") == 0 {
			o.Type = otypes[0]
			for _, x := range otypes {
				if x == ctypes.OTNone {
					o.Type = ctypes.OTNone
				}
			}
		} else {
			o.Type = otypes[UniformIndex(t, len(otypes), "outType")]
		}
		o.Payload = f.OutputPayload(o.Type)
	}
	return o
}

// GenProgram draws one program: a ring script with a signature-shaped
// parameter, or arbitrary bytes within the decoder's caps.
func (f *Filler) GenProgram() *pg.Program {
	t := f.T
	p := &pg.Program{}
	switch rapid.IntRange(0, 9).Draw(t, "progKind") {
	case 0:
		p.Code = DataBytes(pg.MaxProgramCodeSize, f.Budget).Draw(t, "progCode")
		p.Parameter = DataBytes(pg.MaxProgramParamSize, f.Budget).Draw(t, "progParam")
	case 1, 2, 3:
		code, m, _ := f.Ring.MultiSig(t)
		p.Code = code
		for i := 0; i < m; i++ {
			p.Parameter = append(p.Parameter, 0x40)
			p.Parameter = append(p.Parameter, f.Signature("progSig")...)
		}
	default:
		p.Code = f.Ring.Pick(t, "progKey").StandardCode()
		p.Parameter = append([]byte{0x40}, f.Signature("progSig")...)
	}
	return p
}

// DrawVersions draws (tx version, payload version) for a type per opts.
func drawVersions(t *rapid.T, o *TxOpts, spec *TxSpec) (ctypes.TransactionVersion, byte) {
	var pv byte
	if o.PayloadVersion != nil {
		pv = *o.PayloadVersion
	} else {
		pv = rapid.SampledFrom(spec.Versions).Draw(t, "payloadVersion")
		if o.UndefinedVersions && rapid.IntRange(0, 7).Draw(t, "undefVer") == 0 {
			max := spec.Versions[len(spec.Versions)-1]
			pv = rapid.SampledFrom([]byte{max + 1, max + 2, 0x7f, 0xff}).Draw(t, "undefVerVal")
		}
	}
	var tv ctypes.TransactionVersion
	if o.TxVersion != nil {
		tv = *o.TxVersion
	} else if spec.Type <= ctypes.TransferCrossChainAsset {
		tv = rapid.SampledFrom([]ctypes.TransactionVersion{0, 0, 9, 9, 9, 10, 0xff}).Draw(t, "txVersion")
	} else {
		tv = rapid.SampledFrom([]ctypes.TransactionVersion{9, 9, 9, 9, 9, 9, 10, 0x80, 0xff}).Draw(t, "txVersion")
	}
	return tv, pv
}

// GenTx draws a well-formed transaction (in the codec's sense: every field
// within the limits its decoder applies) of any type / payload version, built
// through functions.CreateTransaction like the node does.
func GenTx(t *rapid.T, o TxOpts) interfaces.Transaction {
	Init()
	o.defaults()
	f := NewFiller(t, o.Ring)
	f.Budget = o.Budget
	txType := o.Types[UniformIndex(t, len(o.Types), "txType")]
	spec := SpecOf(txType)
	if spec == nil {
		panic("gen: GenTx: type not constructible")
	}
	tv, pv := drawVersions(t, &o, spec)
	return f.BuildTx(tv, txType, pv, &o)
}

// BuildTx draws the body of a transaction with fixed versions and type.
func (f *Filler) BuildTx(tv ctypes.TransactionVersion, txType ctypes.TxType, pv byte, o *TxOpts) interfaces.Transaction {
	t := f.T
	if o == nil {
		o = &TxOpts{}
	}
	o.defaults()
	p := f.Payload(txType, pv)

	var attrs []*ctypes.Attribute
	for i, n := 0, rapid.IntRange(0, o.MaxAttrs).Draw(t, "nAttrs"); i < n; i++ {
		attrs = append(attrs, GenAttribute(t, f.Budget))
	}
	var ins []*ctypes.Input
	for i, n := 0, rapid.IntRange(0, o.MaxInputs).Draw(t, "nInputs"); i < n; i++ {
		ins = append(ins, GenInput(t))
	}
	var outs []*ctypes.Output
	for i, n := 0, rapid.IntRange(0, o.MaxOutputs).Draw(t, "nOutputs"); i < n; i++ {
		outs = append(outs, f.GenOutput(tv, o.OutputTypes))
	}
	var progs []*pg.Program
	for i, n := 0, rapid.IntRange(0, o.MaxPrograms).Draw(t, "nPrograms"); i < n; i++ {
		progs = append(progs, f.GenProgram())
	}
	lock := rapid.SampledFrom([]uint32{0, 0, 0, 1, 500000, 0xffffffff}).Draw(t, "lockTime")
	return functions.CreateTransaction(tv, txType, pv, p, attrs, ins, outs, lock, progs)
}

// TxBytes serializes a transaction (nil on error).
func TxBytes(tx interfaces.Transaction) []byte {
	buf := new(bytes.Buffer)
	if err := tx.Serialize(buf); err != nil {
		return nil
	}
	return buf.Bytes()
}

// DecodeTx decodes one transaction the way every caller in the node does:
// GetTransactionByBytes on the reader, then Deserialize on the same reader.
func DecodeTx(b []byte) (interfaces.Transaction, int, error) {
	Init()
	r := bytes.NewReader(b)
	tx, err := functions.GetTransactionByBytes(r)
	if err != nil {
		return nil, len(b) - r.Len(), err
	}
	if err := tx.Deserialize(r); err != nil {
		return nil, len(b) - r.Len(), err
	}
	return tx, len(b) - r.Len(), nil
}

// GenAuxPow draws an AuxPow with small merkle branches and a one-input
// parent coinbase (structurally valid, not a valid proof of work).
func (f *Filler) GenAuxPow() auxpow.AuxPow {
	t := f.T
	var ap auxpow.AuxPow
	hashes := func(label string, max int) []common.Uint256 {
		n := rapid.IntRange(0, max).Draw(t, label+"N")
		out := make([]common.Uint256, n)
		for i := range out {
			out[i] = Uint256().Draw(t, label)
		}
		return out
	}
	ap.AuxMerkleBranch = hashes("auxBranch", 4)
	ap.ParCoinBaseMerkle = hashes("parBranch", 4)
	ap.AuxMerkleIndex = int(rapid.SampledFrom([]uint32{0, 0, 1, 5, 0xffffffff}).Draw(t, "auxIdx"))
	ap.ParMerkleIndex = int(rapid.SampledFrom([]uint32{0, 0, 1, 5, 0xffffffff}).Draw(t, "parIdx"))
	ap.ParentHash = Uint256().Draw(t, "parentHash")
	ap.ParCoinbaseTx.Version = rapid.Int32().Draw(t, "btcVer")
	ap.ParCoinbaseTx.LockTime = rapid.Uint32().Draw(t, "btcLock")
	ap.ParCoinbaseTx.TxIn = []*auxpow.BtcTxIn{}
	ap.ParCoinbaseTx.TxOut = []*auxpow.BtcTxOut{}
	for i, n := 0, rapid.IntRange(0, 2).Draw(t, "btcIns"); i < n; i++ {
		in := &auxpow.BtcTxIn{}
		f.Fill(in)
		ap.ParCoinbaseTx.TxIn = append(ap.ParCoinbaseTx.TxIn, in)
	}
	for i, n := 0, rapid.IntRange(0, 2).Draw(t, "btcOuts"); i < n; i++ {
		out := &auxpow.BtcTxOut{}
		f.Fill(out)
		ap.ParCoinbaseTx.TxOut = append(ap.ParCoinbaseTx.TxOut, out)
	}
	f.Fill(&ap.ParBlockHeader)
	return ap
}

// GenHeader draws a block header; withAux=false leaves the zero AuxPow (which
// is what headers carry before merged mining data is attached).
func (f *Filler) GenHeader(withAux bool) ctypes.Header {
	t := f.T
	var h ctypes.Header
	h.Version = rapid.SampledFrom([]uint32{0, 1, 2, 0xffffffff}).Draw(t, "hdrVersion")
	h.Previous = Uint256().Draw(t, "hdrPrev")
	h.MerkleRoot = Uint256().Draw(t, "hdrRoot")
	h.Timestamp = rapid.Uint32().Draw(t, "hdrTime")
	h.Bits = rapid.SampledFrom([]uint32{0x207fffff, 0x1d00ffff, 0, 0xffffffff}).Draw(t, "hdrBits")
	h.Nonce = rapid.Uint32().Draw(t, "hdrNonce")
	h.Height = rapid.SampledFrom([]uint32{0, 1, 2, 1000, 0xffffffff}).Draw(t, "hdrHeight")
	if withAux {
		h.AuxPow = f.GenAuxPow()
	} else {
		h.AuxPow.ParCoinbaseTx.TxIn = []*auxpow.BtcTxIn{}
		h.AuxPow.ParCoinbaseTx.TxOut = []*auxpow.BtcTxOut{}
	}
	return h
}

// GenBlock draws a block of minTx..maxTx generated transactions.
func GenBlock(t *rapid.T, o TxOpts, minTx, maxTx int) *types.Block {
	Init()
	o.defaults()
	f := NewFiller(t, o.Ring)
	f.Budget = o.Budget
	b := &types.Block{Header: f.GenHeader(rapid.Bool().Draw(t, "withAux"))}
	for i, n := 0, rapid.IntRange(minTx, maxTx).Draw(t, "nTx"); i < n; i++ {
		b.Transactions = append(b.Transactions, GenTx(t, o))
	}
	return b
}

// GenConfirm draws a confirm with 0..maxVotes votes.
func (f *Filler) GenConfirm(maxVotes int) *payload.Confirm {
	c := &payload.Confirm{}
	f.Fill(&c.Proposal)
	n := rapid.IntRange(0, maxVotes).Draw(f.T, "nVotes")
	c.Votes = make([]payload.DPOSProposalVote, n)
	for i := range c.Votes {
		f.Fill(&c.Votes[i])
	}
	return c
}

// GenDposBlock draws a DposBlock (with or without confirm).
func GenDposBlock(t *rapid.T, o TxOpts, minTx, maxTx int) *types.DposBlock {
	b := GenBlock(t, o, minTx, maxTx)
	d := &types.DposBlock{Block: b}
	if rapid.Bool().Draw(t, "haveConfirm") {
		d.HaveConfirm = true
		f := NewFiller(t, o.Ring)
		d.Confirm = f.GenConfirm(4)
	}
	return d
}
