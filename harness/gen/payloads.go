package gen

import (
	"reflect"

	"github.com/elastos/Elastos.ELA/common"
	ctypes "github.com/elastos/Elastos.ELA/core/types/common"
	"github.com/elastos/Elastos.ELA/core/types/interfaces"
	"github.com/elastos/Elastos.ELA/core/types/outputpayload"
	"github.com/elastos/Elastos.ELA/core/types/payload"
	"pgregory.net/rapid"
)

// TxSpec describes one transaction type the node can construct
// (transaction.GetTransaction / interfaces.GetPayload).
type TxSpec struct {
	Type     ctypes.TxType
	Name     string
	Versions []byte // payload versions the payload's codec distinguishes (defined constants)
}

// Specs lists every transaction type of transaction.GetTransaction with the
// payload versions its codec defines.
var Specs = []TxSpec{
	{ctypes.CoinBase, "CoinBase", []byte{0, payload.CoinBaseVersion}},
	{ctypes.RegisterAsset, "RegisterAsset", []byte{0}},
	{ctypes.TransferAsset, "TransferAsset", []byte{0}},
	{ctypes.Record, "Record", []byte{0}},
	{ctypes.SideChainPow, "SideChainPow", []byte{0}},
	{ctypes.WithdrawFromSideChain, "WithdrawFromSideChain", []byte{0, 1, 2}},
	{ctypes.TransferCrossChainAsset, "TransferCrossChainAsset", []byte{0, 1}},
	{ctypes.RegisterProducer, "RegisterProducer", []byte{0, 1, 2, 3}},
	{ctypes.CancelProducer, "CancelProducer", []byte{0, 1, 2}},
	{ctypes.UpdateProducer, "UpdateProducer", []byte{0, 1, 2, 3}},
	{ctypes.ReturnDepositCoin, "ReturnDepositCoin", []byte{0}},
	{ctypes.ActivateProducer, "ActivateProducer", []byte{0}},
	{ctypes.IllegalProposalEvidence, "IllegalProposalEvidence", []byte{0}},
	{ctypes.IllegalVoteEvidence, "IllegalVoteEvidence", []byte{0}},
	{ctypes.IllegalBlockEvidence, "IllegalBlockEvidence", []byte{0}},
	{ctypes.IllegalSidechainEvidence, "IllegalSidechainEvidence", []byte{0}},
	{ctypes.InactiveArbitrators, "InactiveArbitrators", []byte{0}},
	{ctypes.UpdateVersion, "UpdateVersion", []byte{0}},
	{ctypes.NextTurnDPOSInfo, "NextTurnDPOSInfo", []byte{0, 1}},
	{ctypes.ProposalResult, "ProposalResult", []byte{0}},
	{ctypes.RegisterCR, "RegisterCR", []byte{0, 1, 2, 3}},
	{ctypes.UnregisterCR, "UnregisterCR", []byte{0, 1, 2}},
	{ctypes.UpdateCR, "UpdateCR", []byte{0, 1, 2, 3}},
	{ctypes.ReturnCRDepositCoin, "ReturnCRDepositCoin", []byte{0}},
	{ctypes.CRCProposal, "CRCProposal", []byte{0, 1}},
	{ctypes.CRCProposalReview, "CRCProposalReview", []byte{0, 1}},
	{ctypes.CRCProposalTracking, "CRCProposalTracking", []byte{0, 1}},
	{ctypes.CRCAppropriation, "CRCAppropriation", []byte{0}},
	{ctypes.CRCProposalWithdraw, "CRCProposalWithdraw", []byte{0, 1}},
	{ctypes.CRCProposalRealWithdraw, "CRCProposalRealWithdraw", []byte{0}},
	{ctypes.CRAssetsRectify, "CRAssetsRectify", []byte{0}},
	{ctypes.CRCouncilMemberClaimNode, "CRCouncilMemberClaimNode", []byte{0, 1}},
	{ctypes.RevertToPOW, "RevertToPOW", []byte{0}},
	{ctypes.RevertToDPOS, "RevertToDPOS", []byte{0}},
	{ctypes.ReturnSideChainDepositCoin, "ReturnSideChainDepositCoin", []byte{0, 1}},
	{ctypes.DposV2ClaimReward, "DposV2ClaimReward", []byte{0, 1}},
	{ctypes.DposV2ClaimRewardRealWithdraw, "DposV2ClaimRewardRealWithdraw", []byte{0}},
	{ctypes.ExchangeVotes, "ExchangeVotes", []byte{0}},
	{ctypes.Voting, "Voting", []byte{0, 1}},
	{ctypes.ReturnVotes, "ReturnVotes", []byte{0, 1}},
	{ctypes.VotesRealWithdraw, "VotesRealWithdraw", []byte{0}},
	{ctypes.RecordSponsor, "RecordSponsor", []byte{0}},
	{ctypes.CreateNFT, "CreateNFT", []byte{0, 1}},
	{ctypes.NFTDestroyFromSideChain, "NFTDestroyFromSideChain", []byte{0}},
}

var specByType = func() map[ctypes.TxType]*TxSpec {
	m := map[ctypes.TxType]*TxSpec{}
	for i := range Specs {
		m[Specs[i].Type] = &Specs[i]
	}
	return m
}()

// SpecOf returns the spec of a tx type (nil if the node cannot construct it).
func SpecOf(t ctypes.TxType) *TxSpec { return specByType[t] }

// TxTypes lists all constructible transaction types.
func TxTypes() []ctypes.TxType {
	out := make([]ctypes.TxType, len(Specs))
	for i, s := range Specs {
		out[i] = s.Type
	}
	return out
}

// TypeVersion is one (tx type, payload version) cell.
type TypeVersion struct {
	Type    ctypes.TxType
	Version byte
	Name    string
}

// Grid lists every defined (tx type, payload version) cell.
func Grid() []TypeVersion {
	var g []TypeVersion
	for _, s := range Specs {
		for _, v := range s.Versions {
			g = append(g, TypeVersion{s.Type, v, s.Name})
		}
	}
	return g
}

// ProposalTypes are the CRC proposal types with a codec branch of their own,
// plus representatives of the default branch.
var ProposalTypes = []payload.CRCProposalType{
	payload.Normal, payload.ELIP, payload.FLOWELIP, payload.INFOELIP,
	payload.MainChainUpgradeCode, payload.DIDUpgradeCode, payload.ETHUpgradeCode,
	payload.SecretaryGeneral, payload.ChangeProposalOwner, payload.CloseProposal,
	payload.RegisterSideChain, payload.ReserveCustomID, payload.ReceiveCustomID,
	payload.ChangeCustomIDFee,
}

// FillPayload builds the payload object of txType (via interfaces.GetPayload)
// and fills every field the codec of that version can carry - and the others
// too: callers that compare round trips use the unserialized-field table.
func FillPayload(t *rapid.T, txType ctypes.TxType, version byte) interfaces.Payload {
	return NewFiller(t, nil).Payload(txType, version)
}

// Payload is FillPayload with this filler's ring and budgets.
func (f *Filler) Payload(txType ctypes.TxType, version byte) interfaces.Payload {
	p, err := interfaces.GetPayload(txType, version)
	if err != nil {
		panic("gen: GetPayload: " + err.Error())
	}
	f.FillPayloadObject(p)
	return p
}

// FillPayloadObject fills any payload.* / outputpayload.* object in place and
// repairs the cross-field constraints its serializer insists on.
func (f *Filler) FillPayloadObject(p any) {
	saved := f.Hook
	f.Hook = func(ff *Filler, typeName, field string, v reflect.Value) bool {
		if saved != nil && saved(ff, typeName, field, v) {
			return true
		}
		switch typeName + "." + field {
		case "CRCProposal.ProposalType", "ProposalResult.ProposalType":
			if rapid.IntRange(0, 9).Draw(ff.T, "ptundef") == 0 {
				v.SetUint(uint64(rapid.Uint16().Draw(ff.T, "ptraw")))
			} else {
				v.SetUint(uint64(ProposalTypes[UniformIndex(ff.T, len(ProposalTypes), "pt")]))
			}
			return true
		case "VoteOutput.Version":
			v.SetUint(uint64(rapid.SampledFrom([]byte{0, 1, 2, 2, 3, 0xff}).Draw(ff.T, "vov")))
			return true
		}
		return false
	}
	f.Fill(p)
	f.Hook = saved
	switch q := p.(type) {
	case *payload.TransferCrossChainAsset:
		n := len(q.CrossChainAddresses)
		if len(q.OutputIndexes) < n {
			n = len(q.OutputIndexes)
		}
		if len(q.CrossChainAmounts) < n {
			n = len(q.CrossChainAmounts)
		}
		q.CrossChainAddresses = q.CrossChainAddresses[:n]
		q.OutputIndexes = q.OutputIndexes[:n]
		q.CrossChainAmounts = q.CrossChainAmounts[:n]
	}
}

// OutputTypes lists the output payload types getOutputPayload knows.
var OutputTypes = []ctypes.OutputType{
	ctypes.OTNone, ctypes.OTVote, ctypes.OTMapping, ctypes.OTCrossChain,
	ctypes.OTWithdrawFromSideChain, ctypes.OTReturnSideChainDepositCoin,
	ctypes.OTDposV2Vote, ctypes.OTStake,
}

// NewOutputPayload mirrors the node's (unexported) getOutputPayload.
func NewOutputPayload(ot ctypes.OutputType) ctypes.OutputPayload {
	switch ot {
	case ctypes.OTNone:
		return new(outputpayload.DefaultOutput)
	case ctypes.OTVote, ctypes.OTDposV2Vote:
		return new(outputpayload.VoteOutput)
	case ctypes.OTMapping:
		return new(outputpayload.Mapping)
	case ctypes.OTCrossChain:
		return new(outputpayload.CrossChainOutput)
	case ctypes.OTWithdrawFromSideChain:
		return new(outputpayload.Withdraw)
	case ctypes.OTReturnSideChainDepositCoin:
		return new(outputpayload.ReturnSideChainDeposit)
	case ctypes.OTStake:
		return new(outputpayload.ExchangeVotesOutput)
	}
	return nil
}

// OutputPayload fills an output payload of the given type.
func (f *Filler) OutputPayload(ot ctypes.OutputType) ctypes.OutputPayload {
	p := NewOutputPayload(ot)
	if p == nil {
		panic("gen: unknown output type")
	}
	f.FillPayloadObject(p)
	return p
}

// FillOutputPayload is OutputPayload with a default filler.
func FillOutputPayload(t *rapid.T, ot ctypes.OutputType) ctypes.OutputPayload {
	return NewFiller(t, nil).OutputPayload(ot)
}

// ELAAssetID is the asset id of ELA (core.ELAAssetID, duplicated to avoid the
// import).
var ELAAssetID = func() common.Uint256 {
	b, _ := common.HexStringToBytes("b037db964a231458d2d6ffd5ea18944c4f90e63d547c5d3b9874df66a4ead0a3")
	var u common.Uint256
	copy(u[:], b)
	return u
}()
