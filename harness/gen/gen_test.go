package gen

import (
	"bytes"
	"testing"

	"github.com/elastos/Elastos.ELA/core/types"
	ctypes "github.com/elastos/Elastos.ELA/core/types/common"
	"github.com/elastos/Elastos.ELA/core/types/functions"
	"github.com/elastos/Elastos.ELA/core/types/interfaces"

	"pgregory.net/rapid"
)

// TestGenSmoke: every generated transaction serializes and decodes again
// (the generator's own health check; verdicts live in the cNN packages).
func TestGenSmoke(t *testing.T) {
	ok, bad := 0, 0
	rapid.Check(t, func(t *rapid.T) {
		tx := GenTx(t, TxOpts{})
		b := TxBytes(tx)
		if b == nil {
			bad++
			t.Fatalf("serialize failed for type %s pv %d", tx.TxType().Name(), tx.PayloadVersion())
		}
		tx2, n, err := DecodeTx(b)
		if err != nil || n != len(b) {
			bad++
			t.Fatalf("decode failed for type %s pv %d v %d: %v (consumed %d of %d)", tx.TxType().Name(), tx.PayloadVersion(), tx.Version(), err, n, len(b))
		}
		if !bytes.Equal(TxBytes(tx2), b) {
			t.Fatalf("re-encode differs for type %s pv %d", tx.TxType().Name(), tx.PayloadVersion())
		}
		ok++
	})
	t.Logf("ok=%d bad=%d", ok, bad)
}

func TestGenBlockSmoke(t *testing.T) {
	rapid.Check(t, func(t *rapid.T) {
		b := GenDposBlock(t, TxOpts{}, 0, 4)
		buf := new(bytes.Buffer)
		if err := b.Serialize(buf); err != nil {
			t.Fatalf("serialize: %v", err)
		}
		raw := append([]byte(nil), buf.Bytes()...)
		var d types.DposBlock
		if err := d.Deserialize(bytes.NewReader(raw)); err != nil {
			t.Fatalf("deserialize: %v", err)
		}
	})
}

// TestSpecsCoverGetTransaction: Specs lists exactly the types the node can
// construct (transaction.GetTransaction / interfaces.GetPayload).
func TestSpecsCoverGetTransaction(t *testing.T) {
	Init()
	for b := 0; b < 256; b++ {
		_, err := functions.GetTransactionByTxType(ctypes.TxType(b))
		_, perr := interfaces.GetPayload(ctypes.TxType(b), 0)
		if (err == nil) != (SpecOf(ctypes.TxType(b)) != nil) || (err == nil) != (perr == nil) {
			t.Fatalf("type 0x%02x: GetTransaction err=%v GetPayload err=%v spec=%v", b, err, perr, SpecOf(ctypes.TxType(b)) != nil)
		}
	}
}
