package gen

import (
	"pgregory.net/rapid"
)

// Mutate applies one byte-level mutation to a copy of b: bit flip, byte
// replacement by a boundary value, truncation, deletion, insertion,
// duplication of a span, or overwriting a position with a hostile varint.
func Mutate(t *rapid.T, b []byte) []byte {
	out := append([]byte(nil), b...)
	if len(out) == 0 {
		return rapid.SliceOfN(rapid.Byte(), 0, 8).Draw(t, "mutFromEmpty")
	}
	pos := rapid.IntRange(0, len(out)-1).Draw(t, "mutPos")
	switch rapid.IntRange(0, 8).Draw(t, "mutKind") {
	case 0: // bit flip
		out[pos] ^= 1 << uint(rapid.IntRange(0, 7).Draw(t, "mutBit"))
	case 1: // boundary byte
		out[pos] = rapid.SampledFrom([]byte{0, 1, 0x7f, 0x80, 0xfc, 0xfd, 0xfe, 0xff}).Draw(t, "mutByte")
	case 2: // truncate
		out = out[:pos]
	case 3: // delete a span
		n := rapid.IntRange(1, 8).Draw(t, "mutDel")
		if pos+n > len(out) {
			n = len(out) - pos
		}
		out = append(out[:pos], out[pos+n:]...)
	case 4: // insert bytes
		ins := rapid.SliceOfN(rapid.Byte(), 1, 8).Draw(t, "mutIns")
		out = append(out[:pos], append(ins, out[pos:]...)...)
	case 5: // duplicate a span
		n := rapid.IntRange(1, 16).Draw(t, "mutDup")
		if pos+n > len(out) {
			n = len(out) - pos
		}
		span := append([]byte(nil), out[pos:pos+n]...)
		out = append(out[:pos], append(span, out[pos:]...)...)
	case 6: // overwrite with a hostile varint (replaces what is there)
		v := HostileVarUint().Draw(t, "mutVar")
		out = append(out[:pos], append(v, out[min(len(out), pos+1):]...)...)
	case 7: // random byte
		out[pos] = rapid.Byte().Draw(t, "mutRand")
	default: // append tail
		out = append(out, rapid.SliceOfN(rapid.Byte(), 1, 16).Draw(t, "mutTail")...)
	}
	return out
}

// MutateN applies 1..n mutations.
func MutateN(t *rapid.T, b []byte, n int) []byte {
	k := rapid.IntRange(1, n).Draw(t, "nMut")
	for i := 0; i < k; i++ {
		b = Mutate(t, b)
	}
	return b
}

// HostileAt replaces the bytes of a count/length field located at off (width
// w bytes in the valid encoding) by a hostile varint, keeps the prefix and
// appends 0..64 trailing bytes: the grammar-aware attack on a decoder that
// sizes an allocation from the wire.
func HostileAt(t *rapid.T, valid []byte, off, w int) []byte {
	if off > len(valid) {
		off = len(valid)
	}
	out := append([]byte(nil), valid[:off]...)
	out = append(out, HostileVarUint().Draw(t, "hostile")...)
	switch rapid.IntRange(0, 2).Draw(t, "hostTail") {
	case 0:
	case 1:
		if off+w <= len(valid) {
			out = append(out, valid[off+w:]...)
		}
	default:
		out = append(out, rapid.SliceOfN(rapid.Byte(), 0, 64).Draw(t, "hostTailBytes")...)
	}
	return out
}
