package gen

import (
	"fmt"
	"math"
	"reflect"
	"strings"

	"github.com/elastos/Elastos.ELA/common"
	"pgregory.net/rapid"
)

// byteRule says how a []byte field is filled.  The caps are the limits the
// corresponding decoder applies (construction beats rejection).
type byteRule struct {
	kind string // key | keyorcode | sig | code | data | raw
	max  int
}

// byteRules: "Type.Field" -> rule.  Anything not listed falls back to the
// name heuristics in ruleFor.
var byteRules = map[string]byteRule{
	"CoinBase.Content":                                     {"data", 1 << 20},
	"Record.Content":                                       {"data", 1 << 20},
	"SideChainPow.Signature":                               {"sig", 1 << 20},
	"ProducerInfo.OwnerKey":                                {"keyorcode", 34003},
	"ProducerInfo.NodePublicKey":                           {"key", 34003},
	"ProducerInfo.Signature":                               {"sig", 64},
	"ProcessProducer.OwnerKey":                             {"keyorcode", 34003},
	"ProcessProducer.Signature":                            {"sig", 64},
	"ActivateProducer.NodePublicKey":                       {"key", 33},
	"ActivateProducer.Signature":                           {"sig", 64},
	"DPOSProposal.Sponsor":                                 {"key", 33},
	"DPOSProposal.Sign":                                    {"sig", 64},
	"DPOSProposalVote.Signer":                              {"key", 33},
	"DPOSProposalVote.Sign":                                {"sig", 64},
	"ProposalEvidence.BlockHeader":                         {"data", 8000000},
	"BlockEvidence.Header":                                 {"data", 8000000},
	"BlockEvidence.BlockConfirm":                           {"data", 1000000},
	"BlockEvidence.Signers":                                {"key", 33},
	"SidechainIllegalData.IllegalSigner":                   {"key", 33},
	"SidechainIllegalData.Signs":                           {"sig", 64},
	"InactiveArbitrators.Sponsor":                          {"key", 33},
	"InactiveArbitrators.Arbitrators":                      {"key", 33},
	"CRInfo.Code":                                          {"code", 34003},
	"CRInfo.Signature":                                     {"sig", 64001},
	"UnregisterCR.Signature":                               {"sig", 64001},
	"CRCProposalReview.OpinionData":                        {"data", 1 << 20},
	"CRCProposalReview.Signature":                          {"sig", 64001},
	"CRCProposalTracking.MessageData":                      {"data", 800 * 1024},
	"CRCProposalTracking.OwnerKey":                         {"key", 35},
	"CRCProposalTracking.NewOwnerKey":                      {"key", 35},
	"CRCProposalTracking.OwnerSignature":                   {"sig", 64},
	"CRCProposalTracking.NewOwnerSignature":                {"sig", 64},
	"CRCProposalTracking.SecretaryGeneralOpinionData":      {"data", 200 * 1024},
	"CRCProposalTracking.SecretaryGeneralSignature":        {"sig", 64},
	"CRCProposalWithdraw.OwnerKey":                         {"key", 33},
	"CRCProposalWithdraw.Signature":                        {"sig", 64001},
	"CRCouncilMemberClaimNode.NodePublicKey":               {"key", 33},
	"CRCouncilMemberClaimNode.CRCouncilCommitteeSignature": {"sig", 64001},
	"NextTurnDPOSInfo.CRPublicKeys":                        {"key", 33},
	"NextTurnDPOSInfo.DPOSPublicKeys":                      {"key", 33},
	"NextTurnDPOSInfo.CompleteCRPublicKeys":                {"key", 33},
	"CRCProposal.OwnerKey":                                 {"key", 33},
	"CRCProposal.DraftData":                                {"data", 1 << 20},
	"CRCProposal.NewOwnerKey":                              {"key", 33},
	"CRCProposal.SecretaryGeneralPublicKey":                {"key", 33},
	"CRCProposal.Signature":                                {"sig", 64},
	"CRCProposal.NewOwnerSignature":                        {"sig", 64},
	"CRCProposal.SecretaryGeneraSignature":                 {"sig", 64},
	"CRCProposal.CRCouncilMemberSignature":                 {"sig", 64},
	"VotesWithLockTime.Candidate":                          {"keyorcode", 34003},
	"CreateNFT.TargetOwnerKey":                             {"keyorcode", 34003},
	"DPoSV2ClaimReward.Code":                               {"code", 34003},
	"DPoSV2ClaimReward.Signature":                          {"sig", 64001},
	"ReturnVotes.Code":                                     {"code", 34003},
	"ReturnVotes.Signature":                                {"sig", 64001},
	"RecordSponsor.Sponsor":                                {"key", 33},
	"WithdrawFromSideChain.Signers":                        {"raw", 1 << 20},
	"ReturnSideChainDepositCoin.Signers":                   {"raw", 1 << 20},
	"CandidateVotes.Candidate":                             {"keyorcode", 34003},
	"Mapping.OwnerKey":                                     {"keyorcode", 34003},
	"Mapping.SideProducerID":                               {"data", 256},
	"Mapping.Signature":                                    {"sig", 64},
	"CrossChainOutput.TargetData":                          {"data", 1024},
	"Withdraw.TargetData":                                  {"data", 1024},
	"Attribute.Data":                                       {"data", 16 << 20},
	"Program.Parameter":                                    {"data", 20000},
	"Program.Code":                                         {"code", 10000},
	"BtcTxIn.SignatureScript":                              {"data", 10000},
	"BtcTxOut.PkScript":                                    {"data", 10000},
	// p2p messages
	"FilterAdd.Data":     {"data", 520},
	"FilterLoad.Filter":  {"data", 36000},
	"FilterLoad.TxTypes": {"raw", 64},
	"TxFilterLoad.Data":  {"data", 50000},
	"DAddr.Cipher":       {"data", 256},
	"DAddr.Signature":    {"sig", 64},
	"MerkleBlock.Flags":  {"data", 1250},
	"MerkleProof.Flags":  {"data", 1250},
	"NetAddress.IP":      {"ip", 16},
	"ResetView.Sponsor":  {"key", 33},
	"ResetView.Sign":     {"sig", 64},
}

func ruleFor(typeName, field string) byteRule {
	if r, ok := byteRules[typeName+"."+field]; ok {
		return r
	}
	switch {
	case strings.Contains(field, "Sign") && !strings.Contains(field, "Signer"):
		return byteRule{"sig", 64}
	case strings.Contains(field, "Key") || field == "Sponsor" || strings.Contains(field, "Signer") || field == "Candidate":
		return byteRule{"key", 33}
	case field == "Code":
		return byteRule{"code", 10000}
	}
	return byteRule{"data", 48}
}

// Filler fills structs field by field through reflection.
type Filler struct {
	T        *rapid.T
	Ring     *Ring
	Budget   int // longest data field in bytes (default 300)
	MaxElems int // longest slice of non-byte elements (default 4)
	// MaxTopElems, if > 0, replaces MaxElems for slices that are not nested
	// inside another slice (to cross the 0xfd varint limit of a list count
	// without a combinatorial blow-up).
	MaxTopElems int
	sliceDepth  int
	// Hook, if set, is consulted first for every exported field: return true
	// when it filled the field itself.
	Hook func(f *Filler, typeName, field string, v reflect.Value) bool
}

// NewFiller returns a Filler with defaults; ring may be nil (FixedRing(6)).
func NewFiller(t *rapid.T, ring *Ring) *Filler {
	if ring == nil {
		ring = FixedRing(6)
	}
	return &Filler{T: t, Ring: ring, Budget: 300, MaxElems: 4}
}

var (
	tUint256 = reflect.TypeOf(common.Uint256{})
	tUint168 = reflect.TypeOf(common.Uint168{})
	tUint160 = reflect.TypeOf(common.Uint160{})
	tFixed64 = reflect.TypeOf(common.Fixed64(0))
)

// Fill fills every exported field of *ptr.
func (f *Filler) Fill(ptr any) {
	v := reflect.ValueOf(ptr)
	if v.Kind() != reflect.Ptr || v.IsNil() {
		panic("gen: Fill needs a non-nil pointer")
	}
	f.value(v.Elem(), v.Elem().Type().Name(), "")
}

func (f *Filler) value(v reflect.Value, owner, field string) {
	t := v.Type()
	switch t {
	case tUint256:
		u := Uint256().Draw(f.T, field)
		v.Set(reflect.ValueOf(u))
		return
	case tUint168:
		v.Set(reflect.ValueOf(f.Ring.Hash168(f.T)))
		return
	case tUint160:
		var u common.Uint160
		copy(u[:], rapid.SliceOfN(rapid.Byte(), 20, 20).Draw(f.T, field))
		v.Set(reflect.ValueOf(u))
		return
	case tFixed64:
		v.SetInt(int64(Fixed64().Draw(f.T, field)))
		return
	}
	switch v.Kind() {
	case reflect.Struct:
		name := t.Name()
		for i := 0; i < v.NumField(); i++ {
			sf := t.Field(i)
			if sf.PkgPath != "" { // unexported (hash caches etc.)
				continue
			}
			fv := v.Field(i)
			if f.Hook != nil && f.Hook(f, name, sf.Name, fv) {
				continue
			}
			f.value(fv, name, sf.Name)
		}
	case reflect.Ptr:
		if v.IsNil() {
			v.Set(reflect.New(t.Elem()))
		}
		f.value(v.Elem(), owner, field)
	case reflect.Slice:
		if t.Elem().Kind() == reflect.Uint8 {
			b := f.bytes(ruleFor(owner, field), field)
			nv := reflect.MakeSlice(t, len(b), len(b))
			if t.Elem() == reflect.TypeOf(byte(0)) {
				reflect.Copy(nv, reflect.ValueOf(b))
			} else { // named byte types ([]TxType ...)
				for i := range b {
					nv.Index(i).SetUint(uint64(b[i]))
				}
			}
			if b == nil {
				nv = reflect.Zero(t)
			}
			v.Set(nv)
			return
		}
		n := f.elems(field)
		nv := reflect.MakeSlice(t, n, n)
		f.sliceDepth++
		for i := 0; i < n; i++ {
			f.value(nv.Index(i), owner, field)
		}
		f.sliceDepth--
		v.Set(nv)
	case reflect.Array:
		if t.Elem().Kind() == reflect.Uint8 {
			b := rapid.SliceOfN(rapid.Byte(), v.Len(), v.Len()).Draw(f.T, field)
			reflect.Copy(v, reflect.ValueOf(b))
			return
		}
		for i := 0; i < v.Len(); i++ {
			f.value(v.Index(i), owner, field)
		}
	case reflect.String:
		v.SetString(f.text(owner, field))
	case reflect.Bool:
		v.SetBool(rapid.Bool().Draw(f.T, field))
	case reflect.Uint8:
		v.SetUint(uint64(f.small8(field)))
	case reflect.Uint16:
		v.SetUint(f.uintEdge(field, math.MaxUint16))
	case reflect.Uint32:
		v.SetUint(f.uintEdge(field, math.MaxUint32))
	case reflect.Uint64, reflect.Uint:
		v.SetUint(f.uintEdge(field, math.MaxUint64))
	case reflect.Int8:
		v.SetInt(int64(rapid.Int8().Draw(f.T, field)))
	case reflect.Int16:
		v.SetInt(int64(rapid.Int16().Draw(f.T, field)))
	case reflect.Int32:
		v.SetInt(int64(rapid.Int32().Draw(f.T, field)))
	case reflect.Int64:
		v.SetInt(rapid.Int64().Draw(f.T, field))
	case reflect.Int:
		// ints that travel as uint32 on the wire (auxpow indexes)
		v.SetInt(int64(f.uintEdge(field, math.MaxUint32)))
	case reflect.Interface, reflect.Map, reflect.Func, reflect.Chan:
		// left to the caller
	default:
		panic(fmt.Sprintf("gen: Fill: unsupported kind %s at %s.%s", v.Kind(), owner, field))
	}
}

func (f *Filler) elems(field string) int {
	max := f.MaxElems
	if f.sliceDepth == 0 && f.MaxTopElems > 0 {
		max = f.MaxTopElems
	}
	switch rapid.IntRange(0, 9).Draw(f.T, field+"#kind") {
	case 0:
		return 0
	case 1, 2, 3:
		return 1
	default:
		if max < 1 {
			return 0
		}
		return rapid.IntRange(1, max).Draw(f.T, field+"#n")
	}
}

func (f *Filler) small8(field string) uint8 {
	switch rapid.IntRange(0, 9).Draw(f.T, field+"#k") {
	case 0, 1, 2, 3, 4:
		return uint8(rapid.IntRange(0, 5).Draw(f.T, field))
	case 5:
		return rapid.SampledFrom([]uint8{0, 1, 0x7f, 0x80, 0xfc, 0xfd, 0xfe, 0xff}).Draw(f.T, field)
	default:
		return rapid.Uint8().Draw(f.T, field)
	}
}

func (f *Filler) uintEdge(field string, max uint64) uint64 {
	switch rapid.IntRange(0, 9).Draw(f.T, field+"#k") {
	case 0:
		return 0
	case 1:
		return max
	case 2:
		return rapid.SampledFrom([]uint64{1, 0xfc, 0xfd, 0xffff, 0x10000, max - 1, max / 2, max/2 + 1}).Draw(f.T, field) & max
	case 3, 4, 5, 6:
		return uint64(rapid.IntRange(0, 100000).Draw(f.T, field)) & max
	default:
		return rapid.Uint64().Draw(f.T, field) & max
	}
}

func (f *Filler) text(owner, field string) string {
	if rapid.IntRange(0, 39).Draw(f.T, field+"#long") == 0 {
		return string(DataBytes(16<<20, f.Budget).Draw(f.T, field))
	}
	return Text(40).Draw(f.T, field)
}

// PubKey draws a 33-byte compressed public key (mostly of the ring).
func (f *Filler) PubKey(label string) []byte {
	return f.bytes(byteRule{"key", 33}, label)
}

// Signature draws a 64-byte signature-shaped string (not valid for anything).
func (f *Filler) Signature(label string) []byte {
	return rapid.SliceOfN(rapid.Byte(), 64, 64).Draw(f.T, label)
}

func (f *Filler) bytes(r byteRule, field string) []byte {
	t := f.T
	clip := func(b []byte) []byte {
		if len(b) > r.max {
			return b[:r.max]
		}
		return b
	}
	switch r.kind {
	case "key":
		switch k := rapid.IntRange(0, 19).Draw(t, field+"#k"); {
		case k == 0:
			return nil
		case k == 1:
			return rapid.SliceOfN(rapid.Byte(), 0, min(r.max, 35)).Draw(t, field)
		case k <= 3:
			b := rapid.SliceOfN(rapid.Byte(), 33, 33).Draw(t, field)
			b[0] = 2 + b[0]&1
			return clip(b)
		default:
			return clip(append([]byte(nil), f.Ring.Pick(t, field).PK...))
		}
	case "keyorcode":
		switch k := rapid.IntRange(0, 19).Draw(t, field+"#k"); {
		case k == 0:
			return nil
		case k == 1:
			return rapid.SliceOfN(rapid.Byte(), 0, min(r.max, 80)).Draw(t, field)
		case k <= 5:
			c, _, _ := f.Ring.MultiSig(t)
			return clip(c)
		case k == 6:
			return clip(f.Ring.Pick(t, field).StandardCode())
		default:
			return clip(append([]byte(nil), f.Ring.Pick(t, field).PK...))
		}
	case "code":
		switch k := rapid.IntRange(0, 19).Draw(t, field+"#k"); {
		case k == 0:
			return nil
		case k == 1:
			return rapid.SliceOfN(rapid.Byte(), 0, min(r.max, 80)).Draw(t, field)
		case k <= 5:
			c, _, _ := f.Ring.MultiSig(t)
			return clip(c)
		case k == 6:
			return clip(f.Ring.Pick(t, field).SchnorrCode())
		default:
			return clip(f.Ring.Pick(t, field).StandardCode())
		}
	case "sig":
		switch k := rapid.IntRange(0, 19).Draw(t, field+"#k"); {
		case k == 0:
			return nil
		case k == 1:
			return rapid.SliceOfN(rapid.Byte(), 0, min(r.max, 64)).Draw(t, field)
		case k == 2 && r.max >= 65*3:
			// multi-signature parameter shape: n x (0x40 || 64 bytes)
			n := rapid.IntRange(1, 3).Draw(t, field+"#n")
			var b []byte
			for i := 0; i < n; i++ {
				b = append(b, 0x40)
				b = append(b, rapid.SliceOfN(rapid.Byte(), 64, 64).Draw(t, field)...)
			}
			return b
		default:
			return clip(rapid.SliceOfN(rapid.Byte(), 64, 64).Draw(t, field))
		}
	case "raw":
		return rapid.SliceOfN(rapid.Byte(), 0, 12).Draw(t, field)
	case "ip":
		if rapid.Bool().Draw(t, field+"#v4") {
			return rapid.SliceOfN(rapid.Byte(), 4, 4).Draw(t, field)
		}
		return rapid.SliceOfN(rapid.Byte(), 16, 16).Draw(t, field)
	default:
		return DataBytes(r.max, f.Budget).Draw(t, field)
	}
}
