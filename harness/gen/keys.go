package gen

import (
	"crypto/sha256"
	"encoding/binary"
	"math/big"
	"sync"

	"github.com/elastos/Elastos.ELA/common"
	"github.com/elastos/Elastos.ELA/core/contract"
	"github.com/elastos/Elastos.ELA/crypto"
	"pgregory.net/rapid"
)

// Key is a P-256 key pair derived deterministically from a seed.
type Key struct {
	Seed uint64
	Priv []byte            // big-endian scalar, 32 bytes
	Pub  *crypto.PublicKey // curve point
	PK   []byte            // 33-byte compressed encoding
}

var keyCache sync.Map // seed -> *Key

// KeyFromSeed derives a key pair from a 64-bit seed: the scalar is
// sha256("verif-key"||seed) reduced into [1, N-1].  No entropy source is used.
func KeyFromSeed(seed uint64) *Key {
	if k, ok := keyCache.Load(seed); ok {
		return k.(*Key)
	}
	var b [17]byte
	copy(b[:], "verif-key")
	binary.BigEndian.PutUint64(b[9:], seed)
	h := sha256.Sum256(b[:])
	return keyFromScalarBytes(seed, h[:])
}

// KeyFromScalar derives a key pair from 32 caller-supplied bytes (e.g. drawn
// with rapid).  The scalar is reduced into [1, N-1].
func KeyFromScalar(scalar []byte) *Key {
	return keyFromScalarBytes(0, scalar)
}

func keyFromScalarBytes(seed uint64, scalar []byte) *Key {
	n := crypto.DefaultParams.N
	d := new(big.Int).SetBytes(scalar)
	d.Mod(d, new(big.Int).Sub(n, big.NewInt(1)))
	d.Add(d, big.NewInt(1))
	priv := make([]byte, 32)
	d.FillBytes(priv)
	x, y := crypto.DefaultCurve.ScalarBaseMult(priv)
	pub := &crypto.PublicKey{X: x, Y: y}
	pk, err := pub.EncodePoint(true)
	if err != nil {
		panic("gen: EncodePoint: " + err.Error())
	}
	k := &Key{Seed: seed, Priv: priv, Pub: pub, PK: pk}
	if seed != 0 {
		keyCache.Store(seed, k)
	}
	return k
}

// Sign signs data with the node's own ECDSA routine (signature bytes are
// randomised by the Go runtime: verdicts must only depend on verification).
func (k *Key) Sign(data []byte) []byte {
	s, err := crypto.Sign(k.Priv, data)
	if err != nil {
		panic("gen: sign: " + err.Error())
	}
	return s
}

// StandardCode is the single-signature redeem script of the key.
func (k *Key) StandardCode() []byte {
	c, err := contract.CreateStandardRedeemScript(k.Pub)
	if err != nil {
		panic(err)
	}
	return c
}

// SchnorrCode is the schnorr redeem script of the key.
func (k *Key) SchnorrCode() []byte {
	c, err := contract.CreateSchnorrRedeemScript(k.Pub)
	if err != nil {
		panic(err)
	}
	return c
}

// AddrKind enumerates the address families the node knows.
type AddrKind int

const (
	AddrStandard   AddrKind = iota // prefix 0x21 'E'
	AddrMultiSig                   // prefix 0x12 '8'
	AddrCrossChain                 // prefix 0x4B 'X'
	AddrDeposit                    // prefix 0x1F 'D'
	AddrCRDID                      // prefix 0x67 'i'
	AddrStake                      // prefix 0x3f 'S'
	AddrSchnorr                    // prefix 0x21 with schnorr script
	numAddrKinds
)

func (a AddrKind) String() string {
	return [...]string{"standard", "multisig", "crosschain", "deposit", "crdid", "stake", "schnorr"}[a]
}

// Prefix returns the program-hash prefix byte of the family.
func (a AddrKind) Prefix() byte {
	switch a {
	case AddrStandard, AddrSchnorr:
		return byte(contract.PrefixStandard)
	case AddrMultiSig:
		return byte(contract.PrefixMultiSig)
	case AddrCrossChain:
		return byte(contract.PrefixCrossChain)
	case AddrDeposit:
		return byte(contract.PrefixDeposit)
	case AddrCRDID:
		return byte(contract.PrefixCRDID)
	default:
		return byte(contract.PrefixDPoSV2)
	}
}

// ProgramHash returns the program hash of code under the family's prefix.
func ProgramHash(kind AddrKind, code []byte) common.Uint168 {
	return *common.ToProgramHash(kind.Prefix(), code)
}

// StandardHash / DepositHash / StakeHash / CRDIDHash of a single key.
func (k *Key) StandardHash() common.Uint168 { return ProgramHash(AddrStandard, k.StandardCode()) }
func (k *Key) DepositHash() common.Uint168  { return ProgramHash(AddrDeposit, k.StandardCode()) }
func (k *Key) StakeHash() common.Uint168    { return ProgramHash(AddrStake, k.StandardCode()) }
func (k *Key) CRDIDHash() common.Uint168    { return ProgramHash(AddrCRDID, k.StandardCode()) }
func (k *Key) SchnorrHash() common.Uint168  { return ProgramHash(AddrSchnorr, k.SchnorrCode()) }

// Address is the base58 standard address of the key.
func (k *Key) Address() string {
	a, err := k.StandardHash().ToAddress()
	if err != nil {
		panic(err)
	}
	return a
}

// Ring is a small cast of keys shared by one generated case.
type Ring struct {
	Keys []*Key
}

// NewRing draws n distinct keys.
func NewRing(t *rapid.T, n int) *Ring {
	seeds := rapid.SliceOfNDistinct(rapid.Uint64Range(1, 1<<20), n, n, rapid.ID[uint64]).Draw(t, "keyseeds")
	r := &Ring{}
	for _, s := range seeds {
		r.Keys = append(r.Keys, KeyFromSeed(s))
	}
	return r
}

// FixedRing returns the ring of the first n seeds (1..n): cheap, cached.
func FixedRing(n int) *Ring {
	r := &Ring{}
	for i := 1; i <= n; i++ {
		r.Keys = append(r.Keys, KeyFromSeed(uint64(i)))
	}
	return r
}

// Pick draws one key of the ring.
func (r *Ring) Pick(t *rapid.T, label string) *Key {
	return r.Keys[rapid.IntRange(0, len(r.Keys)-1).Draw(t, label)]
}

// PickN draws n distinct keys (n is clipped to the ring size).
func (r *Ring) PickN(t *rapid.T, n int, label string) []*Key {
	if n > len(r.Keys) {
		n = len(r.Keys)
	}
	idx := rapid.SliceOfNDistinct(rapid.IntRange(0, len(r.Keys)-1), n, n, rapid.ID[int]).Draw(t, label)
	out := make([]*Key, n)
	for i, j := range idx {
		out[i] = r.Keys[j]
	}
	return out
}

// MultiSigCode builds the m-of-n redeem script over keys (sorted by the node).
func MultiSigCode(m int, keys []*Key) []byte {
	pubs := make([]*crypto.PublicKey, len(keys))
	for i, k := range keys {
		pubs[i] = k.Pub
	}
	c, err := contract.CreateMultiSigRedeemScript(m, pubs)
	if err != nil {
		panic("gen: multisig: " + err.Error())
	}
	return c
}

// MultiSig draws an m-of-n script with 2 <= n <= min(6, ring) keys.
func (r *Ring) MultiSig(t *rapid.T) (code []byte, m int, keys []*Key) {
	max := len(r.Keys)
	if max > 6 {
		max = 6
	}
	if max < 2 {
		max = 2
	}
	n := rapid.IntRange(2, max).Draw(t, "msN")
	keys = r.PickN(t, n, "msKeys")
	m = rapid.IntRange(1, len(keys)).Draw(t, "msM")
	return MultiSigCode(m, keys), m, keys
}

// Code draws a redeem script of the given family together with its program hash.
func (r *Ring) Code(t *rapid.T, kind AddrKind) ([]byte, common.Uint168) {
	switch kind {
	case AddrMultiSig:
		c, _, _ := r.MultiSig(t)
		return c, ProgramHash(kind, c)
	case AddrCrossChain:
		var g common.Uint256
		copy(g[:], rapid.SliceOfN(rapid.Byte(), 32, 32).Draw(t, "genesis"))
		c := contract.CreateCrossChainRedeemScript(g)
		return c, ProgramHash(kind, c)
	case AddrSchnorr:
		c := r.Pick(t, "key").SchnorrCode()
		return c, ProgramHash(kind, c)
	default:
		c := r.Pick(t, "key").StandardCode()
		return c, ProgramHash(kind, c)
	}
}

// Hash168 draws a program hash: mostly a real address of the ring (any
// family), sometimes arbitrary bytes under a valid prefix, rarely raw bytes.
func (r *Ring) Hash168(t *rapid.T) common.Uint168 {
	switch rapid.IntRange(0, 9).Draw(t, "h168kind") {
	case 0:
		var u common.Uint168
		copy(u[:], rapid.SliceOfN(rapid.Byte(), 21, 21).Draw(t, "h168raw"))
		return u
	case 1, 2:
		var u common.Uint168
		copy(u[:], rapid.SliceOfN(rapid.Byte(), 21, 21).Draw(t, "h168raw"))
		u[0] = AddrKind(rapid.IntRange(0, int(numAddrKinds)-1).Draw(t, "h168prefix")).Prefix()
		return u
	default:
		kind := AddrKind(rapid.IntRange(0, int(numAddrKinds)-1).Draw(t, "addrkind"))
		_, h := r.Code(t, kind)
		return h
	}
}
