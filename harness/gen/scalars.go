package gen

import (
	"encoding/binary"
	"math"

	"github.com/elastos/Elastos.ELA/common"
	"pgregory.net/rapid"
)

// ELA is 10^8 sela.
const ELA = 100000000

// fixed64Edges are the boundary amounts every amount generator is biased to.
var fixed64Edges = []int64{
	0, 1, 99, 100, 101, // MinTransactionFee +-1
	ELA, 10 * ELA, 5000 * ELA, 33000000 * ELA,
	1<<62 - 1, 1 << 62, 1<<62 + 1, math.MaxInt64, math.MaxInt64 - 1,
	-1, -100, math.MinInt64, math.MinInt64 + 1,
}

// Fixed64 draws an amount: boundary values, small values, or anything.
func Fixed64() *rapid.Generator[common.Fixed64] {
	return rapid.Custom(func(t *rapid.T) common.Fixed64 {
		switch rapid.IntRange(0, 9).Draw(t, "f64kind") {
		case 0, 1, 2:
			return common.Fixed64(rapid.SampledFrom(fixed64Edges).Draw(t, "f64edge"))
		case 3, 4, 5, 6:
			return common.Fixed64(rapid.Int64Range(1, 1000*ELA).Draw(t, "f64small"))
		case 7:
			return common.Fixed64(rapid.Int64Range(0, 20).Draw(t, "f64k")) * ELA
		default:
			return common.Fixed64(rapid.Int64().Draw(t, "f64any"))
		}
	})
}

// PositiveFixed64 draws an amount in [1, 2^62).
func PositiveFixed64() *rapid.Generator[common.Fixed64] {
	return rapid.Custom(func(t *rapid.T) common.Fixed64 {
		if rapid.IntRange(0, 3).Draw(t, "pf64kind") == 0 {
			return common.Fixed64(rapid.SampledFrom([]int64{1, 100, ELA, 1<<62 - 1}).Draw(t, "pf64edge"))
		}
		return common.Fixed64(rapid.Int64Range(1, 1000*ELA).Draw(t, "pf64"))
	})
}

// hostileCounts is the value set wire counts / lengths are biased to.
var hostileCounts = []uint64{
	0, 1, 2, 0xfc, 0xfd, 0xfe, 0xff, 0x100, 0xffff, 0x10000, 0x10001,
	1 << 20, 1<<24 - 1, 1 << 24, 1<<24 + 1, 1 << 25, 1 << 26, 1 << 28, 1 << 30, 1<<31 - 1, 1 << 31, 1<<32 - 1, 1 << 32, 1<<32 + 1,
	1 << 40, 1 << 48, 1 << 56, 1 << 62, 1<<63 - 1, 1 << 63, 1<<64 - 1,
	33, 64, 65, 10000, 10001, 20000, 34003, 34004, 64001, 64002, 1 << 16, 8000000, 8000001, 16 << 20, 16<<20 + 1, 32 << 20, 32<<20 + 1,
}

// HostileCount draws a count / length value biased to the boundaries decoders
// care about (varint discriminants, protocol caps, powers of two up to 2^64-1).
func HostileCount() *rapid.Generator[uint64] {
	return rapid.Custom(func(t *rapid.T) uint64 {
		switch rapid.IntRange(0, 4).Draw(t, "hckind") {
		case 0, 1, 2:
			return hostileCounts[UniformIndex(t, len(hostileCounts), "hcedge")]
		case 3:
			return uint64(rapid.IntRange(0, 300).Draw(t, "hcsmall"))
		default:
			return rapid.Uint64().Draw(t, "hcany")
		}
	})
}

// VarUint returns the canonical variable-length encoding of v (same format as
// common.WriteVarUint; written independently of it).
func VarUint(v uint64) []byte {
	switch {
	case v < 0xfd:
		return []byte{byte(v)}
	case v <= 0xffff:
		b := []byte{0xfd, 0, 0}
		binary.LittleEndian.PutUint16(b[1:], uint16(v))
		return b
	case v <= 0xffffffff:
		b := []byte{0xfe, 0, 0, 0, 0}
		binary.LittleEndian.PutUint32(b[1:], uint32(v))
		return b
	default:
		b := make([]byte, 9)
		b[0] = 0xff
		binary.LittleEndian.PutUint64(b[1:], v)
		return b
	}
}

// VarUintWidth encodes v with the given discriminant width (1, 3, 5 or 9
// bytes) whether or not that is canonical; ok is false if v does not fit.
func VarUintWidth(v uint64, width int) (b []byte, ok bool) {
	switch width {
	case 1:
		if v >= 0xfd {
			return nil, false
		}
		return []byte{byte(v)}, true
	case 3:
		if v > 0xffff {
			return nil, false
		}
		b = []byte{0xfd, 0, 0}
		binary.LittleEndian.PutUint16(b[1:], uint16(v))
		return b, true
	case 5:
		if v > 0xffffffff {
			return nil, false
		}
		b = []byte{0xfe, 0, 0, 0, 0}
		binary.LittleEndian.PutUint32(b[1:], uint32(v))
		return b, true
	default:
		b = make([]byte, 9)
		b[0] = 0xff
		binary.LittleEndian.PutUint64(b[1:], v)
		return b, true
	}
}

// HostileVarUint draws the bytes of a varint: a hostile value in canonical or
// (sometimes) non-canonical width.
func HostileVarUint() *rapid.Generator[[]byte] {
	return rapid.Custom(func(t *rapid.T) []byte {
		v := HostileCount().Draw(t, "hv")
		if rapid.IntRange(0, 5).Draw(t, "hvnoncanon") == 0 {
			w := rapid.SampledFrom([]int{3, 5, 9}).Draw(t, "hvwidth")
			if b, ok := VarUintWidth(v, w); ok {
				return b
			}
		}
		return VarUint(v)
	})
}

// Uint256 draws a 32-byte hash (sometimes all-zero / all-ones).
func Uint256() *rapid.Generator[common.Uint256] {
	return rapid.Custom(func(t *rapid.T) common.Uint256 {
		var u common.Uint256
		switch rapid.IntRange(0, 15).Draw(t, "u256kind") {
		case 0:
		case 1:
			for i := range u {
				u[i] = 0xff
			}
		default:
			copy(u[:], rapid.SliceOfN(rapid.Byte(), 32, 32).Draw(t, "u256"))
		}
		return u
	})
}

// Bytes draws a byte string with min <= len <= max.
func Bytes(min, max int) *rapid.Generator[[]byte] {
	return rapid.SliceOfN(rapid.Byte(), min, max)
}

// sizeEdges are lengths around the varint discriminants.
var sizeEdges = []int{0, 1, 0xfc, 0xfd, 0xfe, 0x100, 0xffff, 0x10000, 0x10001}

// DataBytes draws a byte string for a free-form data field whose decoder cap
// is max: mostly short, sometimes a length around a varint discriminant (if
// the cap and the budget allow it).  budget limits the largest length drawn.
func DataBytes(max, budget int) *rapid.Generator[[]byte] {
	return rapid.Custom(func(t *rapid.T) []byte {
		if max > budget {
			max = budget
		}
		k := rapid.IntRange(0, 19).Draw(t, "dbkind")
		switch {
		case k == 0:
			return nil
		case k == 1:
			var ok []int
			for _, e := range sizeEdges {
				if e <= max {
					ok = append(ok, e)
				}
			}
			ok = append(ok, max)
			n := rapid.SampledFrom(ok).Draw(t, "dbedge")
			// a long string is a cheap pattern, not n drawn bytes
			seed := rapid.Byte().Draw(t, "dbfill")
			b := make([]byte, n)
			for i := range b {
				b[i] = seed + byte(i*7)
			}
			return b
		default:
			m := max
			if m > 48 {
				m = 48
			}
			return rapid.SliceOfN(rapid.Byte(), 0, m).Draw(t, "db")
		}
	})
}

// Text draws a short printable string (sometimes empty, sometimes non-ASCII).
func Text(max int) *rapid.Generator[string] {
	return rapid.Custom(func(t *rapid.T) string {
		if max > 40 {
			max = 40
		}
		switch rapid.IntRange(0, 9).Draw(t, "txtkind") {
		case 0:
			return ""
		case 1:
			return string(rapid.SliceOfN(rapid.Byte(), 0, max).Draw(t, "txtraw"))
		default:
			return rapid.StringOfN(rapid.RuneFrom([]rune("abcdefghijklmnopqrstuvwxyzABCXYZ0123456789-_.:/ ")), 1, max, -1).Draw(t, "txt")
		}
	})
}

// UniformIndex draws an index in [0, n) uniformly.  rapid's integer and
// SampledFrom generators are deliberately biased towards small values and
// bounds, which starves the middle of a long table; single bits are unbiased.
func UniformIndex(t *rapid.T, n int, label string) int {
	if n <= 1 {
		return 0
	}
	v := 0
	for _, b := range rapid.SliceOfN(rapid.Bool(), 20, 20).Draw(t, label) {
		v <<= 1
		if b {
			v |= 1
		}
	}
	return v % n
}
