// Package gen holds the structured generators shared by the checks: a
// deterministic key ring, addresses, amount / varint generators, a
// reflection-driven payload filler and transaction / block builders.
//
// Every random choice is drawn from the *rapid.T handed in by the caller
// (never crypto/rand, math/rand or the clock), so that cases shrink and replay.
//
// The exported API is additive: other checks import it.
package gen

import (
	"sync"

	"github.com/elastos/Elastos.ELA/core/transaction"
	"github.com/elastos/Elastos.ELA/core/types/functions"
)

var initOnce sync.Once

// Init wires the global function pointers in core/types/functions the way
// main.go and the repo's own tests do.  Block.Deserialize and friends call
// functions.GetTransactionByBytes, which is nil until this ran.  Idempotent.
func Init() {
	initOnce.Do(ForceInit)
}

// ForceInit re-installs the function pointers unconditionally (use it at the
// top of a case when another component may have replaced them).
func ForceInit() {
	functions.GetTransactionByTxType = transaction.GetTransaction
	functions.GetTransactionByBytes = transaction.GetTransactionByBytes
	functions.CreateTransaction = transaction.CreateTransaction
	functions.GetTransactionParameters = transaction.GetTransactionparameters
}

func init() { Init() }
