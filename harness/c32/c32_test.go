// C32 - frozen addresses can neither spend nor receive.
//
// Layer (a): checkFrozenAddresses (through a verif-tagged shim) against the
// predicate of the statement: exhaustive position grid + random cases.
// Layer (c): the same predicate at the node's real entry
// BlockChain.CheckTransactionContext on a real chain.
// Layer (b): generated configuration files / command lines loaded through
// settings.SetupConfig: on mainnet the loaded list must be exactly the
// coordinated one (and behave so when fed to the helper).
package c32

import (
	"fmt"
	"strings"
	"testing"

	"github.com/elastos/Elastos.ELA/common"
	"github.com/elastos/Elastos.ELA/common/config"
	"github.com/elastos/Elastos.ELA/core"
	"github.com/elastos/Elastos.ELA/core/transaction"
	ctypes "github.com/elastos/Elastos.ELA/core/types/common"
	"github.com/elastos/Elastos.ELA/core/types/interfaces"
	"github.com/elastos/Elastos.ELA/core/types/outputpayload"
	elaerr "github.com/elastos/Elastos.ELA/errors"
	"pgregory.net/rapid"
	"verifharness/lib/polkit"
	"verifharness/lib/vk"
)

func TestMain(m *testing.M) { vk.Main(m, "C32") }

// ---------------------------------------------------------------------------
// cast of addresses

var cast []common.Uint168
var castAddr []string

func init() {
	prefixes := []byte{0x21, 0x21, 0x12, 0x4B, 0x1f, 0x67, 0x3f, 0x21}
	for i, p := range prefixes {
		cast = append(cast, polkit.Hash168(p, uint32(1000+i)))
	}
	// near misses of cast[0]: same code hash under another prefix, last byte changed
	n1 := cast[0]
	n1[0] = 0x12
	n2 := cast[0]
	n2[20] ^= 1
	n3 := cast[0]
	n3[1] ^= 0x80
	cast = append(cast, n1, n2, n3)
	for _, h := range cast {
		castAddr = append(castAddr, polkit.EncodeAddress(h))
	}
}

type entry struct {
	Who      int    `json:"address"` // index in cast
	Start    uint32 `json:"start"`
	Resolved bool   `json:"resolved"` // false: the address text did not decode, Sterilize left no program hash
}

type fcase struct {
	Type     byte    `json:"tx_type"`
	TypeName string  `json:"tx_type_name"`
	Frozen   []entry `json:"frozen"`
	Inputs   []int   `json:"input_owners"`
	Outputs  []int   `json:"output_receivers"`
	Height   uint32  `json:"height"`
}

func (c *fcase) key() []byte {
	return []byte(fmt.Sprintf("%d|%v|%v|%v|%d", c.Type, c.Frozen, c.Inputs, c.Outputs, c.Height))
}

func (c *fcase) fill() *fcase { c.TypeName = ctypes.TxType(c.Type).Name(); return c }

// predicate of the statement: some listed (resolvable) address whose start
// height has been reached owns a spent output or receives an output.
func mustReject(c *fcase) (bool, string) {
	for _, e := range c.Frozen {
		if !e.Resolved || c.Height < e.Start {
			continue
		}
		for _, o := range c.Inputs {
			if cast[o] == cast[e.Who] {
				return true, "spends-from-frozen"
			}
		}
	}
	for _, e := range c.Frozen {
		if !e.Resolved || c.Height < e.Start {
			continue
		}
		for _, o := range c.Outputs {
			if cast[o] == cast[e.Who] {
				return true, "pays-to-frozen"
			}
		}
	}
	return false, "untouched"
}

// touches: the transaction involves a listed address at all (then the verdict
// hinges on the height comparison): the non-triviality rule.
func touches(c *fcase) (bool, string) {
	in, out := false, false
	for _, e := range c.Frozen {
		if !e.Resolved {
			continue
		}
		for _, o := range c.Inputs {
			in = in || cast[o] == cast[e.Who]
		}
		for _, o := range c.Outputs {
			out = out || cast[o] == cast[e.Who]
		}
	}
	switch {
	case in && out:
		return true, "in+out"
	case in:
		return true, "in"
	case out:
		return true, "out"
	}
	return false, "none"
}

func frozenList(c *fcase) []config.FrozenAddress {
	var l []config.FrozenAddress
	for _, e := range c.Frozen {
		f := config.FrozenAddress{DisableStartHeight: e.Start}
		if e.Resolved {
			h := cast[e.Who]
			f.Address = castAddr[e.Who]
			f.ProgramHash = &h
		} else {
			f.Address = "not-an-address"
		}
		l = append(l, f)
	}
	return l
}

func buildRefs(c *fcase) map[*ctypes.Input]ctypes.Output {
	m := make(map[*ctypes.Input]ctypes.Output, len(c.Inputs))
	for i, o := range c.Inputs {
		in := &ctypes.Input{Previous: ctypes.OutPoint{Index: uint16(i)}}
		m[in] = ctypes.Output{AssetID: core.ELAAssetID, Value: 5, ProgramHash: cast[o]}
	}
	return m
}

func buildOutputs(c *fcase) []*ctypes.Output {
	var outs []*ctypes.Output
	for _, o := range c.Outputs {
		outs = append(outs, &ctypes.Output{AssetID: core.ELAAssetID, Value: 1, ProgramHash: cast[o],
			Type: ctypes.OTNone, Payload: &outputpayload.DefaultOutput{}})
	}
	return outs
}

func judge(t vk.TB, site string, c *fcase, got error) {
	rej, clause := mustReject(c)
	if rej && got == nil {
		vk.Report(t, "C32:"+site+":accepted:"+clause, "a frozen address is touched at/after its start height but the transaction passes", c.fill())
	}
	if !rej && got != nil {
		vk.Report(t, "C32:"+site+":rejected:"+clause, "no address frozen at this height is touched, code rejects: "+got.Error(), c.fill())
	}
}

func runHelper(t vk.TB, c *fcase, tx interfaces.Transaction) {
	refs := buildRefs(c)
	list := frozenList(c)
	var got error
	if p, v, fr := vk.Catch(func() {
		got = transaction.VerifC32CheckFrozenAddresses(tx, refs, c.Height, list)
	}); p {
		vk.Report(t, "C32:checkFrozenAddresses:panic:"+fr, fmt.Sprint(v), c.fill())
		return
	}
	judge(t, "checkFrozenAddresses", c, got)
}

func classify(c *fcase) (string, bool) {
	rej, clause := mustReject(c)
	tch, where := touches(c)
	cl := clause
	if !rej && tch {
		cl = "touched-before-start"
	}
	_ = where
	return cl, tch
}

// ---------------------------------------------------------------------------
// (a1) exhaustive position grid: one frozen address at every position

func TestPositionGrid(t *testing.T) {
	polkit.WireFunctions()
	shard, nshards := vk.Shard()
	types := polkit.TxTypes()
	if !vk.Thorough() {
		types = []ctypes.TxType{ctypes.TransferAsset, ctypes.WithdrawFromSideChain, ctypes.ReturnSideChainDepositCoin,
			ctypes.RegisterProducer, ctypes.TransferCrossChainAsset, ctypes.Voting, ctypes.CRCProposal, ctypes.Record}
	}
	starts := []uint32{0, 1, 100, polkit.MainNetFrozenStart, 0xFFFFFFFF}
	cells := 0
	for ti, ty := range types {
		if ty == ctypes.CoinBase || ti%nshards != shard {
			continue
		}
		for nIn := 0; nIn <= 6; nIn++ {
			for pIn := -1; pIn < nIn; pIn++ {
				for nOut := 0; nOut <= 6; nOut++ {
					for pOut := -1; pOut < nOut; pOut++ {
						ins := make([]int, nIn)
						outs := make([]int, nOut)
						for i := range ins {
							ins[i] = 1 + i%7 // anybody but cast[0]; includes near misses
							if i%3 == 2 {
								ins[i] = 8 + i%3
							}
						}
						for i := range outs {
							outs[i] = 1 + (i+3)%7
							if i%3 == 1 {
								outs[i] = 8 + i%3
							}
						}
						if pIn >= 0 {
							ins[pIn] = 0
						}
						if pOut >= 0 {
							outs[pOut] = 0
						}
						base := &fcase{Type: byte(ty), Inputs: ins, Outputs: outs}
						tx, err := polkit.NewTx(ty, 0, nil, buildOutputs(base), 0)
						if err != nil {
							t.Fatalf("harness: %v", err)
						}
						for _, st := range starts {
							for _, d := range []int64{-2, -1, 0, 1, 1000} {
								h := int64(st) + d
								if h < 0 || h > 0xFFFFFFFF {
									continue
								}
								c := &fcase{Type: byte(ty), Inputs: ins, Outputs: outs, Height: uint32(h),
									Frozen: []entry{{Who: 0, Start: st, Resolved: true}}}
								runHelper(t, c, tx)
								cl, nt := classify(c)
								vk.Case("grid/"+cl, nt, c.key(), func() any { return c.fill() })
								cells++
							}
						}
					}
				}
			}
		}
	}
	vk.Count("grid_cells", int64(cells))
}

// ---------------------------------------------------------------------------
// (a2) random cases

func genCase(t *rapid.T, minInputs int) *fcase {
	types := polkit.TxTypes()
	c := &fcase{}
	c.Type = byte(types[rapid.IntRange(0, len(types)-1).Draw(t, "type")])
	if ctypes.TxType(c.Type) == ctypes.CoinBase {
		c.Type = byte(ctypes.TransferAsset) // coinbase transactions are outside the statement
	}
	nf := rapid.IntRange(0, 4).Draw(t, "nfrozen")
	var anchors []uint32
	for i := 0; i < nf; i++ {
		e := entry{Who: rapid.IntRange(0, 4).Draw(t, "frozen-who"), Resolved: rapid.IntRange(0, 7).Draw(t, "frozen-resolved") != 0}
		e.Start = polkit.U32Around(t, "start", 100, polkit.MainNetFrozenStart, 0)
		if i > 0 && rapid.IntRange(0, 2).Draw(t, "same-start") == 0 {
			e.Start = c.Frozen[0].Start
		}
		anchors = append(anchors, e.Start)
		c.Frozen = append(c.Frozen, e)
	}
	nIn := rapid.IntRange(minInputs, 6).Draw(t, "nin")
	nOut := rapid.IntRange(0, 6).Draw(t, "nout")
	who := func(label string) int {
		if rapid.IntRange(0, 2).Draw(t, label+"-kind") == 0 && len(c.Frozen) > 0 {
			// aim at a listed address
			return c.Frozen[rapid.IntRange(0, len(c.Frozen)-1).Draw(t, label+"-frozen")].Who
		}
		return rapid.IntRange(0, len(cast)-1).Draw(t, label)
	}
	quiet := rapid.IntRange(0, 3).Draw(t, "quiet") == 0 // nobody in the list is touched, on purpose
	for i := 0; i < nIn; i++ {
		w := who("in")
		if quiet {
			w = 5 + w%6
		}
		c.Inputs = append(c.Inputs, w)
	}
	for i := 0; i < nOut; i++ {
		w := who("out")
		if quiet {
			w = 5 + w%6
		}
		c.Outputs = append(c.Outputs, w)
	}
	if len(anchors) == 0 {
		anchors = []uint32{0, 100}
	}
	c.Height = polkit.U32Around(t, "height", anchors...)
	return c
}

func TestFrozenRandom(t *testing.T) {
	polkit.WireFunctions()
	rapid.Check(t, func(t *rapid.T) {
		c := genCase(t, 0)
		tx, err := polkit.NewTx(ctypes.TxType(c.Type), byte(rapid.IntRange(0, 3).Draw(t, "payload-version")), nil, buildOutputs(c), 0)
		if err != nil {
			t.Fatalf("harness: %v", err)
		}
		runHelper(t, c, tx)
		cl, nt := classify(c)
		_, where := touches(c)
		vk.Case("random/"+cl+"/"+where, nt, c.key(), func() any { return c.fill() })
	})
}

// ---------------------------------------------------------------------------
// (c) the node's entry

func stageOf(err elaerr.ELAError) string {
	if err == nil {
		return "post:accepted"
	}
	switch err.Code() {
	case elaerr.ErrTxHeightVersion:
		return "pre:height-version"
	case elaerr.ErrTxDuplicate:
		return "pre:duplicate"
	case elaerr.ErrTxUnknownReferredTx:
		return "pre:unknown-reference"
	case elaerr.ErrTxInvalidInput:
		if in := err.InnerError(); in != nil {
			if strings.HasPrefix(in.Error(), "cannot use utxo from the frozen address") ||
				strings.HasPrefix(in.Error(), "cannot send to the frozen address") {
				return "policy"
			}
			if strings.Contains(in.Error(), "CrossChain UTXO") {
				return "pre:crosschain-policy" // C31's step runs first
			}
		}
	}
	return fmt.Sprintf("post:code-%d", int(err.Code()))
}

var fixture *polkit.Chain

func chain(t *testing.T) *polkit.Chain {
	if fixture == nil {
		c, err := polkit.NewChain()
		if err != nil {
			t.Fatalf("harness: chain fixture: %v", err)
		}
		fixture = c
		t.Cleanup(func() { fixture.Close(); fixture = nil })
	}
	return fixture
}

func TestFrozenContext(t *testing.T) {
	ch := chain(t)
	nonce := uint32(0)
	rapid.Check(t, func(t *rapid.T) {
		c := genCase(t, 1)
		coinbase := rapid.IntRange(0, 19).Draw(t, "coinbase") == 7
		if rapid.IntRange(0, 3).Draw(t, "era") != 1 {
			// on this parameter set most transaction types are only past their activation
			// heights around 2.2M: shift the whole case there (order relations are kept)
			shift := true
			for _, e := range c.Frozen {
				shift = shift && e.Start < 1<<31
			}
			if shift && c.Height < 1<<31 {
				for i := range c.Frozen {
					c.Frozen[i].Start += 2200000
				}
				c.Height += 2200000
			}
		}
		ch.ResetCache()
		ch.Params.FrozenAddresses = frozenList(c)
		ch.Params.CrossChainUTXOFreezeHeight = polkit.Disabled
		ch.Params.CrossChainUTXORestrictionHeight = polkit.Disabled
		if rapid.IntRange(0, 3).Draw(t, "c31-on") == 0 {
			ch.Params.CrossChainUTXOFreezeHeight = polkit.MainNetFreezeHeight
			ch.Params.CrossChainUTXORestrictionHeight = polkit.MainNetRestrictionHeight
		}
		nonce++
		var inputs []*ctypes.Input
		if coinbase {
			c.Type = byte(ctypes.CoinBase)
			c.Inputs = nil
			inputs = []*ctypes.Input{{Previous: ctypes.OutPoint{TxID: common.EmptyHash, Index: 0xffff}, Sequence: 0xffffffff}}
		} else {
			for _, o := range c.Inputs {
				inputs = append(inputs, ch.Spendable(ctypes.Output{Value: 1000, ProgramHash: cast[o]}))
			}
		}
		tx, err := polkit.NewTx(ctypes.TxType(c.Type), byte(rapid.IntRange(0, 2).Draw(t, "payload-version")), inputs, buildOutputs(c), nonce)
		if err != nil {
			t.Fatalf("harness: %v", err)
		}
		var cerr elaerr.ELAError
		panicked, _, frame := vk.Catch(func() {
			_ = tx.Hash() // the node has hashed every transaction it validates
			_, cerr = ch.Chain.CheckTransactionContext(c.Height, tx, 0, 0)
		})
		if panicked {
			// a crash of another step says nothing about this policy (C03's subject)
			vk.Class("context/inconclusive-panic:" + frame)
			vk.Case("context/inconclusive-panic", false, c.key(), nil)
			return
		}
		st := stageOf(cerr)
		if coinbase {
			// coinbase transactions are outside the statement; recorded only
			vk.Case("context/coinbase/"+st, false, c.key(), nil)
			return
		}
		rej, clause := mustReject(c)
		switch {
		case rej && strings.HasPrefix(st, "post"):
			vk.Report(t, "C32:CheckTransactionContext:accepted:"+clause,
				"a frozen address is touched at/after its start height but the context check went past the policy step ("+st+")", c.fill())
		case !rej && st == "policy":
			vk.Report(t, "C32:CheckTransactionContext:rejected:"+clause,
				"no address frozen at this height is touched, context check rejects with "+cerr.InnerError().Error(), c.fill())
		}
		cl, nt := classify(c)
		stc := st
		if i := strings.IndexByte(stc, ':'); i > 0 {
			stc = stc[:i]
		}
		vk.Case("context/"+cl+"/"+stc, nt && !strings.HasPrefix(st, "pre"), c.key(), func() any {
			return map[string]any{"case": c.fill(), "stage": st}
		})
	})
}

// ---------------------------------------------------------------------------
// (b) configuration

type loadedEntry struct {
	Address string `json:"address"`
	Start   uint32 `json:"start"`
	Hash    string `json:"program_hash"`
}

type cfgResult struct {
	Case      any           `json:"config"`
	ActiveNet string        `json:"loaded_active_net"`
	Class     string        `json:"net_class"`
	Magic     uint32        `json:"loaded_magic"`
	Identity  bool          `json:"mainnet_identity"`
	Frozen    []loadedEntry `json:"loaded_frozen"`
}

func isCoordinated(l []config.FrozenAddress) bool {
	want, _ := polkit.DecodeAddress(polkit.MainNetFrozenAddress)
	return len(l) == 1 && l[0].Address == polkit.MainNetFrozenAddress && l[0].DisableStartHeight == polkit.MainNetFrozenStart &&
		l[0].ProgramHash != nil && [21]byte(*l[0].ProgramHash) == want
}

func TestConfig(t *testing.T) {
	rapid.Check(t, func(t *rapid.T) {
		cc := polkit.GenConfig(t)
		cfg, err := polkit.RunSetupConfig(cc.Run)
		if err != nil {
			vk.Case("config/rejected-by-node", false, cc.Key(), nil)
			vk.Note("config_rejected_example", err.Error())
			return
		}
		cls := polkit.ClassifyNet(cfg.ActiveNet)
		identity := polkit.MainNetIdentity(cfg)
		res := &cfgResult{Case: cc.Render(), ActiveNet: cfg.ActiveNet, Class: string(cls), Magic: cfg.Magic, Identity: identity}
		for _, f := range cfg.FrozenAddresses {
			e := loadedEntry{Address: f.Address, Start: f.DisableStartHeight}
			if f.ProgramHash != nil {
				e.Hash = vk.Hex(f.ProgramHash[:])
			}
			res.Frozen = append(res.Frozen, e)
		}
		wantMain := cls == polkit.NetMain || (cls == polkit.NetUnknown && identity)
		class := string(cls)
		if cls == polkit.NetUnknown {
			if identity {
				class += "+mainnet-identity"
			} else {
				class += "+private-identity"
			}
		}
		overridden := cc.OverridesFrozen && !cc.Malformed && !cc.NoFile
		if overridden {
			class += "/list-overridden"
		}
		sig, detail := "", ""
		if wantMain && !isCoordinated(cfg.FrozenAddresses) {
			if cls == polkit.NetMain {
				sig = "C32:SetupConfig:mainnet-name:list-not-the-coordinated-one"
			} else {
				sig = "C32:SetupConfig:unknown-activenet-with-mainnet-identity:list-not-enforced"
			}
			detail = fmt.Sprintf("loaded list %+v", res.Frozen)
		}
		if sig == "" {
			// the node reads its parameters through three handles: the returned value, config.Parameters, config.DefaultParams
			for name, v := range map[string]*config.Configuration{"config.Parameters": config.Parameters, "config.DefaultParams": &config.DefaultParams} {
				if v == nil || fmt.Sprintf("%+v", v.FrozenAddresses) != fmt.Sprintf("%+v", cfg.FrozenAddresses) {
					sig = "C32:SetupConfig:" + name + ":differs-from-returned-configuration"
					detail = fmt.Sprintf("%+v vs %+v", v, cfg.FrozenAddresses)
				}
			}
		}
		if sig == "" {
			// every resolved entry must freeze the address it names
			for _, f := range cfg.FrozenAddresses {
				if f.ProgramHash == nil {
					continue
				}
				if h, ok := polkit.DecodeAddress(f.Address); !ok || h != [21]byte(*f.ProgramHash) {
					sig = "C32:Sterilize:program-hash-does-not-match-address"
					detail = fmt.Sprintf("%s resolved to %x", f.Address, f.ProgramHash[:])
				}
			}
		}
		if sig == "" {
			sig, detail = probeLoaded(cfg.FrozenAddresses, wantMain)
		}
		vk.Case("config/"+class, overridden, cc.Key(), func() any { return res })
		if sig != "" {
			vk.Report(t, sig, detail, res)
		}
	})
}

// probeLoaded feeds the loaded list to the helper.
func probeLoaded(list []config.FrozenAddress, enforced bool) (string, string) {
	polkit.WireFunctions()
	mk := func(addr string) common.Uint168 {
		h, _ := polkit.DecodeAddress(addr)
		return common.Uint168(h)
	}
	spend := func(addr string, h uint32) (err error, frame string) {
		tx, _ := polkit.NewTx(ctypes.TransferAsset, 0, nil, []*ctypes.Output{{ProgramHash: polkit.Hash168(0x21, 1)}}, 0)
		refs := map[*ctypes.Input]ctypes.Output{{}: {ProgramHash: mk(addr)}}
		if p, v, fr := vk.Catch(func() { err = transaction.VerifC32CheckFrozenAddresses(tx, refs, h, list) }); p {
			return fmt.Errorf("%v", v), fr
		}
		return err, ""
	}
	pay := func(addr string, h uint32) (err error, frame string) {
		tx, _ := polkit.NewTx(ctypes.TransferAsset, 0, nil, []*ctypes.Output{{ProgramHash: mk(addr)}}, 0)
		refs := map[*ctypes.Input]ctypes.Output{{}: {ProgramHash: polkit.Hash168(0x21, 1)}}
		if p, v, fr := vk.Catch(func() { err = transaction.VerifC32CheckFrozenAddresses(tx, refs, h, list) }); p {
			return fmt.Errorf("%v", v), fr
		}
		return err, ""
	}
	type probe struct {
		name   string
		f      func(string, uint32) (error, string)
		addr   string
		h      uint32
		reject bool
	}
	var ps []probe
	for _, a := range polkit.ValidAddresses {
		// whatever the list is, nothing may crash
		ps = append(ps, probe{"spend-any", spend, a, 0xFFFFFFFE, false}, probe{"pay-any", pay, a, 0, false})
	}
	crashOnly := len(ps)
	if enforced {
		ps = append(ps,
			probe{"spend-frozen-before", spend, polkit.MainNetFrozenAddress, polkit.MainNetFrozenStart - 1, false},
			probe{"pay-frozen-before", pay, polkit.MainNetFrozenAddress, polkit.MainNetFrozenStart - 1, false},
			probe{"spend-frozen-at", spend, polkit.MainNetFrozenAddress, polkit.MainNetFrozenStart, true},
			probe{"pay-frozen-at", pay, polkit.MainNetFrozenAddress, polkit.MainNetFrozenStart, true},
			probe{"spend-frozen-late", spend, polkit.MainNetFrozenAddress, 0xFFFFFFFE, true},
		)
		for _, a := range polkit.ValidAddresses[1:] {
			// the coordinated list freezes nobody else, whatever the file added
			ps = append(ps, probe{"spend-other", spend, a, 0xFFFFFFFE, false}, probe{"pay-other", pay, a, 0xFFFFFFFE, false})
		}
	}
	for i, p := range ps {
		err, frame := p.f(p.addr, p.h)
		if frame != "" {
			return "C32:checkFrozenAddresses:panic:" + frame, fmt.Sprintf("loaded list, probe %s %s at %d: %v", p.name, p.addr, p.h, err)
		}
		if i < crashOnly {
			continue
		}
		if (err != nil) != p.reject {
			return fmt.Sprintf("C32:SetupConfig+policy:%s:reject-%v", p.name, p.reject),
				fmt.Sprintf("probe %s %s at height %d: got %v", p.name, p.addr, p.h, err)
		}
	}
	return "", ""
}
