package c32

// Layer (d): acceptance by the running node.  A small real chain (mini-node) is
// mined to a tip around the start height of a frozen address; fully signed,
// otherwise valid transfers that spend from it, pay to it, or do not touch it
// are offered to the REAL mempool.TxPool.AppendToTxPool and then mined alone
// into block tip+1 through the REAL BlockChain.ProcessBlock.  Oracle: the
// statement's predicate at height tip+1 (the first block that could hold the
// transaction), both directions.

import (
	"fmt"
	"strings"
	"testing"

	"github.com/elastos/Elastos.ELA/common/config"
	"github.com/elastos/Elastos.ELA/core/types"
	ctypes "github.com/elastos/Elastos.ELA/core/types/common"
	"github.com/elastos/Elastos.ELA/core/types/interfaces"
	"pgregory.net/rapid"
	"verifharness/lib/polkit"
	"verifharness/lib/vk"
	"verifharness/node"
)

type poolCase struct {
	Start uint32   `json:"frozen_start"`
	Tip   uint32   `json:"tip"`
	Ops   []string `json:"ops"`
}

func frozenMessage(err error) bool {
	return err != nil && strings.Contains(err.Error(), "frozen address")
}

func shortErr(s string) string {
	if i := strings.Index(s, "hash"); i > 0 {
		s = s[:i]
	}
	if len(s) > 70 {
		s = s[:70]
	}
	return s
}

func TestFrozenMempool(t *testing.T) {
	const ela = 100000000
	rapid.Check(t, func(t *rapid.T) {
		pc := &poolCase{}
		pc.Start = uint32(rapid.IntRange(5, 8).Draw(t, "start"))
		pc.Tip = uint32(int(pc.Start) + rapid.SampledFrom([]int{-3, -2, -2, -1, -1, 0, 1}).Draw(t, "tip-offset"))
		// Keys[1] is the frozen address; a second, never-reached entry and an unresolvable one ride along
		n, err := node.New(node.Opts{Tweak: func(p *config.Configuration) {
			p.CrossChainUTXOFreezeHeight = polkit.Disabled
			p.CrossChainUTXORestrictionHeight = polkit.Disabled
			k1 := node.DeterministicKey(1)
			k4 := node.DeterministicKey(4)
			p.FrozenAddresses = []config.FrozenAddress{
				{Address: "not-an-address", DisableStartHeight: 0},
				{Address: k4.Address, DisableStartHeight: 1000000},
				{Address: k1.Address, DisableStartHeight: pc.Start},
			}
		}})
		if err != nil {
			t.Fatalf("harness: node: %v", err)
		}
		defer n.Close()
		frozen := n.Keys[1].ProgramHash
		if h, ok := polkit.DecodeAddress(n.Keys[1].Address); !ok || h != [21]byte(frozen) {
			t.Fatalf("harness: address codec disagrees with the key ring")
		}
		resolved := false
		for _, f := range n.Params.FrozenAddresses {
			if f.ProgramHash != nil && f.ProgramHash.IsEqual(frozen) {
				resolved = true
			}
		}
		if !resolved {
			t.Fatalf("harness: frozen entry not resolved by Sterilize")
		}

		b1, err := n.BuildBlock(node.BlockSpec{Parent: n.Genesis, Salt: 1})
		if err != nil {
			t.Fatalf("harness: block 1: %v", err)
		}
		if in, _, err := n.Process(b1); err != nil || !in {
			t.Fatalf("harness: block 1: %v %v", in, err)
		}
		u, _ := node.Replay([]*types.Block{n.Genesis, b1}, n.KeyIndexOf)
		coins := u.Spendable(2, n.Params.PowConfiguration.CoinbaseMaturity)
		if len(coins) == 0 {
			t.Fatalf("harness: no spendable coin")
		}
		c0 := coins[0]
		// block 2 (before every start height): 4 coins to the later-frozen address, 4 to Keys[2], 4 to Keys[4]
		const per = 4
		var outs []node.Out
		for _, k := range []int{1, 2, 4} {
			for i := 0; i < per; i++ {
				outs = append(outs, node.Out{To: n.Keys[k].ProgramHash, Value: 10 * ela})
			}
		}
		outs = append(outs, node.Out{To: n.Keys[0].ProgramHash, Value: c0.Value - 3*per*10*ela - 1000})
		fund, err := n.Transfer([]node.Coin{c0}, outs, 2)
		if err != nil {
			t.Fatalf("harness: fund: %v", err)
		}
		fb, err := n.BuildBlock(node.BlockSpec{Parent: b1, Txs: []interfaces.Transaction{fund}, Fees: 1000, Salt: 2})
		if err != nil {
			t.Fatalf("harness: funding block: %v", err)
		}
		if in, _, err := n.Process(fb); err != nil || !in {
			t.Fatalf("harness: funding block refused: %v %v", in, err)
		}
		tipBlock := fb
		for h := uint32(3); h <= pc.Tip; h++ {
			b, err := n.BuildBlock(node.BlockSpec{Parent: tipBlock, Salt: uint64(h)})
			if err != nil {
				t.Fatalf("harness: block %d: %v", h, err)
			}
			if in, _, err := n.Process(b); err != nil || !in {
				t.Fatalf("harness: empty block %d refused: %v %v", h, in, err)
			}
			tipBlock = b
		}
		if n.Chain.GetHeight() != pc.Tip {
			t.Fatalf("harness: tip %d want %d", n.Chain.GetHeight(), pc.Tip)
		}
		fid := fund.Hash()
		next := map[int]int{}
		slot := map[int]int{1: 0, 2: 1, 4: 2}
		coinOf := func(k int) node.Coin {
			i := next[k]
			next[k]++
			return node.Coin{Op: ctypes.OutPoint{TxID: fid, Index: uint16(slot[k]*per + i)}, Value: 10 * ela,
				Owner: n.Keys[k].ProgramHash, KeyIdx: k, Height: 2}
		}
		h := pc.Tip + 1
		type cand struct {
			name    string
			tx      interfaces.Transaction
			touches bool
			clause  string
		}
		mk := func(kind int) *cand {
			var c *cand
			var cs []node.Coin
			var to []node.Out
			switch kind {
			case 0: // spends from the frozen address
				cs = []node.Coin{coinOf(1)}
				to = []node.Out{{To: n.Keys[3].ProgramHash, Value: 10*ela - 100}}
				c = &cand{name: "spend-from-frozen", touches: true, clause: "spends-from-frozen"}
			case 1: // frozen address among several inputs
				cs = []node.Coin{coinOf(2), coinOf(1)}
				to = []node.Out{{To: n.Keys[3].ProgramHash, Value: 20*ela - 100}}
				c = &cand{name: "spend-from-frozen+other", touches: true, clause: "spends-from-frozen"}
			case 2: // pays to the frozen address (second output)
				cs = []node.Coin{coinOf(2)}
				to = []node.Out{{To: n.Keys[3].ProgramHash, Value: 4 * ela}, {To: n.Keys[1].ProgramHash, Value: 6*ela - 100}}
				c = &cand{name: "pay-to-frozen", touches: true, clause: "pays-to-frozen"}
			case 3: // touches only the entry whose start height is far away
				cs = []node.Coin{coinOf(4)}
				to = []node.Out{{To: n.Keys[4].ProgramHash, Value: 10*ela - 100}}
				c = &cand{name: "later-frozen-address", touches: false, clause: "untouched"}
			default:
				cs = []node.Coin{coinOf(2)}
				to = []node.Out{{To: n.Keys[3].ProgramHash, Value: 10*ela - 100}}
				c = &cand{name: "unrelated", touches: false, clause: "untouched"}
			}
			tx, err := n.Transfer(cs, to, h)
			if err != nil {
				t.Fatalf("harness: transfer: %v", err)
			}
			c.tx = tx
			return c
		}
		nc := rapid.IntRange(1, 3).Draw(t, "ncand")
		var cands []*cand
		for i := 0; i < nc; i++ {
			cands = append(cands, mk(rapid.IntRange(0, 4).Draw(t, "kind")))
		}
		nontrivial := false
		judge := func(site string, c *cand, accepted bool, e error) {
			reject := c.touches && h >= pc.Start
			clause := c.clause
			if c.touches && !reject {
				clause = "touched-before-start"
			}
			switch {
			case accepted && reject:
				vk.Report(t, "C32:"+site+":accepted:"+clause,
					fmt.Sprintf("%s accepted at tip %d; the first block that can hold it has height %d, frozen from %d", c.name, pc.Tip, h, pc.Start), pc)
			case !accepted && !reject && frozenMessage(e):
				vk.Report(t, "C32:"+site+":rejected:"+clause,
					fmt.Sprintf("%s refused at tip %d with %v although nothing is frozen at height %d (start %d)", c.name, pc.Tip, e, h, pc.Start), pc)
			case !accepted && !reject:
				vk.Class(site + "/allowed-but-refused-for-another-reason/" + c.name + "/" + shortErr(fmt.Sprint(e)))
			}
			st := "refused"
			if accepted {
				st = "accepted"
			}
			vk.Class(site + "/" + clause + "/" + c.name + "/" + st)
		}
		for _, c := range cands {
			nontrivial = nontrivial || c.touches
			perr := n.Pool.AppendToTxPool(c.tx)
			var e error
			if perr != nil {
				e = fmt.Errorf("%v", perr)
			}
			pc.Ops = append(pc.Ops, fmt.Sprintf("AppendToTxPool(%s) at tip %d -> %v", c.name, pc.Tip, e))
			judge("AppendToTxPool", c, e == nil, e)
		}
		c := cands[rapid.IntRange(0, len(cands)-1).Draw(t, "blockcand")]
		blk, err := n.BuildBlock(node.BlockSpec{Parent: tipBlock, Txs: []interfaces.Transaction{c.tx}, Fees: 100, Salt: 99})
		if err != nil {
			t.Fatalf("harness: candidate block: %v", err)
		}
		in, _, berr := n.Process(blk)
		pc.Ops = append(pc.Ops, fmt.Sprintf("ProcessBlock(height %d with %s) -> main=%v err=%v", h, c.name, in, berr))
		judge("ProcessBlock", c, berr == nil && in, berr)
		vk.Case("mempool-case", nontrivial, []byte(fmt.Sprint(pc.Start, pc.Tip, pc.Ops)), func() any { return pc })
	})
}
