// C40 - validation, state queries and block processing are safe under concurrency.
//
// Built with -race.  Each case prepares, single-threaded, a scenario on the
// mini-node (future blocks, a longer fork, mempool transactions), then runs
// operation kinds X and Y (pairwise matrix) or a random mix of 3-6 kinds in
// goroutines with no synchronisation but start/join.  Oracles:
//   - Go race detector reports (parsed by vk after the run; signature = the top
//     in-repo function of the two access stacks),
//   - no panic in any operation (signature = top in-repo frame),
//   - interval consistency of queries against a model computed in advance,
//   - quiescent consistency after join (pool vs chain, chain vs model).
package c40

import (
	"encoding/json"
	"fmt"
	"sort"
	"strings"
	"sync"
	"testing"

	"github.com/elastos/Elastos.ELA/common"
	"github.com/elastos/Elastos.ELA/core/types"
	"github.com/elastos/Elastos.ELA/core/types/interfaces"
	"github.com/elastos/Elastos.ELA/servers"
	serrors "github.com/elastos/Elastos.ELA/servers/errors"
	"pgregory.net/rapid"
	"verifharness/lib/vk"
	"verifharness/node"
)

// The tests run outside package testing (vk.MainStandalone): testing would mark
// every test as failed as soon as the race detector fires, even for races that
// are listed known findings; the reports are judged by vk instead.
func TestMain(m *testing.M) {
	vk.MainStandalone(m, "C40", map[string]func(t *vk.STB){
		"TestPairMatrix": pairMatrix,
		"TestMixes":      mixes,
		"TestStateMix":   stateMix,
	})
}

// operation kinds
const (
	opBlocks   = "processBlocks" // connect prepared main-chain blocks one by one
	opReorg    = "reorg"         // deliver a longer fork (detach+attach)
	opPool     = "poolAdmit"     // mempool admission = full sanity+context validation (RPC / peer path)
	opGenerate = "generateBlock" // miner template: context-validates every pooled tx
	opChainQ   = "chainQueries"  // RPC: getblockcount/getbestblockhash/getblockbyheight/getrawtransaction
	opUtxoQ    = "utxoQueries"   // RPC: listunspent/getbalance/getreceivedbyaddress
	opStateQ   = "stateQueries"  // RPC: listproducers/getarbitersinfo/listcurrentcrs/... (DPoS + CR state)
	opPoolQ    = "poolQueries"   // RPC: getrawmempool + pool getters
)

var allOps = []string{opBlocks, opReorg, opPool, opGenerate, opChainQ, opUtxoQ, opStateQ, opPoolQ}

type scenario struct {
	n         *node.Node
	baseH     uint32
	main      []*types.Block // prepared blocks extending the tip
	fork      []*types.Block // prepared fork from an ancestor, longer than base (+main if delivered alone)
	forkBase  uint32
	compressed bool
	maxDetach int // blocks a reorg to the fork may have to detach (fork depth + prepared main blocks)
	poolTxs   []interfaces.Transaction
	balances  map[int][]common.Fixed64 // key index -> balance after height baseH+i on the main line (i=0..len(main))
	forkBal   map[int]common.Fixed64   // balances at fork tip
	desc      []string
	mu        sync.Mutex
	problems  []problem
}

type problem struct{ sig, detail string }

func (s *scenario) fail(sig, detail string) {
	s.mu.Lock()
	s.problems = append(s.problems, problem{sig, detail})
	s.mu.Unlock()
}

func balancesOf(u node.UTXOSet, nkeys int) map[int]common.Fixed64 {
	out := map[int]common.Fixed64{}
	for _, c := range u {
		if c.KeyIdx >= 0 {
			out[c.KeyIdx] += c.Value
		}
	}
	return out
}

// prepare builds the scenario single-threaded (all randomness from rapid).
func prepare(t *rapid.T) *scenario {
	// profile: legacy (pure PoW era) or compressed (CRC-only DPoS era from height 8: the
	// arbiter/committee state is rewritten by every block, so state queries race with real writes)
	compressed := rapid.Bool().Draw(t, "compressed")
	opts := node.Opts{}
	if compressed {
		opts.Tweak = node.Compressed(node.Heights{VoteStart: 2, CRCOnlyDPOS: 8})
	}
	n, err := node.New(opts)
	if err != nil {
		t.Fatalf("harness: node.New: %v", err)
	}
	s := &scenario{n: n, balances: map[int][]common.Fixed64{}}
	servers.Chain, servers.Store, servers.TxMemPool = n.Chain, n.Store, n.Pool
	servers.Arbiters, servers.ChainParams, servers.Pow = n.Arbiters, n.Params, n.Pow

	// base chain: 4-8 blocks mined by different keys so several keys own coins
	tip := n.Genesis
	nb := rapid.IntRange(4, 8).Draw(t, "base")
	if compressed {
		nb += 8
	}
	var chain []*types.Block
	chain = append(chain, tip)
	for i := 0; i < nb; i++ {
		b, err := n.BuildBlock(node.BlockSpec{Parent: tip, MinerKey: i % len(n.Keys), Salt: uint64(i)})
		if err != nil {
			t.Fatalf("harness: build base: %v", err)
		}
		if in, _, err := n.Process(b); err != nil || !in {
			t.Fatalf("harness: base block rejected: %v", err)
		}
		tip = b
		chain = append(chain, b)
	}
	s.baseH = tip.Height
	u, err := node.Replay(chain, n.KeyIndexOf)
	if err != nil {
		t.Fatalf("harness: replay: %v", err)
	}
	record := func(u node.UTXOSet) {
		bal := balancesOf(u, len(n.Keys))
		for k := range n.Keys {
			s.balances[k] = append(s.balances[k], bal[k])
		}
	}
	record(u)

	// prepared main blocks with transfers (no in-block chaining)
	nm := rapid.IntRange(2, 5).Draw(t, "nmain")
	used := map[string]bool{}
	mu := u.Clone()
	mtip := tip
	var conflictCoins []node.Coin
	for i := 0; i < nm; i++ {
		coins := mu.Spendable(mtip.Height+1, n.Params.PowConfiguration.CoinbaseMaturity)
		ntx := rapid.IntRange(0, 2).Draw(t, "ntx")
		var txs []interfaces.Transaction
		var fees common.Fixed64
		for j := 0; j < ntx && len(coins) > 0; j++ {
			ci := rapid.IntRange(0, len(coins)-1).Draw(t, "coin")
			c := coins[ci]
			coins = append(coins[:ci], coins[ci+1:]...)
			if c.Value < 1000 || used[c.Op.ReferKey()] {
				continue
			}
			used[c.Op.ReferKey()] = true
			fee := common.Fixed64(rapid.IntRange(100, 500).Draw(t, "fee"))
			to := rapid.IntRange(0, len(n.Keys)-1).Draw(t, "to")
			half := c.Value / 2
			tx, err := n.Transfer([]node.Coin{c}, []node.Out{{To: n.Keys[to].ProgramHash, Value: half}, {To: c.Owner, Value: c.Value - half - fee}}, mtip.Height+1)
			if err != nil {
				t.Fatalf("harness: transfer: %v", err)
			}
			txs = append(txs, tx)
			fees += fee
			conflictCoins = append(conflictCoins, c)
		}
		b, err := n.BuildBlock(node.BlockSpec{Parent: mtip, Txs: txs, Fees: fees, MinerKey: rapid.IntRange(0, len(n.Keys)-1).Draw(t, "miner"), Salt: uint64(100 + i)})
		if err != nil {
			t.Fatalf("harness: build main: %v", err)
		}
		if err := mu.Apply(b, n.KeyIndexOf); err != nil {
			t.Fatalf("harness: model rejects own block: %v", err)
		}
		record(mu)
		s.main = append(s.main, b)
		mtip = b
	}

	// fork from an ancestor of the base tip, long enough to beat base+main
	back := rapid.IntRange(1, 3).Draw(t, "forkBack")
	if back > nb {
		back = nb
	}
	fbase := chain[len(chain)-1-back]
	s.forkBase = fbase.Height
	flen := back + nm + 1
	ftip := fbase
	fu, _ := node.Replay(chain[:len(chain)-back], n.KeyIndexOf)
	for i := 0; i < flen; i++ {
		b, err := n.BuildBlock(node.BlockSpec{Parent: ftip, MinerKey: (i + 1) % len(n.Keys), Salt: uint64(1000 + i)})
		if err != nil {
			t.Fatalf("harness: build fork: %v", err)
		}
		_ = fu.Apply(b, n.KeyIndexOf)
		s.fork = append(s.fork, b)
		ftip = b
	}
	s.forkBal = balancesOf(fu, len(n.Keys))
	s.compressed = compressed
	s.maxDetach = back + nm

	// mempool transactions: independent spends of base coins + conflicts with prepared block txs
	coins := u.Spendable(tip.Height+1, n.Params.PowConfiguration.CoinbaseMaturity)
	np := rapid.IntRange(2, 6).Draw(t, "npool")
	for j := 0; j < np; j++ {
		var c node.Coin
		conflict := len(conflictCoins) > 0 && rapid.IntRange(0, 2).Draw(t, "conflict") == 0
		if conflict {
			c = conflictCoins[rapid.IntRange(0, len(conflictCoins)-1).Draw(t, "cc")]
		} else {
			var free []node.Coin
			for _, x := range coins {
				if !used[x.Op.ReferKey()] && x.Value >= 1000 {
					free = append(free, x)
				}
			}
			if len(free) == 0 {
				break
			}
			c = free[rapid.IntRange(0, len(free)-1).Draw(t, "pc")]
			used[c.Op.ReferKey()] = true
		}
		fee := common.Fixed64(rapid.IntRange(100, 900).Draw(t, "pfee"))
		to := rapid.IntRange(0, len(n.Keys)-1).Draw(t, "pto")
		tx, err := n.Transfer([]node.Coin{c}, []node.Out{{To: n.Keys[to].ProgramHash, Value: c.Value - fee}}, tip.Height+1)
		if err != nil {
			t.Fatalf("harness: pool transfer: %v", err)
		}
		s.poolTxs = append(s.poolTxs, tx)
	}
	if compressed {
		s.desc = append(s.desc, "profile=compressed(H1=8)")
	} else {
		s.desc = append(s.desc, "profile=legacy")
	}
	s.desc = append(s.desc, fmt.Sprintf("base=%d main=%d(txs) forkFrom=%d forkLen=%d pool=%d", nb, nm, s.forkBase, flen, len(s.poolTxs)))
	return s
}

func guard(s *scenario, op string, f func()) {
	if p, val, frame := vk.Catch(f); p {
		s.fail("C40:panic:"+op+":"+frame, fmt.Sprint(val))
	}
}

func rpcOK(res map[string]interface{}) bool {
	code, _ := res["Error"].(serrors.ServerErrCode)
	return code == 0
}

// run executes one operation kind; reps scales query loops.
func (s *scenario) run(op string, reps int, allowReorg bool) {
	n := s.n
	switch op {
	case opBlocks:
		for _, b := range s.main {
			b := b
			guard(s, op, func() { _, _, _ = n.Process(b) })
		}
	case opReorg:
		for _, b := range s.fork {
			b := b
			guard(s, op, func() { _, _, _ = n.Process(b) })
		}
	case opPool:
		for _, tx := range s.poolTxs {
			tx := tx
			guard(s, op, func() { _ = n.Pool.AppendToTxPool(tx) })
		}
	case opGenerate:
		for i := 0; i < 2+reps/4; i++ {
			guard(s, op, func() { _, _ = n.Pow.GenerateBlock(n.Keys[0].Address, 100) })
		}
	case opChainQ:
		var last uint32
		for i := 0; i < reps; i++ {
			guard(s, op, func() {
				res := servers.GetBlockCount(servers.Params{})
				cnt, _ := res["Result"].(uint32)
				if cnt == 0 {
					s.fail("C40:query:getblockcount:zero", fmt.Sprint(res))
					return
				}
				if !allowReorg && cnt < last {
					s.fail("C40:query:getblockcount:decreased", fmt.Sprintf("%d after %d without reorg", cnt, last))
				}
				last = cnt
				// every height below the reported count must be served
				h := cnt - 1
				r2 := servers.GetBlockByHeight(servers.Params{"height": float64(h)})
				// (during a reorg the chain legitimately gets shorter between the two calls)
				if !rpcOK(r2) && !allowReorg {
					s.fail("C40:query:getblockbyheight:missing-below-count", fmt.Sprintf("height %d count %d: %v", h, cnt, r2["Result"]))
				}
				_ = servers.GetBestBlockHash(servers.Params{})
				_ = servers.GetBlockHash(servers.Params{"height": float64(h)})
			})
		}
	case opUtxoQ:
		for i := 0; i < reps; i++ {
			k := i % len(n.Keys)
			guard(s, op, func() {
				h1 := n.Chain.GetHeight()
				res := servers.GetBalanceByAddr(servers.Params{"addr": n.Keys[k].Address})
				h2 := n.Chain.GetHeight()
				if !rpcOK(res) {
					s.fail("C40:query:getbalance:error", fmt.Sprint(res["Result"]))
					return
				}
				bal, err := common.StringToFixed64(res["Result"].(string))
				if err != nil {
					return
				}
				if allowReorg {
					return // fork balances at intermediate heights are not modelled
				}
				// interval consistency: the index may already hold height h2+1 while
				// GetHeight still reports h2 (the tip pointer is published last)
				ok := false
				for h := h1; h <= h2+1; h++ {
					idx := int(h) - int(s.baseH)
					if idx >= 0 && idx < len(s.balances[k]) && s.balances[k][idx] == *bal {
						ok = true
					}
				}
				if !ok {
					s.fail("C40:query:getbalance:matches-no-height", fmt.Sprintf("key %d balance %v heights [%d,%d+1] model %v", k, bal, h1, h2, s.balances[k]))
				}
				r2 := servers.ListUnspent(servers.Params{"addresses": []interface{}{n.Keys[k].Address}})
				if !rpcOK(r2) && !allowReorg {
					s.fail("C40:query:listunspent:error", fmt.Sprint(r2["Result"]))
				}
			})
		}
	case opStateQ:
		for i := 0; i < reps; i++ {
			guard(s, op, func() {
				_ = servers.ListProducers(servers.Params{"start": float64(0), "state": "all"})
				_ = servers.GetArbitersInfo(servers.Params{})
				_ = servers.ListCurrentCRs(servers.Params{"state": "all"})
				_ = servers.ListCRCandidates(servers.Params{"start": float64(0), "state": "all"})
				_ = servers.GetCRRelatedStage(servers.Params{})
				_ = servers.GetCommitteeCanUseAmount(servers.Params{})
				_ = servers.GetDPosV2Info(servers.Params{})
				_ = servers.GetMiningInfo(servers.Params{})
			})
		}
	case opPoolQ:
		for i := 0; i < reps; i++ {
			guard(s, op, func() {
				_ = servers.GetTransactionPool(servers.Params{"state": "all"})
				_ = servers.GetTransactionPool(servers.Params{})
				_ = n.Pool.GetTransactionCount()
				_ = n.Pool.GetUsedUTXOs()
				for _, tx := range n.Pool.GetTxsInPool() {
					_ = tx.Hash()
				}
			})
		}
	}
}

// quiescent checks after all goroutines joined.
func (s *scenario) quiescent(ops []string) {
	n := s.n
	chain, err := n.ActiveChain()
	if err != nil {
		s.fail("C40:quiescent:active-chain-unreadable", err.Error())
		return
	}
	u, err := node.Replay(chain, n.KeyIndexOf)
	if err != nil {
		s.fail("C40:quiescent:active-chain-invalid", err.Error())
		return
	}
	has := func(o string) bool {
		for _, x := range ops {
			if x == o {
				return true
			}
		}
		return false
	}
	// expected tip: the fork always wins if delivered (strictly longer than base+main)
	tipHash := chain[len(chain)-1].Hash()
	switch {
	case has(opReorg) && s.compressed && has(opBlocks) && s.maxDetach > 6:
		// DPoS era: a reorganisation detaching more than 6 blocks is refused by design
		// (irreversibility, the exception C12 allows); either tip is legitimate
		vk.Class("reorg-may-be-refused-as-irreversible")
	case has(opReorg):
		if tipHash != s.fork[len(s.fork)-1].Hash() {
			s.fail("C40:quiescent:tip-not-heaviest", fmt.Sprintf("tip height %d, fork tip height %d", chain[len(chain)-1].Height, s.fork[len(s.fork)-1].Height))
		}
	case has(opBlocks):
		if tipHash != s.main[len(s.main)-1].Hash() {
			s.fail("C40:quiescent:tip-not-heaviest", fmt.Sprintf("tip height %d, want main tip %d", chain[len(chain)-1].Height, s.main[len(s.main)-1].Height))
		}
	}
	// balances served now equal the replayed ledger
	bal := balancesOf(u, len(n.Keys))
	for k := range n.Keys {
		res := servers.GetBalanceByAddr(servers.Params{"addr": n.Keys[k].Address})
		if got, _ := res["Result"].(string); got != bal[k].String() {
			s.fail("C40:quiescent:balance-differs-from-ledger", fmt.Sprintf("key %d rpc %v ledger %v", k, res["Result"], bal[k]))
		}
	}
	// the node's own post-block cleanup has run (events are synchronous): pooled
	// transactions must be pairwise disjoint and unspent on the active chain
	seen := map[string]bool{}
	for _, tx := range n.Pool.GetTxsInPool() {
		for _, in := range tx.Inputs() {
			k := in.ReferKey()
			if seen[k] {
				s.fail("C40:quiescent:pool-double-spend", k)
			}
			seen[k] = true
			if _, ok := u[in.Previous]; !ok {
				s.fail("C40:quiescent:pool-tx-spends-spent-output", fmt.Sprintf("tx %s", tx.Hash().String()))
			}
		}
	}
}

func runCase(t vk.TB, s *scenario, ops []string, reps int) {
	defer s.n.Close()
	allowReorg := false
	for _, o := range ops {
		if o == opReorg {
			allowReorg = true
		}
	}
	var wg sync.WaitGroup
	start := make(chan struct{})
	for _, o := range ops {
		o := o
		wg.Add(1)
		go func() {
			defer wg.Done()
			<-start
			s.run(o, reps, allowReorg)
		}()
	}
	close(start)
	wg.Wait()
	s.quiescent(ops)
	render := func() any { return map[string]any{"ops": ops, "scenario": s.desc} }
	for _, p := range s.problems {
		if vk.Report(t, p.sig, p.detail, render()) {
			continue
		}
	}
}

func opsKey(ops []string, s *scenario) []byte {
	b, _ := json.Marshal(map[string]any{"ops": ops, "d": s.desc})
	return b
}

func touchesSameComponent(ops []string) bool {
	writers := 0
	for _, o := range ops {
		if o == opBlocks || o == opReorg || o == opPool {
			writers++
		}
	}
	return writers >= 1 && len(ops) >= 2
}

// TestPairMatrix runs every unordered pair of operation kinds (and a writer or
// query kind with itself where that is meaningful); pairs are partitioned over
// the shards and each pair gets -rapid.checks generated scenarios.
func pairMatrix(t *vk.STB) {
	shard, nshards := vk.Shard()
	idx := 0
	for i := 0; i < len(allOps); i++ {
		for j := i; j < len(allOps); j++ {
			if i == j && allOps[i] != opPool && allOps[i] != opChainQ && allOps[i] != opStateQ {
				continue // two deliveries of the same blocks are just duplicates
			}
			idx++
			if idx%nshards != shard {
				continue
			}
			pair := []string{allOps[i], allOps[j]}
			rapid.Check(t, func(rt *rapid.T) {
				sc := prepare(rt)
				runCase(rt, sc, pair, 12)
				vk.Case("pair/"+strings.Join(pair, "+"), touchesSameComponent(pair), opsKey(pair, sc), func() any {
					return map[string]any{"ops": pair, "scenario": sc.desc}
				})
			})
		}
	}
}

// TestMixes: random mixes of 3-6 operation kinds.
func mixes(t *vk.STB) {
	rapid.Check(t, func(rt *rapid.T) {
		s := prepare(rt)
		k := rapid.IntRange(3, 6).Draw(rt, "k")
		perm := rapid.Permutation(allOps).Draw(rt, "perm")
		ops := append([]string{}, perm[:k]...)
		sort.Strings(ops)
		runCase(rt, s, ops, 8)
		vk.Case(fmt.Sprintf("mix/%d", k), touchesSameComponent(ops), opsKey(ops, s), func() any {
			return map[string]any{"ops": ops, "scenario": s.desc}
		})
	})
}
