package c40

// Unit "statemix": block processing of the DPoS / CR state (Arbiters + Committee
// through the checkpoint manager, driven by statekit's node-valid generated
// blocks across CR voting periods and committee changes) runs concurrently with
// the locked state queries the RPC layer and transaction validation use.
// Oracles: race-detector reports (judged by vk) and no panic.  The writer is the
// only goroutine that touches the kit, the generator and rapid's T; readers
// call exported query methods only.

import (
	"fmt"
	"sync"
	"sync/atomic"

	"github.com/elastos/Elastos.ELA/common"
	crstate "github.com/elastos/Elastos.ELA/cr/state"
	"pgregory.net/rapid"
	"verifharness/lib/vk"
	"verifharness/statekit"
)

func stateQueriesOnce(k *statekit.Kit, height uint32) {
	c := k.Committee
	_ = c.GetCommitteeCanUseAmount()
	_ = c.IsAppropriationNeeded()
	_ = c.IsProposalResultNeeded()
	_ = c.IsInVotingPeriod(height)
	_ = c.IsInElectionPeriod()
	_ = c.IsProposalAllowed(height)
	_ = c.GetCROnDutyStartHeight()
	_ = c.GetCRVotingStartHeight()
	for _, m := range c.GetAllMembersCopy() { // copies: safe to read after the lock is gone
		_ = c.GetAvailableDepositAmount(m.Info.CID)
		_ = c.GetPenalty(m.Info.CID)
		_ = c.IsCRMemberByDID(m.Info.DID)
	}
	_ = c.GetMembersDIDs()
	_ = c.GetMembersCodes()
	_ = len(c.GetCandidates(crstate.Active)) // live pointers: the harness must not dereference them
	_ = len(c.GetAllCandidates())
	_ = len(c.GetAllProposals())
	_ = c.ExistCandidateByNickname("nobody")
	_ = c.Exist(common.Uint168{})
	// (Arbiters queries are left out: several of them call back into the harness's chain-height
	// function, and Arbiters/State use two different locks over shared producer objects - that
	// family is explored by the mini-node units through the RPC handlers instead.)
}

func stateMix(t *vk.STB) {
	rapid.Check(t, func(rt *rapid.T) {
		era := statekit.EraCR
		if rapid.Bool().Draw(rt, "newcr") {
			era = statekit.EraNewCR
		}
		prof := statekit.DrawProfile(rt, era)
		statekit.CRFocusProfile(rt, &prof)
		prof.RecordSponsorStart = statekit.Far
		k := statekit.New(prof)
		defer k.Close()
		g := statekit.NewGen(k)
		g.DrawLazy(rt)
		g.AddKinds(statekit.CRKinds())
		statekit.CRFocusKinds(g)
		k.StartAt(prof.VoteStart - 1)

		// phase 1 (sequential): up to a few blocks before the first committee
		warm := prof.CRCommitteeStart - uint32(rapid.IntRange(2, 6).Draw(rt, "warm"))
		for k.Height < warm {
			b, cf, _ := g.Block(rt)
			k.Process(b, cf)
		}
		// phase 2: readers run while the writer crosses committee changes
		extra := uint32(rapid.IntRange(12, 40).Draw(rt, "extra"))
		stopAt := prof.CRCommitteeStart + extra
		var stop atomic.Bool
		var height atomic.Uint32
		height.Store(k.Height)
		var wg sync.WaitGroup
		var mu sync.Mutex
		var problems []string
		nReaders := rapid.IntRange(1, 3).Draw(rt, "readers")
		for r := 0; r < nReaders; r++ {
			wg.Add(1)
			go func() {
				defer wg.Done()
				for !stop.Load() {
					if p, val, frame := vk.Catch(func() { stateQueriesOnce(k, height.Load()) }); p {
						mu.Lock()
						problems = append(problems, fmt.Sprintf("C40:panic:stateQueries:%s|%v", frame, val))
						mu.Unlock()
						return
					}
				}
			}()
		}
		changes := 0
		wasElection := k.Committee.IsInElectionPeriod()
		for k.Height < stopAt {
			b, cf, _ := g.Block(rt)
			if p, val, frame := vk.Catch(func() { k.Process(b, cf) }); p {
				mu.Lock()
				problems = append(problems, fmt.Sprintf("C40:panic:processBlock:%s|%v", frame, val))
				mu.Unlock()
				break
			}
			height.Store(k.Height)
			if e := k.Committee.IsInElectionPeriod(); e != wasElection {
				changes++
				wasElection = e
			}
		}
		stop.Store(true)
		wg.Wait()
		desc := map[string]any{"era": era.String(), "from": warm, "to": stopAt, "readers": nReaders, "committee_changes": changes}
		for _, p := range problems {
			sig, detail := p, ""
			for i := 0; i < len(p); i++ {
				if p[i] == '|' {
					sig, detail = p[:i], p[i+1:]
					break
				}
			}
			vk.Report(rt, sig, detail, desc)
		}
		cl := "statemix/no-committee-change"
		if changes > 0 {
			cl = "statemix/committee-change"
		}
		vk.Case(cl, changes > 0, []byte(fmt.Sprint(desc, prof)), func() any { return desc })
	})
}
