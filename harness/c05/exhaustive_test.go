package c05

import (
	"fmt"
	"testing"

	"github.com/elastos/Elastos.ELA/blockchain"
	"github.com/elastos/Elastos.ELA/common"
	"github.com/elastos/Elastos.ELA/core/contract/program"
	"verifharness/lib/vk"
)

// TestExhaustiveSignerMultisets enumerates, for n-key multisig scripts (n = 2
// in the quick tier, 3 in the thorough tier; plus the script A,A,B with a
// repeated key), every m in 0..n, every address family that takes a multisig
// script, and EVERY signature list of length 0..n+1 over the alphabet
// {two distinct valid signatures of each script key, a valid signature of a
// foreign key, an all-zero signature}.  The m-of-n DISTINCT signer clause is
// decided for each of them against the reference.
func TestExhaustiveSignerMultisets(t *testing.T) {
	n := 2
	if vk.Thorough() {
		n = 3
	}
	shard, nshards := vk.Shard()
	data := []byte("C05 exhaustive signer multisets")
	var keys []*key
	for i := 0; i < n; i++ {
		keys = append(keys, cachedKey(9001+uint64(i)))
	}
	foreign := cachedKey(9100)
	scripts := [][]*key{keys}
	if n >= 3 {
		scripts = append(scripts, []*key{keys[0], keys[0], keys[1]})
	}
	type letter struct {
		name string
		sig  []byte
		key  *key // nil: not a script key
	}
	families := []struct {
		name   string
		prefix byte
		term   byte
	}{{"multisig", prefMultiSig, opCheckMultiSig}, {"standard-prefix", prefStandard, opCheckMultiSig},
		{"deposit-prefix", prefDeposit, opCheckMultiSig}, {"crosschain", prefCrossChain, opCrossChain}}

	idx := 0
	for si, sk := range scripts {
		var alphabet []letter
		seenKey := map[*key]bool{}
		for _, k := range sk {
			if seenKey[k] {
				continue
			}
			seenKey[k] = true
			alphabet = append(alphabet, letter{fmt.Sprintf("k%d.a", k.id), k.signECDSA(data, 0), k})
			alphabet = append(alphabet, letter{fmt.Sprintf("k%d.b", k.id), k.signECDSA(data, 1), k})
		}
		alphabet = append(alphabet, letter{"foreign", foreign.signECDSA(data, 0), nil}, letter{"zero", make([]byte, 64), nil})
		for m := 0; m <= len(sk); m++ {
			for _, fam := range families {
				code := multisigCode(m, sk, fam.term)
				addr := addrOf(fam.prefix, code)
				var h common.Uint168
				copy(h[:], addr)
				// all words of length 0..len(sk)+1
				var rec func(word []int)
				rec = func(word []int) {
					idx++
					if idx%nshards == shard {
						var param []byte
						names := []string{}
						distinct := map[*key]bool{}
						dupKey, junk := false, false
						for _, li := range word {
							l := alphabet[li]
							param = append(append(param, 0x40), l.sig...)
							names = append(names, l.name)
							if l.key == nil {
								junk = true
							} else {
								if distinct[l.key] {
									dupKey = true
								}
								distinct[l.key] = true
							}
						}
						if param == nil {
							param = []byte{}
						}
						p := prog{code, param}
						vk.Journal(append(append([]byte{}, code...), param...))
						var err error
						panicked, pv, frame := vk.Catch(func() {
							err = blockchain.RunPrograms(data, []common.Uint168{h}, []*program.Program{{Code: code, Parameter: param}})
						})
						if panicked {
							vk.Class("node-panicked(C03):" + frame)
							err = fmt.Errorf("panic: %v", pv)
						}
						accepted := err == nil
						ref := refStrict(data, [][]byte{addr}, []prog{p})
						render := func() any {
							return map[string]any{"family": fam.name, "script": si, "m": m, "n": len(sk), "signatures": names,
								"code": fmt.Sprintf("%x", code), "reference": ref.ok, "clause": ref.clause, "node_error": fmt.Sprint(err)}
						}
						class := fmt.Sprintf("exhaustive|%s|m=%d/n=%d|sigs=%d", fam.name, m, len(sk), len(word))
						nontrivial := len(word) >= 1 && (dupKey || junk || len(distinct) < m)
						vk.Case(class, nontrivial, []byte(fmt.Sprintf("%d|%s|%d|%v", si, fam.name, m, word)), render)
						if accepted && !ref.ok {
							vk.Report(t, "C05:accepted:"+ref.clause, fmt.Sprintf("%s script m=%d n=%d accepted with signatures %v", fam.name, m, len(sk), names), render())
						}
						// completeness: m..n valid signatures of pairwise distinct script keys
						if m >= 1 && !junk && !dupKey && len(word) >= m && len(word) <= len(sk) && len(sk) >= 2 && !accepted {
							vk.Report(t, "C05:honest-rejected:multiset", fmt.Sprintf("%s script m=%d n=%d rejected signatures %v: %v", fam.name, m, len(sk), names, err), render())
						}
					}
					if len(word) == len(sk)+1 {
						return
					}
					for li := range alphabet {
						rec(append(append([]int{}, word...), li))
					}
				}
				rec(nil)
			}
		}
	}
}
