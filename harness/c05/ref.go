// Reference verifier of C05, written from the property statement:
//
//	accepted => for every distinct spent address (and script-hash attribute)
//	the transaction carries a program whose code hashes to the address and
//	whose signatures verify over the signed bytes; an m-of-n multisig program
//	needs valid signatures of >= m DISTINCT keys of the script.
//
// It never calls into /repo.
package c05

import "bytes"

const (
	prefStandard   = 0x21
	prefMultiSig   = 0x12
	prefCrossChain = 0x4B
	prefDeposit    = 0x1F

	opPush1         = 0x51
	opCheckSig      = 0xAC
	opCheckMultiSig = 0xAE
	opCrossChain    = 0xAF
)

type prog struct {
	Code  []byte
	Param []byte
}

type codeClass int

const (
	clsNone codeClass = iota
	clsStandard
	clsSchnorr
	clsMultiSig   // ... CHECKMULTISIG
	clsCrossMulti // ... CROSSCHAIN
)

func (c codeClass) String() string {
	return [...]string{"none", "standard", "schnorr", "multisig", "crossmulti"}[c]
}

// script is the reference parse of a redeem script.
type script struct {
	cls  codeClass
	keys [][]byte // 33-byte key slots in script order
	m, n int      // as encoded in the script (multisig classes)
}

// parseScript classifies code by the wire formats of the node's own script
// builders (standard.go, schnorr.go, multisig.go): 0x21 key CHECKSIG;
// PUSH1 0x21 key; PUSHm (0x21 key)*k PUSHn CHECKMULTISIG|CROSSCHAIN.
func parseScript(code []byte) script {
	if len(code) == 35 && code[0] == 0x21 && code[34] == opCheckSig {
		return script{cls: clsStandard, keys: [][]byte{code[1:34]}, m: 1, n: 1}
	}
	if len(code) == 35 && code[0] == opPush1 && code[1] == 0x21 {
		return script{cls: clsSchnorr, keys: [][]byte{code[2:35]}, m: 1, n: 1}
	}
	if len(code) >= 3+34 && (len(code)-3)%34 == 0 {
		last := code[len(code)-1]
		if last == opCheckMultiSig || last == opCrossChain {
			s := script{cls: clsMultiSig}
			if last == opCrossChain {
				s.cls = clsCrossMulti
			}
			s.m = int(code[0]) - opPush1 + 1
			s.n = int(code[len(code)-2]) - opPush1 + 1
			for i := 1; i+34 <= len(code)-2; i += 34 {
				// slot = length byte + 33-byte key; the key is what counts
				s.keys = append(s.keys, code[i+1:i+34])
			}
			return s
		}
	}
	return script{cls: clsNone}
}

// distinctSigners returns how many DISTINCT keys of the script have at least
// one valid signature among the 65-byte chunks (length byte + r||s) of param.
func distinctSigners(s script, param, data []byte) int {
	if len(param)%65 != 0 {
		return 0
	}
	seen := map[string]bool{}
	for _, k := range s.keys {
		if seen[string(k)] {
			continue
		}
		for i := 0; i+65 <= len(param); i += 65 {
			if verifyECDSA(k, data, param[i+1:i+65]) {
				seen[string(k)] = true
				break
			}
		}
	}
	return len(seen)
}

// programValid decides whether program p proves control of an address with the
// given prefix over data; clause names the decisive reason when it does not.
func programValid(prefix byte, p prog, data []byte) (bool, string) {
	s := parseScript(p.Code)
	multisig := func(kind string) (bool, string) {
		if s.m < 1 || s.m > s.n || s.n != len(s.keys) {
			return false, kind + "-m-or-n-out-of-range"
		}
		if distinctSigners(s, p.Param, data) < s.m {
			return false, kind + "-fewer-than-m-distinct-signers"
		}
		return true, ""
	}
	schnorr := func() (bool, string) {
		if len(p.Param) < 64 || !schnorrVerify(s.keys[0], sha256d(data), p.Param[:64]) {
			return false, "bad-schnorr-signature"
		}
		return true, ""
	}
	switch prefix {
	case prefStandard, prefDeposit:
		switch s.cls {
		case clsStandard:
			if len(p.Param) != 65 || !verifyECDSA(s.keys[0], data, p.Param[1:]) {
				return false, "bad-standard-signature"
			}
			return true, ""
		case clsSchnorr:
			return schnorr()
		case clsMultiSig:
			if s.m >= 1 && s.m <= s.n && s.n == len(s.keys) {
				return multisig("multisig")
			}
			// a multisig-shaped string whose m/n bytes are out of range is not a
			// script of any class: nobody is defined as its signer
		}
		return false, "unclassified-code-no-signer-defined"
	case prefMultiSig:
		if s.cls == clsMultiSig {
			return multisig("multisig")
		}
		return false, "multisig-address-without-multisig-script"
	case prefCrossChain:
		switch s.cls {
		case clsSchnorr:
			return schnorr()
		case clsCrossMulti:
			return multisig("crosschain-multisig")
		}
		return false, "crosschain-address-without-crosschain-script"
	}
	return false, "unknown-address-prefix"
}

// refVerdict is the verdict of the statement for a set of addresses.
type refVerdict struct {
	ok     bool
	clause string // decisive clause when !ok
	addr   []byte // address that is not satisfied
}

func uniqueAddrs(addrs [][]byte) [][]byte {
	var out [][]byte
	seen := map[string]bool{}
	for _, a := range addrs {
		if !seen[string(a)] {
			seen[string(a)] = true
			out = append(out, a)
		}
	}
	return out
}

// refStrict applies the statement literally: every distinct 21-byte address
// needs a program whose code hashes to address[1:] and that is valid.
func refStrict(data []byte, addrs [][]byte, programs []prog) refVerdict {
	for _, a := range uniqueAddrs(addrs) {
		if len(a) != 21 {
			return refVerdict{false, "malformed-address", a}
		}
		matched, satisfied := false, false
		clause := ""
		for _, p := range programs {
			h := hash160(p.Code)
			if !bytes.Equal(h[:], a[1:]) {
				continue
			}
			matched = true
			ok, c := programValid(a[0], p, data)
			if ok {
				satisfied = true
				break
			}
			if clause == "" {
				clause = c
			}
		}
		if !matched {
			if a[0] == prefCrossChain {
				return refVerdict{false, "crosschain-address-code-not-bound", a}
			}
			return refVerdict{false, "no-program-hashing-to-address", a}
		}
		if !satisfied {
			return refVerdict{false, clause, a}
		}
	}
	return refVerdict{ok: true}
}

// refWeakCrossChain is the weaker oracle applied once the (known) absence of
// any code-to-address binding for cross-chain addresses has been noted: all
// other addresses are judged strictly, and there must be at least as many
// programs that are valid cross-chain programs in their own right (a Schnorr
// program, or a CROSSCHAIN multisig program with 1 <= m <= n and >= m distinct
// signers among its own keys) as there are unbound cross-chain addresses.
func refWeakCrossChain(data []byte, addrs [][]byte, programs []prog) refVerdict {
	var rest [][]byte
	unbound := 0
	var firstX []byte
	for _, a := range uniqueAddrs(addrs) {
		if len(a) == 21 && a[0] == prefCrossChain {
			bound := false
			for _, p := range programs {
				h := hash160(p.Code)
				if bytes.Equal(h[:], a[1:]) {
					bound = true
				}
			}
			if !bound {
				unbound++
				if firstX == nil {
					firstX = a
				}
				continue
			}
		}
		rest = append(rest, a)
	}
	if v := refStrict(data, rest, programs); !v.ok {
		return v
	}
	if unbound == 0 {
		return refVerdict{ok: true}
	}
	valid := 0
	clause := ""
	for _, p := range programs {
		ok, c := programValid(prefCrossChain, p, data)
		if ok {
			valid++
		} else if clause == "" || (c != "crosschain-address-without-crosschain-script" && clause == "crosschain-address-without-crosschain-script") {
			clause = c
		}
	}
	if valid < unbound {
		return refVerdict{false, clause, firstX}
	}
	return refVerdict{ok: true}
}
