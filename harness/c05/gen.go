package c05

import (
	"bytes"
	"encoding/binary"
	"fmt"
	"sort"

	"pgregory.net/rapid"
)

// addrSpec is one spent address together with what its honest owner presents.
type addrSpec struct {
	Kind      string
	Prefix    byte
	Addr      []byte // 21 bytes
	Code      []byte // redeem script the honest spender presents
	cls       codeClass
	scriptKey []*key // keys of the script, script order (multisig) / aggregate members (schnorr)
	m         int
	signers   []*key // honest signing order (multisig: the first m distinct ones sign)
	bound     bool // Code hashes to Addr[1:]
	spendable bool // the honest program is expected to be accepted by the node
}

func addrOf(prefix byte, code []byte) []byte {
	h := hash160(code)
	return append([]byte{prefix}, h[:]...)
}

func standardCode(k *key) []byte {
	return append(append([]byte{0x21}, k.comp...), opCheckSig)
}

func schnorrCode(keys []*key) []byte {
	return append([]byte{opPush1, 0x21}, compress(aggregatePub(keys))...)
}

func multisigCode(m int, keys []*key, terminator byte) []byte {
	c := []byte{byte(opPush1 + m - 1)}
	for _, k := range keys {
		c = append(c, 0x21)
		c = append(c, k.comp...)
	}
	c = append(c, byte(opPush1+len(keys)-1), terminator)
	return c
}

type ring []*key

func drawRing(t *rapid.T) ring {
	n := rapid.IntRange(2, 6).Draw(t, "ringsize")
	seeds := rapid.SliceOfNDistinct(rapid.Uint64Range(1, 4000), n, n, rapid.ID[uint64]).Draw(t, "keyseeds")
	r := make(ring, n)
	for i, s := range seeds {
		r[i] = cachedKey(s)
	}
	return r
}

var keyCache = map[uint64]*key{}

func cachedKey(seed uint64) *key {
	if k, ok := keyCache[seed]; ok {
		return k
	}
	k := keyFromSeed(seed)
	keyCache[seed] = k
	return k
}

func (r ring) pick(t *rapid.T, label string) *key {
	return r[rapid.IntRange(0, len(r)-1).Draw(t, label)]
}

func (r ring) pickN(t *rapid.T, n int, label string) []*key {
	if n > len(r) {
		n = len(r)
	}
	idx := rapid.SliceOfNDistinct(rapid.IntRange(0, len(r)-1), n, n, rapid.ID[int]).Draw(t, label)
	out := make([]*key, n)
	for i, j := range idx {
		out[i] = r[j]
	}
	return out
}

// focusMulti (set by the multisig-focused unit) makes multisig scripts need
// at least two signers and restricts edits to the signature level.
var focusMulti bool

var multiKinds = []string{"multisig", "multisig", "multisig", "multisig-dupkey", "standard-prefix-multisig", "deposit-multisig",
	"crosschain-bound", "crosschain-unbound"}

var sigLevelEdits = map[string]bool{"sig-duplicate": true, "sig-resign-same-key": true, "sig-drop": true, "sig-foreign": true,
	"sig-permute": true, "sig-malleate": true, "sig-extra-foreign": true, "code-lower-m": true, "code-m-zero": true,
	"sig-zero": true, "sig-wrong-digest": true, "sig-flip": true}

var addrKinds = []string{
	"standard", "standard",
	"deposit-standard",
	"multisig", "multisig", "multisig", "multisig",
	"multisig-1of1",
	"multisig-dupkey", "multisig-dupkey",
	"standard-prefix-multisig", "deposit-multisig",
	"schnorr", "schnorr", "deposit-schnorr",
	"crosschain-bound", "crosschain-unbound", "crosschain-unbound", "crosschain-schnorr-unbound",
	"malformed", "malformed",
	"unknown-prefix",
}

// drawAddr builds one address of a drawn kind (or of the forced kind).
func drawAddr(t *rapid.T, r ring, forced string) *addrSpec {
	kind := forced
	if kind == "" {
		kind = rapid.SampledFrom(addrKinds).Draw(t, "addrkind")
	}
	a := &addrSpec{Kind: kind, bound: true, spendable: true, m: 1}
	multi := func(prefix, term byte) {
		n := rapid.IntRange(2, 5).Draw(t, "n")
		ks := r.pickN(t, n, "scriptkeys")
		if rapid.Bool().Draw(t, "sortkeys") {
			sort.Slice(ks, func(i, j int) bool { return ks[i].pub.x.Cmp(ks[j].pub.x) < 0 })
		}
		lo := 1
		if focusMulti {
			lo = 2
		}
		a.m = rapid.IntRange(lo, len(ks)).Draw(t, "m")
		a.scriptKey = ks
		a.Prefix = prefix
		a.Code = multisigCode(a.m, ks, term)
	}
	switch kind {
	case "standard", "deposit-standard", "unknown-prefix":
		k := r.pick(t, "owner")
		a.scriptKey = []*key{k}
		a.Code = standardCode(k)
		a.Prefix = prefStandard
		if kind == "deposit-standard" {
			a.Prefix = prefDeposit
		}
		if kind == "unknown-prefix" {
			a.Prefix = rapid.SampledFrom([]byte{0x67, 0x3f, 0x00, 0x22, 0xff}).Draw(t, "prefix")
			a.spendable = false
		}
	case "multisig":
		multi(prefMultiSig, opCheckMultiSig)
	case "standard-prefix-multisig":
		multi(prefStandard, opCheckMultiSig)
	case "deposit-multisig":
		multi(prefDeposit, opCheckMultiSig)
	case "multisig-1of1":
		k := r.pick(t, "owner")
		a.scriptKey = []*key{k}
		a.Prefix = prefMultiSig
		a.Code = multisigCode(1, a.scriptKey, opCheckMultiSig)
		a.spendable = false // 37 bytes: below the node's minimum multisig script length
	case "multisig-dupkey":
		ks := r.pickN(t, 2, "scriptkeys")
		ks = []*key{ks[0], ks[0], ks[1]}
		a.m = 2
		a.scriptKey = ks
		a.Prefix = prefMultiSig
		a.Code = multisigCode(2, ks, opCheckMultiSig)
	case "schnorr", "deposit-schnorr":
		ks := r.pickN(t, rapid.IntRange(1, 3).Draw(t, "nagg"), "aggkeys")
		a.scriptKey = ks
		a.Code = schnorrCode(ks)
		a.Prefix = prefStandard
		if kind == "deposit-schnorr" {
			a.Prefix = prefDeposit
		}
	case "crosschain-bound":
		multi(prefCrossChain, opCrossChain)
	case "crosschain-unbound":
		multi(prefCrossChain, opCrossChain)
		a.bound = false
	case "crosschain-schnorr-unbound":
		ks := r.pickN(t, rapid.IntRange(1, 3).Draw(t, "nagg"), "aggkeys")
		a.scriptKey = ks
		a.Code = schnorrCode(ks)
		a.Prefix = prefCrossChain
		a.bound = false
	case "malformed":
		a.Prefix = rapid.SampledFrom([]byte{prefStandard, prefStandard, prefDeposit, prefMultiSig, prefCrossChain}).Draw(t, "prefix")
		a.spendable = false
		k := r.pick(t, "owner")
		a.scriptKey = []*key{k}
		switch rapid.IntRange(0, 6).Draw(t, "malform") {
		case 0: // standard script with another terminator
			a.Code = standardCode(k)
			a.Code[34] = rapid.SampledFrom([]byte{0xAD, 0xAE, 0xAF, 0x00}).Draw(t, "term")
		case 1: // standard script with another push length
			a.Code = standardCode(k)
			a.Code[0] = rapid.SampledFrom([]byte{0x20, 0x22, 0x00}).Draw(t, "push")
		case 2: // schnorr script with a wrong inner length
			a.Code = schnorrCode([]*key{k})
			a.Code[1] = rapid.SampledFrom([]byte{0x20, 0x22}).Draw(t, "inner")
		case 3: // key only, 33 bytes
			a.Code = append([]byte{}, k.comp...)
		case 4: // one byte too long / too short
			a.Code = append(standardCode(k), 0x00)
			if rapid.Bool().Draw(t, "short") {
				a.Code = standardCode(k)[:34]
			}
		case 5: // multisig body with an unknown terminator
			ks := r.pickN(t, 2, "scriptkeys")
			a.Code = multisigCode(1, ks, rapid.SampledFrom([]byte{0xAC, 0xAD, 0xB0}).Draw(t, "term"))
		default: // arbitrary bytes of a length the sanity check admits
			a.Code = rapid.SliceOfN(rapid.Byte(), 23, 80).Draw(t, "rawcode")
		}
	default:
		t.Fatalf("harness: unknown address kind %q", kind)
	}
	a.cls = parseScript(a.Code).cls
	a.signers = a.scriptKey
	if (a.cls == clsMultiSig || a.cls == clsCrossMulti) && len(a.scriptKey) > 1 {
		a.signers = rapid.Permutation(a.scriptKey).Draw(t, "signorder")
	}
	if a.bound {
		a.Addr = addrOf(a.Prefix, a.Code)
	} else {
		// the address of a side chain: hash of "0x20 genesis-hash CROSSCHAIN",
		// unrelated to any key
		g := rapid.SliceOfN(rapid.Byte(), 32, 32).Draw(t, "genesis")
		a.Addr = addrOf(a.Prefix, append(append([]byte{0x20}, g...), opCrossChain))
	}
	return a
}

// honestProgram signs data the way the owner of a would.
func honestProgram(a *addrSpec, data []byte) prog {
	p := prog{Code: append([]byte{}, a.Code...), Param: []byte{}}
	switch a.cls {
	case clsStandard:
		p.Param = append([]byte{0x40}, a.scriptKey[0].signECDSA(data, 0)...)
	case clsSchnorr:
		sig := schnorrSign(a.scriptKey, sha256d(data), 0)
		p.Param = append([]byte{}, sig[:]...)
	case clsMultiSig, clsCrossMulti:
		// the first m DISTINCT keys of the script sign
		seen := map[*key]bool{}
		for _, k := range a.signers {
			if len(seen) == a.m {
				break
			}
			if seen[k] {
				continue
			}
			seen[k] = true
			p.Param = append(p.Param, 0x40)
			p.Param = append(p.Param, k.signECDSA(data, 0)...)
		}
	default:
		// no signer is defined for the script: the "owner" presents the code alone
	}
	return p
}

// ---------------------------------------------------------------------------
// adversarial edits

type tcase struct {
	Addrs    []*addrSpec
	Data     []byte
	Programs []prog
	Edits    []string
	ring     ring
}

func (c *tcase) addrBytes() [][]byte {
	out := make([][]byte, len(c.Addrs))
	for i, a := range c.Addrs {
		out[i] = a.Addr
	}
	return out
}

func sigCount(p prog) int { return len(p.Param) / 65 }

// outsider returns a ring key that is not in the script, or a fresh key.
func (c *tcase) outsider(t *rapid.T, a *addrSpec) *key {
	for _, k := range c.ring {
		in := false
		for _, s := range a.scriptKey {
			if s == k {
				in = true
			}
		}
		if !in {
			return k
		}
	}
	return cachedKey(5000 + uint64(rapid.IntRange(0, 50).Draw(t, "fresh")))
}

// specOf returns the address spec whose honest code equals the program's
// code (nil after code edits).
func (c *tcase) specOf(p prog) *addrSpec {
	for _, a := range c.Addrs {
		if bytes.Equal(a.Code, p.Code) {
			return a
		}
	}
	return nil
}


// editMenu lists the edits that apply to program pi in the current state
// (construct, don't reject); repeated entries are weights.
func (c *tcase) editMenu(pi int) []string {
	menu := c.fullMenu(pi)
	if !focusMulti {
		return menu
	}
	var out []string
	for _, e := range menu {
		if sigLevelEdits[e] {
			out = append(out, e)
		}
	}
	if len(out) == 0 {
		return menu
	}
	return out
}

func (c *tcase) fullMenu(pi int) []string {
	menu := []string{"tamper-data", "tamper-data", "tamper-data"}
	if pi < 0 || pi >= len(c.Programs) {
		return menu
	}
	p := c.Programs[pi]
	a := c.specOf(p)
	menu = append(menu, "drop-program", "dup-program", "param-extend", "param-empty", "code-swap", "code-flip")
	if len(p.Param) > 0 {
		menu = append(menu, "sig-flip", "sig-flip", "param-truncate")
	}
	if a == nil {
		return menu
	}
	menu = append(menu, "foreign-standard-program")
	ecdsaSigs := (a.cls == clsStandard || a.cls == clsMultiSig || a.cls == clsCrossMulti) && sigCount(p) > 0
	if ecdsaSigs {
		menu = append(menu, "sig-foreign", "sig-foreign", "sig-drop", "sig-malleate", "sig-zero", "sig-wrong-digest", "sig-extra-foreign")
		if sigCount(p) >= 2 {
			menu = append(menu, "sig-duplicate", "sig-duplicate", "sig-duplicate", "sig-resign-same-key", "sig-resign-same-key",
				"sig-resign-same-key", "sig-permute")
		}
	}
	if a.cls == clsSchnorr {
		menu = append(menu, "sig-foreign", "sig-foreign", "sig-wrong-digest", "sig-wrong-digest")
	}
	if a.cls == clsMultiSig || a.cls == clsCrossMulti {
		menu = append(menu, "code-m-zero")
		if a.m >= 2 {
			menu = append(menu, "code-lower-m", "code-lower-m", "sig-drop", "sig-drop")
		}
	}
	if a.Prefix == prefCrossChain {
		menu = append(menu, "crosschain-own-keys", "crosschain-own-keys")
	}
	return menu
}

// applyEdit mutates the case; it returns false when the edit does not apply.
func (c *tcase) applyEdit(t *rapid.T, kind string, pi int) bool {
	if len(c.Programs) == 0 && kind != "tamper-data" {
		return false
	}
	var p *prog
	var a *addrSpec
	if len(c.Programs) > 0 {
		p = &c.Programs[pi]
		a = c.specOf(*p)
	}
	ecdsaSigs := a != nil && (a.cls == clsStandard || a.cls == clsMultiSig || a.cls == clsCrossMulti) && sigCount(*p) > 0
	sigAt := func(i int) []byte { return p.Param[i*65+1 : i*65+65] }
	pickSig := func(label string) int {
		if sigCount(*p) <= 1 {
			return 0
		}
		return rapid.IntRange(0, sigCount(*p)-1).Draw(t, label)
	}
	switch kind {
	case "tamper-data":
		if len(c.Data) == 0 {
			c.Data = []byte{1}
			return true
		}
		i := rapid.IntRange(0, len(c.Data)-1).Draw(t, "byte")
		c.Data = append([]byte{}, c.Data...)
		c.Data[i] ^= 1 << uint(rapid.IntRange(0, 7).Draw(t, "bit"))
	case "drop-program":
		c.Programs = append(append([]prog{}, c.Programs[:pi]...), c.Programs[pi+1:]...)
	case "dup-program":
		c.Programs = append(c.Programs, prog{append([]byte{}, p.Code...), append([]byte{}, p.Param...)})
	case "sig-foreign":
		if !ecdsaSigs {
			if a != nil && a.cls == clsSchnorr {
				sig := schnorrSign([]*key{c.outsider(t, a)}, sha256d(c.Data), 1)
				p.Param = append([]byte{}, sig[:]...)
				return true
			}
			return false
		}
		copy(sigAt(pickSig("sig")), c.outsider(t, a).signECDSA(c.Data, 1))
	case "sig-duplicate":
		if !ecdsaSigs || sigCount(*p) < 2 {
			return false
		}
		i := pickSig("dst")
		j := (i + 1 + rapid.IntRange(0, sigCount(*p)-2).Draw(t, "src")) % sigCount(*p)
		copy(sigAt(i), sigAt(j))
	case "sig-resign-same-key":
		// the signer of slot j signs again (distinct signature bytes) into slot i
		if !ecdsaSigs || sigCount(*p) < 2 || a == nil {
			return false
		}
		i := pickSig("dst")
		j := (i + 1 + rapid.IntRange(0, sigCount(*p)-2).Draw(t, "src")) % sigCount(*p)
		var signer *key
		for _, k := range a.scriptKey {
			if verifyECDSA(k.comp, c.Data, sigAt(j)) {
				signer = k
			}
		}
		if signer == nil {
			return false
		}
		copy(sigAt(i), signer.signECDSA(c.Data, 7+rapid.IntRange(0, 3).Draw(t, "variant")))
	case "sig-drop":
		if !ecdsaSigs {
			return false
		}
		i := pickSig("sig")
		p.Param = append(append([]byte{}, p.Param[:i*65]...), p.Param[i*65+65:]...)
	case "sig-permute":
		if !ecdsaSigs || sigCount(*p) < 2 {
			return false
		}
		i := pickSig("a")
		j := (i + 1) % sigCount(*p)
		tmp := append([]byte{}, sigAt(i)...)
		copy(sigAt(i), sigAt(j))
		copy(sigAt(j), tmp)
	case "sig-malleate":
		if !ecdsaSigs {
			return false
		}
		// (r, n-s) is the other valid signature of the same signer
		s := sigAt(pickSig("sig"))
		copy(s[32:], negModN(s[32:]))
	case "sig-flip":
		if p == nil || len(p.Param) == 0 {
			return false
		}
		p.Param = append([]byte{}, p.Param...)
		i := rapid.IntRange(0, len(p.Param)-1).Draw(t, "byte")
		p.Param[i] ^= 1 << uint(rapid.IntRange(0, 7).Draw(t, "bit"))
	case "sig-zero":
		if !ecdsaSigs {
			return false
		}
		s := sigAt(pickSig("sig"))
		for i := range s {
			s[i] = 0
		}
	case "sig-wrong-digest":
		if a == nil {
			return false
		}
		// a signature by the right key over something that is not the signed bytes
		other := [][]byte{sha(c.Data), append([]byte{0}, c.Data...), c.Data[:len(c.Data)/2], {}}[rapid.IntRange(0, 3).Draw(t, "what")]
		if ecdsaSigs {
			i := pickSig("sig")
			var signer *key
			for _, k := range a.scriptKey {
				if verifyECDSA(k.comp, c.Data, sigAt(i)) {
					signer = k
				}
			}
			if signer == nil {
				signer = a.scriptKey[0]
			}
			copy(sigAt(i), signer.signECDSA(other, 0))
		} else if a.cls == clsSchnorr {
			// schnorr over sha256 instead of sha256d, or over other bytes
			var m [32]byte
			copy(m[:], sha(other))
			sig := schnorrSign(a.scriptKey, m, 0)
			p.Param = append([]byte{}, sig[:]...)
		} else {
			return false
		}
	case "param-truncate":
		if p == nil || len(p.Param) == 0 {
			return false
		}
		n := rapid.IntRange(1, min(len(p.Param), 65)).Draw(t, "cut")
		p.Param = append([]byte{}, p.Param[:len(p.Param)-n]...)
	case "param-extend":
		p.Param = append(append([]byte{}, p.Param...), rapid.SliceOfN(rapid.Byte(), 1, 66).Draw(t, "junk")...)
	case "param-empty":
		p.Param = []byte{}
	case "code-swap":
		// present another address's (or another key's) code with the same parameter
		var other []byte
		if len(c.Addrs) > 1 && rapid.Bool().Draw(t, "fromaddr") {
			other = c.Addrs[rapid.IntRange(0, len(c.Addrs)-1).Draw(t, "other")].Code
		} else {
			other = standardCode(c.ring.pick(t, "otherkey"))
		}
		if bytes.Equal(other, p.Code) {
			return false
		}
		p.Code = append([]byte{}, other...)
	case "code-flip":
		p.Code = append([]byte{}, p.Code...)
		i := rapid.IntRange(0, len(p.Code)-1).Draw(t, "byte")
		p.Code[i] ^= 1 << uint(rapid.IntRange(0, 7).Draw(t, "bit"))
	case "code-lower-m":
		if a == nil || (a.cls != clsMultiSig && a.cls != clsCrossMulti) || a.m < 2 {
			return false
		}
		p.Code = append([]byte{}, p.Code...)
		p.Code[0] = byte(opPush1 + rapid.IntRange(1, a.m-1).Draw(t, "newm") - 1)
		// keep as many signatures as the lowered m asks for
		keep := int(p.Code[0]) - opPush1 + 1
		if sigCount(*p) > keep {
			p.Param = append([]byte{}, p.Param[:keep*65]...)
		}
	case "code-m-zero":
		if a == nil || (a.cls != clsMultiSig && a.cls != clsCrossMulti) {
			return false
		}
		p.Code = append([]byte{}, p.Code...)
		p.Code[0] = byte(opPush1 - 1 - rapid.IntRange(0, 2).Draw(t, "below"))
		p.Param = []byte{}
	case "sig-extra-foreign":
		if !ecdsaSigs {
			return false
		}
		p.Param = append(append([]byte{}, p.Param...), 0x40)
		p.Param = append(p.Param, c.outsider(t, a).signECDSA(c.Data, 2)...)
	case "foreign-standard-program":
		// replace the whole program by a perfectly valid program of somebody else
		if a == nil {
			return false
		}
		k := c.outsider(t, a)
		*p = prog{standardCode(k), append([]byte{0x40}, k.signECDSA(c.Data, 0)...)}
	case "crosschain-own-keys":
		// an attacker-chosen CROSSCHAIN multisig script over the attacker's own keys
		if a == nil || a.Prefix != prefCrossChain {
			return false
		}
		ks := []*key{c.outsider(t, a), cachedKey(6000 + uint64(rapid.IntRange(0, 20).Draw(t, "own")))}
		code := multisigCode(1, ks, opCrossChain)
		*p = prog{code, append([]byte{0x40}, ks[0].signECDSA(c.Data, 0)...)}
	default:
		t.Fatalf("harness: unknown edit %q", kind)
	}
	return true
}

func negModN(s []byte) []byte {
	v := newInt(s)
	v.Sub(curveN, v)
	v.Mod(v, curveN)
	out := make([]byte, 32)
	v.FillBytes(out)
	return out
}

// render is the JSON shape of a case in evidence samples and replay files.
func (c *tcase) render(level string, refOK bool, refClause string, accepted bool, nodeErr string) any {
	type rp struct{ Code, Param string }
	type ra struct{ Kind, Addr, OwnerCode string }
	var ps []rp
	for _, p := range c.Programs {
		ps = append(ps, rp{fmt.Sprintf("%x", p.Code), fmt.Sprintf("%x", p.Param)})
	}
	var as []ra
	for _, a := range c.Addrs {
		as = append(as, ra{a.Kind, fmt.Sprintf("%x", a.Addr), fmt.Sprintf("%x", a.Code)})
	}
	return map[string]any{
		"level": level, "addresses": as, "signed_data": fmt.Sprintf("%x", c.Data), "programs": ps, "edits": c.Edits,
		"reference": map[string]any{"accept": refOK, "clause": refClause},
		"node":      map[string]any{"accept": accepted, "error": nodeErr},
	}
}

func (c *tcase) keyBytes(level string) []byte {
	var b bytes.Buffer
	b.WriteString(level)
	for _, a := range c.Addrs {
		b.Write(a.Addr)
	}
	for _, p := range c.Programs {
		binary.Write(&b, binary.BigEndian, uint32(len(p.Code)))
		b.Write(p.Code)
		binary.Write(&b, binary.BigEndian, uint32(len(p.Param)))
		b.Write(p.Param)
	}
	b.Write(c.Data)
	return b.Bytes()
}
