// Independent cryptography of the C05 reference verifier.
//
// Nothing in this file calls into /repo: ECDSA verification is the standard
// library's, signing is a deterministic textbook ECDSA over math/big (the
// nonce is derived from the key and the digest, never from an entropy
// source), and the Schnorr scheme of crypto/schnorr.go is re-implemented on an
// own affine P-256 arithmetic.
package c05

import (
	"crypto/ecdsa"
	"crypto/elliptic"
	"crypto/sha256"
	"encoding/binary"
	"math/big"

	"golang.org/x/crypto/ripemd160"
)

var (
	p256   = elliptic.P256()
	curveN = p256.Params().N
	curveP = p256.Params().P
	curveB = p256.Params().B
	curveG = point{p256.Params().Gx, p256.Params().Gy}
	big3   = big.NewInt(3)
)

// ---------------------------------------------------------------------------
// hashes

func sha(b []byte) []byte { h := sha256.Sum256(b); return h[:] }

func sha256d(b []byte) [32]byte {
	h := sha256.Sum256(b)
	return sha256.Sum256(h[:])
}

// hash160 is ripemd160(sha256(code)): the 20 address bytes after the prefix.
func hash160(code []byte) [20]byte {
	h := sha256.Sum256(code)
	r := ripemd160.New()
	r.Write(h[:])
	var out [20]byte
	copy(out[:], r.Sum(nil))
	return out
}

// ---------------------------------------------------------------------------
// affine P-256 arithmetic on math/big (used by the Schnorr reference only)

type point struct{ x, y *big.Int } // x == nil: point at infinity

func (p point) inf() bool { return p.x == nil }

func mod(a *big.Int) *big.Int { return a.Mod(a, curveP) }

func onCurve(p point) bool {
	if p.inf() {
		return false
	}
	if p.x.Sign() < 0 || p.y.Sign() < 0 || p.x.Cmp(curveP) >= 0 || p.y.Cmp(curveP) >= 0 {
		return false
	}
	l := new(big.Int).Mul(p.y, p.y)
	mod(l)
	r := new(big.Int).Mul(p.x, p.x)
	r.Mul(r, p.x)
	r.Sub(r, new(big.Int).Mul(big3, p.x))
	r.Add(r, curveB)
	mod(r)
	return l.Cmp(r) == 0
}

func neg(p point) point {
	if p.inf() {
		return p
	}
	y := new(big.Int).Sub(curveP, p.y)
	mod(y)
	return point{new(big.Int).Set(p.x), y}
}

func add(p, q point) point {
	if p.inf() {
		return q
	}
	if q.inf() {
		return p
	}
	var lam *big.Int
	if p.x.Cmp(q.x) == 0 {
		s := new(big.Int).Add(p.y, q.y)
		mod(s)
		if s.Sign() == 0 {
			return point{} // p == -q
		}
		// doubling: (3x^2 - 3) / 2y
		num := new(big.Int).Mul(p.x, p.x)
		num.Mul(num, big3)
		num.Sub(num, big3)
		mod(num)
		den := new(big.Int).Lsh(p.y, 1)
		mod(den)
		den.ModInverse(den, curveP)
		lam = num.Mul(num, den)
	} else {
		num := new(big.Int).Sub(q.y, p.y)
		mod(num)
		den := new(big.Int).Sub(q.x, p.x)
		mod(den)
		den.ModInverse(den, curveP)
		lam = num.Mul(num, den)
	}
	mod(lam)
	x := new(big.Int).Mul(lam, lam)
	x.Sub(x, p.x)
	x.Sub(x, q.x)
	mod(x)
	y := new(big.Int).Sub(p.x, x)
	y.Mul(y, lam)
	y.Sub(y, p.y)
	mod(y)
	return point{x, y}
}

func mul(p point, k *big.Int) point {
	k = new(big.Int).Mod(k, curveN)
	var acc point
	for i := k.BitLen() - 1; i >= 0; i-- {
		acc = add(acc, acc)
		if k.Bit(i) == 1 {
			acc = add(acc, p)
		}
	}
	return acc
}

// compress renders 02/03 || X.
func compress(p point) []byte {
	out := make([]byte, 33)
	out[0] = 2 + byte(p.y.Bit(0))
	p.x.FillBytes(out[1:])
	return out
}

// decompress parses a 33-byte compressed point; ok=false unless it is a point
// of the curve with canonical coordinates.
func decompress(b []byte) (point, bool) {
	if len(b) != 33 || (b[0] != 2 && b[0] != 3) {
		return point{}, false
	}
	x := new(big.Int).SetBytes(b[1:])
	if x.Cmp(curveP) >= 0 {
		return point{}, false
	}
	y2 := new(big.Int).Mul(x, x)
	y2.Mul(y2, x)
	y2.Sub(y2, new(big.Int).Mul(big3, x))
	y2.Add(y2, curveB)
	mod(y2)
	y := new(big.Int).ModSqrt(y2, curveP)
	if y == nil {
		return point{}, false
	}
	if y.Bit(0) != uint(b[0]&1) {
		y.Sub(curveP, y)
		mod(y)
	}
	p := point{x, y}
	if !onCurve(p) {
		return point{}, false
	}
	return p, true
}

// ---------------------------------------------------------------------------
// keys

type key struct {
	id   int
	d    *big.Int
	pub  point
	comp []byte // 33-byte compressed public key
}

func keyFromSeed(seed uint64) *key {
	var b [16]byte
	copy(b[:], "c05-key!")
	binary.BigEndian.PutUint64(b[8:], seed)
	d := new(big.Int).SetBytes(sha(b[:]))
	d.Mod(d, new(big.Int).Sub(curveN, big.NewInt(1)))
	d.Add(d, big.NewInt(1))
	buf := make([]byte, 32)
	d.FillBytes(buf)
	x, y := p256.ScalarBaseMult(buf)
	k := &key{id: int(seed), d: d, pub: point{x, y}}
	k.comp = compress(k.pub)
	return k
}

// signECDSA is deterministic textbook ECDSA over sha256(data); the variant
// integer diversifies the nonce so that one key can produce several distinct
// signatures of the same data. Returns r||s, 64 bytes.
func (k *key) signECDSA(data []byte, variant int) []byte {
	return k.signDigest(sha(data), variant)
}

func (k *key) signDigest(digest []byte, variant int) []byte {
	z := new(big.Int).SetBytes(digest)
	for ctr := 0; ; ctr++ {
		seed := append(k.d.Bytes(), digest...)
		seed = binary.BigEndian.AppendUint32(seed, uint32(variant))
		seed = binary.BigEndian.AppendUint32(seed, uint32(ctr))
		nonce := new(big.Int).SetBytes(sha(seed))
		nonce.Mod(nonce, new(big.Int).Sub(curveN, big.NewInt(1)))
		nonce.Add(nonce, big.NewInt(1))
		nb := make([]byte, 32)
		nonce.FillBytes(nb)
		rx, _ := p256.ScalarBaseMult(nb)
		r := new(big.Int).Mod(rx, curveN)
		if r.Sign() == 0 {
			continue
		}
		s := new(big.Int).Mul(r, k.d)
		s.Add(s, z)
		s.Mul(s, new(big.Int).ModInverse(nonce, curveN))
		s.Mod(s, curveN)
		if s.Sign() == 0 {
			continue
		}
		out := make([]byte, 64)
		r.FillBytes(out[:32])
		s.FillBytes(out[32:])
		return out
	}
}

// verifyECDSA: is sig (r||s, 64 bytes) a valid P-256 ECDSA signature of
// sha256(data) under the 33-byte compressed key?
func verifyECDSA(comp []byte, data, sig []byte) bool {
	if len(sig) != 64 {
		return false
	}
	x, y := elliptic.UnmarshalCompressed(p256, comp)
	if x == nil {
		return false
	}
	pub := ecdsa.PublicKey{Curve: p256, X: x, Y: y}
	r := new(big.Int).SetBytes(sig[:32])
	s := new(big.Int).SetBytes(sig[32:])
	return ecdsa.Verify(&pub, sha(data), r, s)
}

// ---------------------------------------------------------------------------
// Schnorr (scheme of crypto/schnorr.go): signature (r, s), r = x(R) with
// jacobi(y(R)) = 1, e = int(sha256(r32 || compressed(P) || m)) mod n,
// s*G = R + e*P.

func schnorrE(r32 []byte, pub point, msg [32]byte) *big.Int {
	b := append(append(append([]byte{}, r32...), compress(pub)...), msg[:]...)
	e := new(big.Int).SetBytes(sha(b))
	return e.Mod(e, curveN)
}

// schnorrSign signs msg with the aggregate of keys (sum of private keys; the
// public key is the sum of the public keys), deterministically.
func schnorrSign(keys []*key, msg [32]byte, variant int) [64]byte {
	d := new(big.Int)
	var pub point
	for _, k := range keys {
		d.Add(d, k.d)
		pub = add(pub, k.pub)
	}
	d.Mod(d, curveN)
	seed := append(d.Bytes(), msg[:]...)
	seed = binary.BigEndian.AppendUint32(seed, uint32(variant))
	k0 := new(big.Int).SetBytes(sha(seed))
	k0.Mod(k0, new(big.Int).Sub(curveN, big.NewInt(1)))
	k0.Add(k0, big.NewInt(1))
	R := mul(curveG, k0)
	if big.Jacobi(R.y, curveP) != 1 {
		k0.Sub(curveN, k0)
		R = neg(R)
	}
	var sig [64]byte
	R.x.FillBytes(sig[:32])
	e := schnorrE(sig[:32], pub, msg)
	s := new(big.Int).Mul(e, d)
	s.Add(s, k0)
	s.Mod(s, curveN)
	s.FillBytes(sig[32:])
	return sig
}

func schnorrVerify(comp []byte, msg [32]byte, sig []byte) bool {
	if len(sig) != 64 {
		return false
	}
	pub, ok := decompress(comp)
	if !ok {
		return false
	}
	r := new(big.Int).SetBytes(sig[:32])
	s := new(big.Int).SetBytes(sig[32:])
	if r.Cmp(curveP) >= 0 || s.Cmp(curveN) >= 0 {
		return false
	}
	e := schnorrE(sig[:32], pub, msg)
	R := add(mul(curveG, s), neg(mul(pub, e)))
	if R.inf() {
		return false
	}
	if big.Jacobi(R.y, curveP) != 1 {
		return false
	}
	return R.x.Cmp(r) == 0
}

func aggregatePub(keys []*key) point {
	var pub point
	for _, k := range keys {
		pub = add(pub, k.pub)
	}
	return pub
}

func newInt(b []byte) *big.Int { return new(big.Int).SetBytes(b) }
