// C05 - spending requires valid signatures from every spent address.
//
// Generator: a key ring, 1-4 distinct spent addresses of every family the node
// knows (plus malformed scripts and unknown prefixes), the honest program set,
// then 0-2 adversarial edits.  Oracle: the reference verifier in ref.go
// (soundness: node accepts => reference accepts) and honest => accepted as a
// non-vacuity guard.  Levels: blockchain.RunPrograms directly, and the real
// checkTransactionSignature (hook) on a TransferAsset transaction.
package c05

import (
	"bytes"
	"encoding/binary"
	"fmt"
	"os"
	"strings"
	"testing"

	"github.com/elastos/Elastos.ELA/blockchain"
	"github.com/elastos/Elastos.ELA/common"
	"github.com/elastos/Elastos.ELA/common/log"
	"github.com/elastos/Elastos.ELA/core"
	"github.com/elastos/Elastos.ELA/core/contract/program"
	"github.com/elastos/Elastos.ELA/core/transaction"
	ctypes "github.com/elastos/Elastos.ELA/core/types/common"
	"github.com/elastos/Elastos.ELA/core/types/functions"
	"github.com/elastos/Elastos.ELA/core/types/interfaces"
	"github.com/elastos/Elastos.ELA/core/types/outputpayload"
	"github.com/elastos/Elastos.ELA/core/types/payload"
	"pgregory.net/rapid"
	"verifharness/lib/vk"
)

func TestMain(m *testing.M) {
	functions.GetTransactionByTxType = transaction.GetTransaction
	functions.GetTransactionByBytes = transaction.GetTransactionByBytes
	functions.CreateTransaction = transaction.CreateTransaction
	functions.GetTransactionParameters = transaction.GetTransactionparameters
	// RunPrograms logs through the process-global logger, which every real
	// node initialises at start-up (a nil logger would crash the deposit
	// multisig branch); a high level keeps it quiet.
	if dir, err := os.MkdirTemp("", "c05-log"); err == nil {
		log.NewDefault(dir, 6, 0, 0)
	}
	vk.Main(m, "C05")
}

// ---------------------------------------------------------------------------
// transaction level

type txSpec struct {
	Version  byte
	Attrs    []attrSpec
	Inputs   []inSpec
	Outputs  []outSpec
	LockTime uint32
}
type attrSpec struct {
	Usage byte
	Data  []byte
}
type inSpec struct {
	TxID     [32]byte
	Index    uint16
	Sequence uint32
	addr     int // index of the spent address
}
type outSpec struct {
	Value int64
	Lock  uint32
	To    [21]byte
}

func varUint(v uint64) []byte {
	switch {
	case v < 0xfd:
		return []byte{byte(v)}
	case v <= 0xffff:
		return binary.LittleEndian.AppendUint16([]byte{0xfd}, uint16(v))
	case v <= 0xffffffff:
		return binary.LittleEndian.AppendUint32([]byte{0xfe}, uint32(v))
	}
	return binary.LittleEndian.AppendUint64([]byte{0xff}, v)
}

// unsignedBytes is the harness's own encoding of the signed part of a
// TransferAsset transaction (the statement's "unsigned bytes").
func (s *txSpec) unsignedBytes() []byte {
	var b []byte
	if s.Version >= 9 {
		b = append(b, s.Version)
	}
	b = append(b, 0x02, 0x00) // TransferAsset, payload version 0, empty payload
	b = append(b, varUint(uint64(len(s.Attrs)))...)
	for _, a := range s.Attrs {
		b = append(b, a.Usage)
		b = append(b, varUint(uint64(len(a.Data)))...)
		b = append(b, a.Data...)
	}
	b = append(b, varUint(uint64(len(s.Inputs)))...)
	for _, in := range s.Inputs {
		b = append(b, in.TxID[:]...)
		b = binary.LittleEndian.AppendUint16(b, in.Index)
		b = binary.LittleEndian.AppendUint32(b, in.Sequence)
	}
	b = append(b, varUint(uint64(len(s.Outputs)))...)
	for _, o := range s.Outputs {
		b = append(b, core.ELAAssetID[:]...)
		b = binary.LittleEndian.AppendUint64(b, uint64(o.Value))
		b = binary.LittleEndian.AppendUint32(b, o.Lock)
		b = append(b, o.To[:]...)
		if s.Version >= 9 {
			b = append(b, 0x00) // OTNone, empty payload
		}
	}
	return binary.LittleEndian.AppendUint32(b, s.LockTime)
}

// build makes the node's transaction object and the reference map the context
// check would hand to checkTransactionSignature.
func (s *txSpec) build(addrs []*addrSpec, programs []prog) (interfaces.Transaction, map[*ctypes.Input]ctypes.Output) {
	var attrs []*ctypes.Attribute
	for _, a := range s.Attrs {
		attrs = append(attrs, &ctypes.Attribute{Usage: ctypes.AttributeUsage(a.Usage), Data: a.Data})
	}
	var ins []*ctypes.Input
	refs := map[*ctypes.Input]ctypes.Output{}
	for _, in := range s.Inputs {
		i := &ctypes.Input{Previous: ctypes.OutPoint{TxID: in.TxID, Index: in.Index}, Sequence: in.Sequence}
		ins = append(ins, i)
		var ph common.Uint168
		copy(ph[:], addrs[in.addr].Addr)
		refs[i] = ctypes.Output{AssetID: core.ELAAssetID, Value: 1000, ProgramHash: ph,
			Type: ctypes.OTNone, Payload: &outputpayload.DefaultOutput{}}
	}
	var outs []*ctypes.Output
	for _, o := range s.Outputs {
		outs = append(outs, &ctypes.Output{AssetID: core.ELAAssetID, Value: common.Fixed64(o.Value), OutputLock: o.Lock,
			ProgramHash: o.To, Type: ctypes.OTNone, Payload: &outputpayload.DefaultOutput{}})
	}
	var ps []*program.Program
	for _, p := range programs {
		ps = append(ps, &program.Program{Code: p.Code, Parameter: p.Param})
	}
	tx := functions.CreateTransaction(ctypes.TransactionVersion(s.Version), ctypes.TransferAsset, 0,
		&payload.TransferAsset{}, attrs, ins, outs, s.LockTime, ps)
	return tx, refs
}

func drawTxSpec(t *rapid.T, addrs []*addrSpec) (*txSpec, [][]byte) {
	s := &txSpec{Version: rapid.SampledFrom([]byte{0, 9}).Draw(t, "txversion")}
	// every address is referenced by 1-2 inputs or by a Script attribute
	var needed [][]byte
	for i, a := range addrs {
		viaAttr := rapid.IntRange(0, 5).Draw(t, "viaattr") == 0
		if viaAttr {
			s.Attrs = append(s.Attrs, attrSpec{0x20, append([]byte{}, a.Addr...)})
		}
		nin := rapid.IntRange(1, 2).Draw(t, "nin")
		if viaAttr {
			nin = rapid.IntRange(0, 1).Draw(t, "nin")
		}
		for j := 0; j < nin; j++ {
			var in inSpec
			copy(in.TxID[:], rapid.SliceOfN(rapid.Byte(), 32, 32).Draw(t, "txid"))
			in.Index = uint16(rapid.IntRange(0, 3).Draw(t, "index"))
			in.Sequence = rapid.SampledFrom([]uint32{0, 0xfffffffe, 0xffffffff}).Draw(t, "seq")
			in.addr = i
			s.Inputs = append(s.Inputs, in)
		}
		needed = append(needed, a.Addr)
	}
	if len(s.Inputs) == 0 {
		var in inSpec
		copy(in.TxID[:], rapid.SliceOfN(rapid.Byte(), 32, 32).Draw(t, "txid"))
		in.addr = 0
		s.Inputs = append(s.Inputs, in)
	}
	if rapid.IntRange(0, 3).Draw(t, "memo") == 0 {
		s.Attrs = append(s.Attrs, attrSpec{0x81, rapid.SliceOfN(rapid.Byte(), 0, 12).Draw(t, "memodata")})
	}
	nout := rapid.IntRange(1, 3).Draw(t, "nout")
	for i := 0; i < nout; i++ {
		var o outSpec
		o.Value = rapid.Int64Range(0, 1<<40).Draw(t, "value")
		copy(o.To[:], rapid.SliceOfN(rapid.Byte(), 21, 21).Draw(t, "to"))
		s.Outputs = append(s.Outputs, o)
	}
	s.LockTime = uint32(rapid.IntRange(0, 3).Draw(t, "locktime"))
	return s, needed
}

// mutate changes one signed field of the transaction (after signing).
func (s *txSpec) mutate(t *rapid.T) string {
	switch rapid.IntRange(0, 6).Draw(t, "txmut") {
	case 0:
		o := &s.Outputs[rapid.IntRange(0, len(s.Outputs)-1).Draw(t, "out")]
		o.Value++
		return "output-value"
	case 1:
		o := &s.Outputs[rapid.IntRange(0, len(s.Outputs)-1).Draw(t, "out")]
		o.To[rapid.IntRange(0, 20).Draw(t, "byte")] ^= 0x10
		return "output-address"
	case 2:
		s.LockTime++
		return "locktime"
	case 3:
		in := &s.Inputs[rapid.IntRange(0, len(s.Inputs)-1).Draw(t, "in")]
		in.Index ^= 1
		return "input-index"
	case 4:
		in := &s.Inputs[rapid.IntRange(0, len(s.Inputs)-1).Draw(t, "in")]
		in.Sequence ^= 1
		return "input-sequence"
	case 5:
		s.Attrs = append(s.Attrs, attrSpec{0x81, []byte("x")})
		return "attribute-added"
	default:
		s.Outputs = append(s.Outputs, s.Outputs[0])
		return "output-added"
	}
}

// ---------------------------------------------------------------------------
// the property

// cryptoDecided tells whether a rejection was decided by signature
// verification / signer counting rather than by a syntactic pre-check.
func cryptoDecided(err error) bool {
	if err == nil {
		return true
	}
	m := err.Error()
	for _, s := range []string{"Verify failed", "matched signatures not enough", "duplicated signatures",
		"check schnorr signature failed", "the data hashes is different"} {
		if strings.Contains(m, s) {
			return true
		}
	}
	return false
}

func runCase(t *rapid.T, level string, forcedKinds []string, maxEdits int) {
	forcedKind := ""
	if len(forcedKinds) > 0 {
		forcedKind = rapid.SampledFrom(forcedKinds).Draw(t, "forcedkind")
	}
	r := drawRing(t)
	c := &tcase{ring: r}
	naddr := rapid.SampledFrom([]int{1, 1, 1, 2, 2, 3, 4}).Draw(t, "naddr")
	seen := map[string]bool{}
	for i := 0; i < naddr; i++ {
		k := ""
		if i == 0 {
			k = forcedKind
		}
		a := drawAddr(t, r, k)
		if seen[string(a.Addr)] {
			continue
		}
		seen[string(a.Addr)] = true
		c.Addrs = append(c.Addrs, a)
	}

	var spec *txSpec
	needed := c.addrBytes()
	if level == "tx" {
		spec, needed = drawTxSpec(t, c.Addrs)
		c.Data = spec.unsignedBytes()
	} else {
		c.Data = rapid.SliceOfN(rapid.Byte(), 0, 96).Draw(t, "data")
	}
	for _, a := range c.Addrs {
		c.Programs = append(c.Programs, honestProgram(a, c.Data))
	}

	nedits := rapid.SampledFrom([]int{0, 1, 1, 1, 1, 2, 2}).Draw(t, "nedits")
	if focusMulti {
		nedits = rapid.SampledFrom([]int{1, 1, 1, 2, 2, 3}).Draw(t, "nedits")
	}
	if nedits > maxEdits {
		nedits = maxEdits
	}
	for i := 0; i < nedits; i++ {
		pi := -1
		if len(c.Programs) > 0 {
			pi = rapid.IntRange(0, len(c.Programs)-1).Draw(t, "prog")
			if focusMulti {
				pi = 0
			}
		}
		kind := rapid.SampledFrom(c.editMenu(pi)).Draw(t, "edit")
		if kind == "tamper-data" && spec != nil {
			c.Edits = append(c.Edits, "tamper-tx:"+spec.mutate(t))
			c.Data = spec.unsignedBytes()
			continue
		}
		if c.applyEdit(t, kind, pi) {
			c.Edits = append(c.Edits, kind)
		}
	}

	// ---- the node
	var nodeErr error
	var tx interfaces.Transaction
	journal := c.keyBytes(level)
	vk.Journal(journal)
	panicked, pv, frame := vk.Catch(func() {
		if level == "tx" {
			var refs map[*ctypes.Input]ctypes.Output
			tx, refs = spec.build(c.Addrs, c.Programs)
			buf := new(bytes.Buffer)
			if err := tx.SerializeUnsigned(buf); err != nil {
				t.Fatalf("harness: SerializeUnsigned: %v", err)
			}
			if !bytes.Equal(buf.Bytes(), c.Data) {
				t.Fatalf("harness: own unsigned encoding differs from the node's:\n own  %x\n node %x", c.Data, buf.Bytes())
			}
			nodeErr = transaction.VerifC05CheckTransactionSignature(tx, refs)
		} else {
			var hashes []common.Uint168
			for _, a := range c.Addrs {
				var h common.Uint168
				copy(h[:], a.Addr)
				hashes = append(hashes, h)
			}
			var ps []*program.Program
			for _, p := range c.Programs {
				ps = append(ps, &program.Program{Code: p.Code, Parameter: p.Param})
			}
			nodeErr = blockchain.RunPrograms(c.Data, hashes, ps)
		}
	})
	if panicked {
		// a crash is C03's subject; for C05 it is "not accepted"
		vk.Class("node-panicked(C03):" + frame)
		nodeErr = fmt.Errorf("panic: %v", pv)
	}
	accepted := nodeErr == nil

	// ---- the reference
	strict := refStrict(c.Data, needed, c.Programs)
	errText := ""
	if nodeErr != nil {
		errText = nodeErr.Error()
	}
	rendered := func() any { return c.render(level, strict.ok, strict.clause, accepted, errText) }

	editClass := "honest"
	if len(c.Edits) > 0 {
		var es []string
		for _, e := range c.Edits {
			es = append(es, strings.SplitN(e, ":", 2)[0])
		}
		editClass = strings.Join(es, "+")
	}
	for _, a := range c.Addrs {
		vk.Class("addr:" + a.Kind)
	}
	vk.Class(fmt.Sprintf("verdict:ref=%v,node=%v", strict.ok, accepted))
	nontrivial := len(c.Edits) > 0 && cryptoDecided(nodeErr)
	defer vk.Case(level+"|"+editClass, nontrivial, journal, rendered)

	if accepted && !strict.ok {
		sig := "C05:accepted:" + strict.clause
		if !vk.Report(t, sig, fmt.Sprintf("%s accepted although the reference rejects (%s) for address %x; edits %v",
			level, strict.clause, strict.addr, c.Edits), rendered()) {
			return
		}
		if strict.clause == "crosschain-address-code-not-bound" {
			// keep searching behind the known finding with the weaker oracle
			weak := refWeakCrossChain(c.Data, needed, c.Programs)
			if !weak.ok {
				if !vk.Report(t, "C05:accepted:"+weak.clause, fmt.Sprintf("%s accepted although even the weak cross-chain oracle rejects (%s); edits %v",
					level, weak.clause, c.Edits), rendered()) {
					return
				}
			}
		}
	}

	// harness self-check: the reference accepts what an honest owner presents
	if len(c.Edits) == 0 && !strict.ok {
		wellFormed := true
		for _, a := range c.Addrs {
			wellFormed = wellFormed && a.bound && (a.spendable || a.Kind == "multisig-1of1")
		}
		if wellFormed {
			t.Fatalf("harness: reference rejects an honest case (%s): %+v", strict.clause, rendered())
		}
	}

	// completeness (non-vacuity): an honest owner can spend
	if len(c.Edits) == 0 && !accepted {
		spendable := true
		allBound := true
		kinds := ""
		for _, a := range c.Addrs {
			spendable = spendable && a.spendable
			allBound = allBound && a.bound
			kinds += a.Kind + ","
		}
		// index-wise pairing by code hash is only defined when every address is
		// the hash of its script (or there is a single address)
		if spendable && (allBound || len(c.Addrs) == 1) && (level == "tx" || allBound || len(c.Addrs) == 1) {
			if level == "RunPrograms" && len(c.Addrs) > 1 {
				// RunPrograms pairs by position: the honest lists are aligned
			}
			vk.Report(t, "C05:honest-rejected:"+c.Addrs[0].Kind, fmt.Sprintf("%s rejected an honestly signed spend of [%s]: %v",
				level, kinds, nodeErr), rendered())
		}
	}
}

func TestRunPrograms(t *testing.T) {
	rapid.Check(t, func(t *rapid.T) { runCase(t, "RunPrograms", nil, 2) })
}

func TestTxSignature(t *testing.T) {
	rapid.Check(t, func(t *rapid.T) { runCase(t, "tx", nil, 2) })
}

// TestMultiSigSigners concentrates on the m-of-n DISTINCT signer clause: the
// first address is a multisig-class script needing >= 2 signers and all edits
// act on its signature list.
func TestMultiSigSigners(t *testing.T) {
	focusMulti = true
	defer func() { focusMulti = false }()
	rapid.Check(t, func(t *rapid.T) {
		level := rapid.SampledFrom([]string{"RunPrograms", "tx"}).Draw(t, "level")
		runCase(t, level, multiKinds, 3)
	})
}
