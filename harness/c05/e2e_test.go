package c05

import (
	"fmt"
	"strings"
	"testing"

	"github.com/elastos/Elastos.ELA/common"
	"github.com/elastos/Elastos.ELA/common/config"
	"github.com/elastos/Elastos.ELA/core/types"
	"github.com/elastos/Elastos.ELA/core/types/interfaces"
	"pgregory.net/rapid"
	"verifharness/lib/vk"
	"verifharness/node"
)

// End-to-end level: on a fresh in-process node (regnet, proof-of-work era) a
// first block funds 1-3 generated addresses from the genesis coin, then a
// TransferAsset spending those outputs with the (edited) programs is offered
// to the mempool and, in a block, to ProcessBlock - the two ways a
// transaction reaches the ledger.  Same oracle as the other levels.

var e2eKinds = []string{
	"standard", "standard", "multisig", "multisig", "multisig-dupkey", "standard-prefix-multisig",
	"schnorr", "crosschain-bound", "crosschain-unbound", "crosschain-unbound", "crosschain-schnorr-unbound",
	"malformed", "multisig-1of1",
}

func mineEmpty(t *rapid.T, n *node.Node, parent **types.Block, count int) {
	for i := 0; i < count; i++ {
		b, err := n.BuildBlock(node.BlockSpec{Parent: *parent})
		if err != nil {
			t.Fatalf("harness: BuildBlock: %v", err)
		}
		if in, _, err := n.Process(b); err != nil || !in {
			t.Fatalf("harness: empty block rejected: %v", err)
		}
		*parent = b
	}
}

func TestEndToEnd(t *testing.T) {
	rapid.Check(t, func(t *rapid.T) {
		n, err := node.New(node.Opts{NKeys: 2, Tweak: func(p *config.Configuration) {
			p.NormalSchnorrStartHeight = 2
		}})
		if err != nil {
			t.Fatalf("harness: node.New: %v", err)
		}
		defer n.Close()
		tip := n.Genesis
		mineEmpty(t, n, &tip, 2)

		r := drawRing(t)
		c := &tcase{ring: r}
		naddr := rapid.SampledFrom([]int{1, 1, 2, 3}).Draw(t, "naddr")
		seen := map[string]bool{}
		for i := 0; i < naddr; i++ {
			a := drawAddr(t, r, rapid.SampledFrom(e2eKinds).Draw(t, "kind"))
			if a.Kind == "malformed" && (a.Prefix == prefDeposit || len(a.Code) < 23) {
				// deposit outputs need a registered producer; the sanity check
				// refuses programs with a code shorter than 23 bytes
				a.Prefix = prefStandard
				if len(a.Code) < 23 {
					a.Code = append(a.Code, make([]byte, 23-len(a.Code))...)
				}
				a.Addr = addrOf(a.Prefix, a.Code)
			}
			if seen[string(a.Addr)] {
				continue
			}
			seen[string(a.Addr)] = true
			c.Addrs = append(c.Addrs, a)
		}

		// ---- funding block: genesis coin -> one output per address (+ change)
		blocks, err := n.ActiveChain()
		if err != nil {
			t.Fatalf("harness: ActiveChain: %v", err)
		}
		u, err := node.Replay(blocks, n.KeyIndexOf)
		if err != nil {
			t.Fatalf("harness: replay: %v", err)
		}
		var coin *node.Coin
		for _, cn := range u.Spendable(n.Chain.GetHeight()+1, n.Params.PowConfiguration.CoinbaseMaturity) {
			cn := cn
			if cn.KeyIdx == 0 && cn.Value > 1000*100000000 {
				coin = &cn
				break
			}
		}
		if coin == nil {
			t.Fatalf("harness: no funding coin")
		}
		fee := common.Fixed64(10000)
		const each = common.Fixed64(5 * 100000000)
		var outs []node.Out
		for _, a := range c.Addrs {
			var h common.Uint168
			copy(h[:], a.Addr)
			outs = append(outs, node.Out{To: h, Value: each})
		}
		outs = append(outs, node.Out{To: n.Keys[0].ProgramHash, Value: coin.Value - each*common.Fixed64(len(c.Addrs)) - fee})
		fund, err := n.Transfer([]node.Coin{*coin}, outs, n.Chain.GetHeight()+1)
		if err != nil {
			t.Fatalf("harness: funding tx: %v", err)
		}
		fb, err := n.BuildBlock(node.BlockSpec{Parent: tip, Txs: []interfaces.Transaction{fund}, Fees: fee})
		if err != nil {
			t.Fatalf("harness: funding block: %v", err)
		}
		if in, _, err := n.Process(fb); err != nil || !in {
			t.Fatalf("harness: funding block rejected: %v", err)
		}
		tip = fb
		mineEmpty(t, n, &tip, 1)

		// ---- the spend
		spendHeight := n.Chain.GetHeight() + 1
		spec := &txSpec{Version: byte(n.TxVersionAt(spendHeight))}
		fh := fund.Hash()
		for i := range c.Addrs {
			in := inSpec{Index: uint16(i), Sequence: 0, addr: i}
			copy(in.TxID[:], fh[:])
			spec.Inputs = append(spec.Inputs, in)
		}
		var to [21]byte
		copy(to[:], n.Keys[1].ProgramHash[:])
		spec.Outputs = []outSpec{{Value: int64(each*common.Fixed64(len(c.Addrs)) - fee), To: to}}
		if rapid.Bool().Draw(t, "twoouts") {
			v := spec.Outputs[0].Value
			spec.Outputs = []outSpec{{Value: v / 2, To: to}, {Value: v - v/2, To: to}}
		}
		c.Data = spec.unsignedBytes()
		for _, a := range c.Addrs {
			c.Programs = append(c.Programs, honestProgram(a, c.Data))
		}
		nedits := rapid.SampledFrom([]int{0, 1, 1, 1, 2}).Draw(t, "nedits")
		for i := 0; i < nedits; i++ {
			pi := rapid.IntRange(0, len(c.Programs)-1).Draw(t, "prog")
			kind := rapid.SampledFrom(c.editMenu(pi)).Draw(t, "edit")
			if kind == "tamper-data" {
				// only mutations that keep the transaction valid in every other respect
				o := &spec.Outputs[rapid.IntRange(0, len(spec.Outputs)-1).Draw(t, "out")]
				switch rapid.IntRange(0, 2).Draw(t, "txmut") {
				case 0:
					o.Value -= 1
					c.Edits = append(c.Edits, "tamper-tx:output-value")
				case 1:
					copy(o.To[:], n.Keys[0].ProgramHash[:]) // redirect the payment
					c.Edits = append(c.Edits, "tamper-tx:output-address")
				default:
					spec.LockTime++
					c.Edits = append(c.Edits, "tamper-tx:locktime")
				}
				c.Data = spec.unsignedBytes()
				continue
			}
			if len(c.Programs) > 0 && c.applyEdit(t, kind, pi) {
				c.Edits = append(c.Edits, kind)
			}
			if len(c.Programs) == 0 {
				break
			}
		}
		for i := range c.Programs {
			if c.Programs[i].Param == nil {
				c.Programs[i].Param = []byte{}
			}
		}

		journal := c.keyBytes("e2e")
		vk.Journal(journal)
		var poolErr, blockErr error
		inMain := false
		panicked, pv, frame := vk.Catch(func() {
			tx, _ := spec.build(c.Addrs, c.Programs)
			if e := n.Pool.AppendToTxPool(tx); e != nil {
				poolErr = e
			}
			tx2, _ := spec.build(c.Addrs, c.Programs)
			sb, err := n.BuildBlock(node.BlockSpec{Parent: tip, Txs: []interfaces.Transaction{tx2}, Fees: fee})
			if err != nil {
				t.Fatalf("harness: spend block: %v", err)
			}
			inMain, _, blockErr = n.Process(sb)
		})
		if panicked {
			vk.Class("node-panicked(C03):" + frame)
			poolErr, blockErr = fmt.Errorf("panic: %v", pv), fmt.Errorf("panic: %v", pv)
		}
		poolOK := poolErr == nil
		blockOK := blockErr == nil && inMain

		needed := c.addrBytes()
		strict := refStrict(c.Data, needed, c.Programs)
		errText := fmt.Sprintf("pool: %v; block: %v", poolErr, blockErr)
		rendered := func() any { return c.render("e2e", strict.ok, strict.clause, poolOK || blockOK, errText) }
		editClass := "honest"
		if len(c.Edits) > 0 {
			var es []string
			for _, e := range c.Edits {
				es = append(es, strings.SplitN(e, ":", 2)[0])
			}
			editClass = strings.Join(es, "+")
		}
		for _, a := range c.Addrs {
			vk.Class("addr:" + a.Kind)
		}
		vk.Class(fmt.Sprintf("verdict:ref=%v,pool=%v,block=%v", strict.ok, poolOK, blockOK))
		// the mempool reports the precise reason; the block path only "context check failed"
		sigDecided := blockOK || (poolErr != nil && cryptoDecided(poolErr))
		defer vk.Case("e2e|"+editClass, len(c.Edits) > 0 && sigDecided, journal, rendered)

		for _, acc := range []struct {
			ok   bool
			path string
		}{{poolOK, "mempool"}, {blockOK, "ProcessBlock"}} {
			if !acc.ok || strict.ok {
				continue
			}
			if !vk.Report(t, "C05:accepted:"+strict.clause, fmt.Sprintf("%s accepted a spend the reference rejects (%s) for address %x; edits %v",
				acc.path, strict.clause, strict.addr, c.Edits), rendered()) {
				return
			}
			if strict.clause == "crosschain-address-code-not-bound" {
				if weak := refWeakCrossChain(c.Data, needed, c.Programs); !weak.ok {
					if !vk.Report(t, "C05:accepted:"+weak.clause, fmt.Sprintf("%s accepted a spend even the weak cross-chain oracle rejects (%s); edits %v",
						acc.path, weak.clause, c.Edits), rendered()) {
						return
					}
				}
			}
		}

		if len(c.Edits) == 0 && (!poolOK || !blockOK) {
			spendable, allBound := true, true
			for _, a := range c.Addrs {
				spendable = spendable && a.spendable
				allBound = allBound && a.bound
			}
			if spendable && (allBound || len(c.Addrs) == 1) {
				vk.Report(t, "C05:honest-rejected:"+c.Addrs[0].Kind, "the node rejected an honestly signed spend: "+errText, rendered())
			}
		}
	})
}
