package c28

// Independent ledger model of deposits and DPoS-v2 vote rights.
//
// The model is fed the transactions the node accepted into each block (the
// transaction objects themselves) and the *roles* the node reports for the
// cast (producer state / identity / cancel height, CR candidate and member
// states).  From those it keeps its own books:
//
//	coins     per deposit address: the outpoints paid to it and not yet spent
//	lock      per producer / CR: the part of the deposit the protocol demands
//	          to stay locked for the role it currently has
//	rights    per stake address: staked minus returned
//	votes     per stake address: the DPoS-v2 votes in use with their lock times
//
// It never reads the balances it is compared with (TotalAmount, DepositAmount,
// AvailableAmount, DposV2VoteRights, UsedDposV2Votes).  Penalties are read
// from the node (Producer.Penalty, DepositInfo.Penalty): the penalty rules are
// C27/C21 territory; here they are an input like the roles.

import (
	"fmt"
	"sort"

	"github.com/elastos/Elastos.ELA/common"
	"github.com/elastos/Elastos.ELA/core/contract"
	common2 "github.com/elastos/Elastos.ELA/core/types/common"
	"github.com/elastos/Elastos.ELA/core/types/interfaces"
	"github.com/elastos/Elastos.ELA/core/types/outputpayload"
	"github.com/elastos/Elastos.ELA/core/types/payload"
	crstate "github.com/elastos/Elastos.ELA/cr/state"
	dstate "github.com/elastos/Elastos.ELA/dpos/state"
	"verifharness/statekit"
)

const (
	minDepositV1 = common.Fixed64(5000 * 1e8)
	minDepositV2 = common.Fixed64(2000 * 1e8)
)

type coins struct {
	utxo map[string]common.Fixed64 // refer key -> value
}

func newCoins() *coins { return &coins{utxo: map[string]common.Fixed64{}} }

func (c *coins) balance() common.Fixed64 {
	var s common.Fixed64
	for _, v := range c.utxo {
		s += v
	}
	return s
}

type prodLedger struct {
	idx      int
	key      *statekit.Key
	coins    *coins
	released bool // the protocol released the lock (cancel + lockup, forced cancel)
	// rereleased: an automatic cancel hit a producer whose lock had already been
	// released by an earlier cancel (it was made Illegal in between)
	rereleased bool
	// aliased: this producer's owner key is (or was) the node key of another
	// producer, or its node key another producer's owner key
	aliased bool
	// observed role after the previous block (inputs of the model)
	role prodRole
	// required lock after the previous block
	required common.Fixed64
	penalty  common.Fixed64
}

type prodRole struct {
	exists       bool
	state        dstate.ProducerState
	identity     dstate.ProducerIdentity
	cancelHeight uint32
	stakeUntil   uint32
}

type crLedger struct {
	idx      int
	key      *statekit.Key
	coins    *coins
	required common.Fixed64
	penalty  common.Fixed64
	roleDesc string
	// seat: held a locked council seat after the previous block
	seat bool
	// cause qualifies a lock verdict (set by observeRoles)
	cause string
}

type v2vote struct {
	producer string // owner key hex
	amount   common.Fixed64
	lock     uint32
	info     payload.DetailedVoteInfo
}

type stakeLedger struct {
	idx    int
	key    *statekit.Key
	rights common.Fixed64
	votes  map[common.Uint256]*v2vote
}

func (s *stakeLedger) used() common.Fixed64 {
	var u common.Fixed64
	for _, v := range s.votes {
		u += v.amount
	}
	return u
}

type model struct {
	k         *statekit.Kit
	producers map[common.Uint168]*prodLedger // by deposit address
	crs       map[common.Uint168]*crLedger   // by deposit address
	stakes    map[common.Uint168]*stakeLedger
	nProd     int
	nCR       int
	nVoters   int
	// tainted ledgers diverged through a listed known finding
	tainted map[any]string
	// exploited counts accepted overdraws on tainted ledgers
	exploited []string
	// committee position after the previous block
	prevInElection    bool
	prevLastCommittee uint32
}

func newModel(k *statekit.Kit, nProd, nCR, nVoters int) *model {
	m := &model{k: k, producers: map[common.Uint168]*prodLedger{}, crs: map[common.Uint168]*crLedger{},
		stakes: map[common.Uint168]*stakeLedger{}, nProd: nProd, nCR: nCR, nVoters: nVoters, tainted: map[any]string{}}
	for v := 0; v < nVoters; v++ {
		key := statekit.K(statekit.KeyVoterBase + v)
		m.stakes[key.Stake] = &stakeLedger{idx: v, key: key, votes: map[common.Uint256]*v2vote{}}
	}
	return m
}

// finding is one verdict of the model.
type finding struct {
	sig    string
	detail string
	// subject is the ledger the verdict is about (excluded from further
	// comparison when the verdict is a listed known finding)
	subject any
}

func (m *model) ownerKey(i int) *statekit.Key { return statekit.K(statekit.KeyOwnerBase + i) }
func (m *model) crKey(i int) *statekit.Key    { return statekit.K(statekit.KeyCRBase + i) }

func (m *model) ownerByCode(code []byte) *statekit.Key {
	for i := 0; i < m.nProd; i++ {
		if string(m.ownerKey(i).Code) == string(code) {
			return m.ownerKey(i)
		}
	}
	return nil
}

func (m *model) crByCode(code []byte) *statekit.Key {
	for i := 0; i < m.nCR; i++ {
		if string(m.crKey(i).Code) == string(code) {
			return m.crKey(i)
		}
	}
	return nil
}

// blockTxs is what the model is told about a block.
type blockTx struct {
	kind string
	desc string
	tx   interfaces.Transaction
	refs map[*common2.Input]common2.Output
}

// apply advances the books by the transactions of the block at height h and
// returns verdicts about accepted withdrawals (judged against the books as they
// were before the block).
func (m *model) apply(h uint32, txs []blockTx) []finding {
	var out []finding
	withdrawnP := map[*prodLedger]common.Fixed64{}
	withdrawnC := map[*crLedger]common.Fixed64{}
	availP := map[*prodLedger]common.Fixed64{}
	availC := map[*crLedger]common.Fixed64{}
	balP := map[*prodLedger]common.Fixed64{}
	balC := map[*crLedger]common.Fixed64{}
	for _, l := range m.producers {
		balP[l] = l.coins.balance()
		availP[l] = balP[l] - l.penalty - l.required
	}
	for _, l := range m.crs {
		balC[l] = l.coins.balance()
		availC[l] = balC[l] - l.penalty - l.required
	}
	renewed := map[common.Uint256]bool{}
	added := map[common.Uint256]bool{}
	descP := map[*prodLedger][]string{}
	descC := map[*crLedger][]string{}
	// ledgers created by a registration in this block.  The node looks the payee of a deposit output up in maps that
	// the registration fills only when the block is committed (History), so a payment by ANOTHER transaction of the
	// registering block is not counted (TotalAmount stays below the coins; they cannot be returned).  That is
	// under-counting, not a withdrawal above the available amount: such a ledger is left out of the comparison.
	fresh := map[any]common.Uint256{}
	const uncounted = "observation (outside C28): a payment to a deposit address in the block that registers its owner is not counted by the node"

	for _, bt := range txs {
		tx := bt.tx
		hash := tx.Hash()
		// spends of deposit coins
		var spentP *prodLedger
		var spentC *crLedger
		var gross common.Fixed64
		for _, in := range tx.Inputs() {
			ref, ok := bt.refs[in]
			if !ok {
				continue
			}
			if contract.GetPrefixType(ref.ProgramHash) != contract.PrefixDeposit {
				continue
			}
			if l := m.producers[ref.ProgramHash]; l != nil && tx.TxType() == common2.ReturnDepositCoin {
				spentP = l
				gross += ref.Value
				delete(l.coins.utxo, in.ReferKey())
			}
			if l := m.crs[ref.ProgramHash]; l != nil && tx.TxType() == common2.ReturnCRDepositCoin {
				spentC = l
				gross += ref.Value
				delete(l.coins.utxo, in.ReferKey())
			}
		}
		// registrations create the ledgers
		switch tx.TxType() {
		case common2.RegisterProducer:
			info := tx.Payload().(*payload.ProducerInfo)
			for i := 0; i < m.nProd; i++ {
				if string(m.ownerKey(i).PK) == string(info.OwnerKey) {
					key := m.ownerKey(i)
					if m.producers[key.Deposit] == nil {
						m.producers[key.Deposit] = &prodLedger{idx: i, key: key, coins: newCoins()}
						fresh[m.producers[key.Deposit]] = hash
					}
					for j := 0; j < m.nProd; j++ {
						if j != i && string(info.NodePublicKey) == string(m.ownerKey(j).PK) {
							m.producers[key.Deposit].aliased = true
							if o := m.producers[m.ownerKey(j).Deposit]; o != nil {
								o.aliased = true
							}
						}
					}
					if p := m.k.Arbiters.State.GetProducer(info.OwnerKey); p != nil && string(p.OwnerPublicKey()) != string(info.OwnerKey) {
						m.producers[key.Deposit].aliased = true
					}
				}
			}
		case common2.RegisterCR:
			info := tx.Payload().(*payload.CRInfo)
			for i := 0; i < m.nCR; i++ {
				if m.crKey(i).CID.IsEqual(info.CID) {
					key := m.crKey(i)
					if m.crs[key.Deposit] == nil {
						m.crs[key.Deposit] = &crLedger{idx: i, key: key, coins: newCoins()}
						fresh[m.crs[key.Deposit]] = hash
					}
				}
			}
		}
		// payments to deposit addresses
		var change common.Fixed64
		for i, o := range tx.Outputs() {
			if contract.GetPrefixType(o.ProgramHash) != contract.PrefixDeposit {
				continue
			}
			rk := common2.NewOutPoint(hash, uint16(i)).ReferKey()
			if l := m.producers[o.ProgramHash]; l != nil {
				l.coins.utxo[rk] = o.Value
				if by, ok := fresh[l]; ok && by != hash {
					if _, done := m.tainted[l]; !done {
						m.tainted[l] = uncounted
					}
				}
				if l == spentP {
					change += o.Value
				}
			}
			if l := m.crs[o.ProgramHash]; l != nil {
				l.coins.utxo[rk] = o.Value
				if by, ok := fresh[l]; ok && by != hash {
					if _, done := m.tainted[l]; !done {
						m.tainted[l] = uncounted
					}
				}
				if l == spentC {
					change += o.Value
				}
			}
		}
		if spentP != nil {
			withdrawnP[spentP] += gross - change
			descP[spentP] = append(descP[spentP], bt.desc)
		}
		if spentC != nil {
			withdrawnC[spentC] += gross - change
			descC[spentC] = append(descC[spentC], bt.desc)
		}
		// vote rights
		switch tx.TxType() {
		case common2.ExchangeVotes:
			o := tx.Outputs()[0]
			if pl, ok := o.Payload.(*outputpayload.ExchangeVotesOutput); ok {
				if s := m.stakes[pl.StakeAddress]; s != nil {
					s.rights += o.Value
				}
			}
		case common2.ReturnVotes:
			pl := tx.Payload().(*payload.ReturnVotes)
			code := pl.Code
			if tx.PayloadVersion() != payload.ReturnVotesVersionV0 {
				code = tx.Programs()[0].Code
			}
			if s := m.stakeByCode(code); s != nil {
				s.rights -= pl.Value
			}
		case common2.Voting:
			s := m.stakeByCode(tx.Programs()[0].Code)
			if s == nil {
				break
			}
			pl := tx.Payload().(*payload.Voting)
			switch tx.PayloadVersion() {
			case payload.VoteVersion:
				for _, c := range pl.Contents {
					if c.VoteType != outputpayload.DposV2 {
						continue
					}
					for _, vi := range c.VotesInfo {
						dvi := payload.DetailedVoteInfo{StakeProgramHash: s.key.Stake, TransactionHash: hash, BlockHeight: h,
							PayloadVersion: tx.PayloadVersion(), VoteType: c.VoteType, Info: []payload.VotesWithLockTime{vi}}
						rk := dvi.ReferKey()
						s.votes[rk] = &v2vote{producer: common.BytesToHexString(vi.Candidate), amount: vi.Votes, lock: vi.LockTime, info: dvi}
						added[rk] = true
					}
				}
			case payload.RenewalVoteVersion:
				for _, c := range pl.RenewalContents {
					old := s.votes[c.ReferKey]
					if old == nil && renewed[c.ReferKey] {
						// the vote was renewed by an earlier transaction of this
						// block: the node books both renewals (the vote exists twice
						// afterwards, its expiry is subtracted twice)
						out = append(out, finding{subject: s, sig: "C28:stake:overdrawn-by-several-txs-of-the-address-in-one-block",
							detail: fmt.Sprintf("height %d: %s renews vote %s a second time in one block", h, bt.desc, c.ReferKey)})
						continue
					}
					if old == nil {
						out = append(out, finding{subject: s, sig: "C28:model:renewal-of-unknown-vote",
							detail: fmt.Sprintf("height %d: renewal %s names vote %s the model does not hold", h, bt.desc, c.ReferKey)})
						continue
					}
					dvi := payload.DetailedVoteInfo{StakeProgramHash: s.key.Stake, TransactionHash: hash, BlockHeight: old.info.BlockHeight,
						PayloadVersion: old.info.PayloadVersion, VoteType: outputpayload.DposV2, Info: []payload.VotesWithLockTime{c.VotesInfo}}
					delete(s.votes, c.ReferKey)
					renewed[c.ReferKey] = true
					rk := dvi.ReferKey()
					s.votes[rk] = &v2vote{producer: old.producer, amount: c.VotesInfo.Votes, lock: c.VotesInfo.LockTime, info: dvi}
					added[rk] = true
				}
			}
		}
	}
	// votes whose lock time has passed leave at the first later block, unless
	// renewed in that very block (votes cast or renewed in this block are
	// looked at from the next block on)
	for _, s := range m.stakes {
		for rk, v := range s.votes {
			if added[rk] {
				continue
			}
			if v.lock < h {
				delete(s.votes, rk)
			}
		}
	}
	// withdrawals against the books before the block
	for l, w := range withdrawnP {
		a := availP[l]
		if a < 0 {
			a = 0
		}
		if w > a {
			cause := "single-return"
			if len(descP[l]) > 1 {
				cause = "several-returns-in-one-block"
			}
			out = append(out, finding{subject: l, sig: "C28:returndeposit:accepted-overdraw:" + cause,
				detail: fmt.Sprintf("height %d: producer p%d (state %s, %s) withdrew %s net from its deposit address; before the block it held %s, penalty %s, required lock %s => available %s; accepted: %v",
					h, l.idx, l.role.state, l.role.identity, w, balP[l], l.penalty, l.required, availP[l], descP[l])})
		}
	}
	for l, w := range withdrawnC {
		a := availC[l]
		if a < 0 {
			a = 0
		}
		if w > a {
			cause := "single-return"
			if len(descC[l]) > 1 {
				cause = "several-returns-in-one-block"
			}
			out = append(out, finding{subject: l, sig: "C28:returncrdeposit:accepted-overdraw:" + cause,
				detail: fmt.Sprintf("height %d: CR c%d (%s) withdrew %s net from its deposit address; before the block it held %s, penalty %s, required lock %s => available %s; accepted: %v",
					h, l.idx, l.roleDesc, w, balC[l], l.penalty, l.required, availC[l], descC[l])})
		}
	}
	sort.Slice(out, func(i, j int) bool { return out[i].sig < out[j].sig })
	return m.filterTainted(out)
}

// filterTainted drops verdicts about ledgers that already diverged through a
// known finding; an accepted overdraw on such a ledger is remembered as the
// exploitation of that finding.
func (m *model) filterTainted(in []finding) []finding {
	var out []finding
	for _, f := range in {
		if l, ok := f.subject.(*prodLedger); ok && l.aliased {
			f.detail = f.sig + ": " + f.detail
			f.sig = "C28:producer:owner-key-doubles-as-node-key-of-another-producer"
		}
		if why, ok := m.tainted[f.subject]; ok && f.subject != nil {
			if len(f.sig) > 20 && (f.sig[:20] == "C28:returndeposit:ac" || f.sig[:20] == "C28:returncrdeposit:") {
				m.exploited = append(m.exploited, why+" => "+f.detail)
			}
			continue
		}
		out = append(out, f)
	}
	return out
}

func (m *model) stakeByCode(code []byte) *stakeLedger {
	for _, s := range m.stakes {
		if string(s.key.Code) == string(code) {
			return s
		}
	}
	return nil
}

// observeRoles reads the roles and penalties after block h and derives the
// required locks; forced releases are decided from the roles before the block
// (pre) the way the protocol states them.
func (m *model) observeRoles(h uint32) {
	k := m.k
	st := k.Arbiters.State
	lockup := k.Params.CRConfiguration.DepositLockupBlocks
	active := st.DPoSV2ActiveHeight
	for _, l := range m.producers {
		pre := l.role
		p := st.GetProducerByOwnerPublicKey(l.key.PK)
		if p == nil {
			l.role = prodRole{}
			l.required = 0
			continue
		}
		// forced releases, judged on the role before this block
		if pre.exists && pre.state != dstate.Returned && pre.state != dstate.Canceled {
			forced := h == active && pre.identity == dstate.DPoSV1
			if pre.stakeUntil != 0 && pre.stakeUntil < h &&
				(pre.identity == dstate.DPoSV2 || (pre.identity == dstate.DPoSV1V2 && h > active)) {
				forced = true
			}
			if forced {
				if l.released {
					l.rereleased = true
				}
				l.released = true
			}
			// same root cause, other automatic lock operation: when DPoS 2.0 becomes active the lock of a 1.0&2.0
			// producer is reduced to the 2.0 minimum - also when it had been released already (a canceled producer
			// moved to Illegal by evidence, see the listed finding)
			if h == active && pre.identity == dstate.DPoSV1V2 && l.released {
				l.rereleased = true
			}
		}
		l.role = prodRole{exists: true, state: p.State(), identity: p.Identity(), cancelHeight: p.CancelHeight(), stakeUntil: p.Info().StakeUntil}
		if l.role.cancelHeight != 0 && h >= l.role.cancelHeight && h-l.role.cancelHeight >= lockup {
			l.released = true
		}
		l.penalty = p.Penalty()
		min := minDepositV1
		switch l.role.identity {
		case dstate.DPoSV2:
			min = minDepositV2
		case dstate.DPoSV1V2:
			if h >= active {
				min = minDepositV2
			}
		}
		switch l.role.state {
		case dstate.Pending, dstate.Active, dstate.Inactive:
			l.required = min
		case dstate.Returned:
			l.required = 0
		default: // Canceled, Illegal
			if l.released {
				l.required = 0
			} else {
				l.required = min
			}
		}
	}
	for _, a := range m.producers {
		pa := st.GetProducerByOwnerPublicKey(a.key.PK)
		if pa == nil {
			continue
		}
		for _, b := range m.producers {
			if a != b && string(pa.NodePublicKey()) == string(b.key.PK) {
				a.aliased, b.aliased = true, true
			}
		}
		// the owner key of a cast member that is not registered (yet) can be a node key too
		for i := 0; i < m.nProd; i++ {
			if string(pa.NodePublicKey()) == string(m.ownerKey(i).PK) && m.ownerKey(i) != a.key {
				a.aliased = true
			}
		}
	}
	members := map[common.Uint168]*crstate.CRMember{}
	for _, mb := range k.Committee.GetCurrentMembers() {
		members[mb.Info.CID] = mb
	}
	next := map[common.Uint168]*crstate.CRMember{}
	for _, mb := range k.Committee.GetNextMembers() {
		next[mb.Info.CID] = mb
	}
	locked := func(s crstate.MemberState) bool {
		return s == crstate.MemberElected || s == crstate.MemberInactive || s == crstate.MemberIllegal
	}
	inElection := k.Committee.IsInElectionPeriod()
	termEnded := m.prevInElection && (!inElection || k.Committee.LastCommitteeHeight != m.prevLastCommittee)
	m.prevInElection, m.prevLastCommittee = inElection, k.Committee.LastCommitteeHeight
	for _, l := range m.crs {
		cid := l.key.CID
		// a seat that was still locked before this block and whose holder
		// left office (impeached / terminated) in the very block that ended
		// the term
		l.cause = ""
		if l.seat && termEnded {
			// (the member list is archived with the states from before the
			// block, so the impeachment itself is not visible afterwards)
			l.cause = ":seat-lock-in-the-block-that-ended-the-term"
		}
		l.seat = false
		n := 0
		desc := ""
		if c := k.Committee.GetCandidate(cid); c != nil {
			desc += "candidate:" + c.State.String() + " "
			switch c.State {
			case crstate.Pending, crstate.Active:
				n++
			case crstate.Canceled:
				if h < c.CancelHeight || h-c.CancelHeight < lockup {
					n++
				}
			}
		}
		if mb := members[cid]; mb != nil {
			desc += "member:" + mb.MemberState.String() + " "
			// the seats' locks are released when the term ends, also when no
			// successor committee could be elected (the member list then stays
			// but the committee is out of its election period)
			if locked(mb.MemberState) && inElection {
				n++
				l.seat = true
			}
			if !inElection {
				desc += "(term over) "
			}
		}
		if mb := next[cid]; mb != nil {
			desc += "next-member:" + mb.MemberState.String() + " "
			if locked(mb.MemberState) {
				n++
			}
		}
		l.roleDesc = desc
		l.required = common.Fixed64(n) * minDepositV1
		l.penalty = k.Committee.GetPenalty(cid)
	}
}

// compare checks the node's balances against the books after block h.
func (m *model) compare(h uint32, dupStake map[common.Uint168]int) []finding {
	var out []finding
	k := m.k
	st := k.Arbiters.State
	var subject any
	add := func(sig, f string, a ...any) {
		out = append(out, finding{sig: sig, detail: fmt.Sprintf("height %d: ", h) + fmt.Sprintf(f, a...), subject: subject})
	}
	var pls []*prodLedger
	for _, l := range m.producers {
		pls = append(pls, l)
	}
	sort.Slice(pls, func(i, j int) bool { return pls[i].idx < pls[j].idx })
	for _, l := range pls {
		subject = l
		p := st.GetProducerByOwnerPublicKey(l.key.PK)
		if p == nil {
			add("C28:producer:vanished", "producer p%d has a ledger but the state does not know it", l.idx)
			continue
		}
		who := fmt.Sprintf("producer p%d (state %s, %s, cancelHeight %d, stakeUntil %d)", l.idx, p.State(), p.Identity(), p.CancelHeight(), p.Info().StakeUntil)
		if p.TotalAmount() != l.coins.balance() {
			add("C28:producer:TotalAmount-differs-from-coins", "%s: TotalAmount %s, coins at its deposit address %s", who, p.TotalAmount(), l.coins.balance())
		}
		if p.TotalAmount() < 0 {
			add("C28:producer:TotalAmount-negative", "%s: TotalAmount %s", who, p.TotalAmount())
		}
		if p.DepositAmount() < 0 {
			// a CancelProducer transaction in the very block that cancels the
			// producer automatically (DPoS 2.0 becomes active / its stake ran out)
			cause := ""
			ch := p.CancelHeight()
			until, active := p.Info().StakeUntil, st.DPoSV2ActiveHeight
			auto := ch == active // 1.0: forced cancel; 1.0&2.0: lock reduced to the 2.0 minimum
			if until != 0 && (ch == until+1 || (until < active+1 && ch == active+1)) {
				auto = true // the stake ran out (a 1.0&2.0 producer is only cancelled once DPoS 2.0 is active)
			}
			if ch != 0 && auto {
				cause = ":cancel-tx-in-the-block-of-the-automatic-cancel"
			} else if l.rereleased {
				cause = ":automatic-cancel-of-a-producer-canceled-before"
			}
			add("C28:producer:DepositAmount-negative"+cause, "%s: DepositAmount %s", who, p.DepositAmount())
		} else if p.DepositAmount() < l.required {
			rel := ""
			if l.released {
				rel = ":after-release"
			}
			add("C28:producer:lock-below-required:"+p.State().String()+rel, "%s: DepositAmount (locked) %s, required %s", who, p.DepositAmount(), l.required)
		}
		if p.Penalty() < 0 {
			add("C28:producer:penalty-negative", "%s: penalty %s", who, p.Penalty())
		}
		if p.AvailableAmount() != p.TotalAmount()-p.DepositAmount()-p.Penalty() {
			add("C28:producer:AvailableAmount-inconsistent", "%s: AvailableAmount %s, total %s deposit %s penalty %s", who, p.AvailableAmount(), p.TotalAmount(), p.DepositAmount(), p.Penalty())
		}
	}
	var cls []*crLedger
	for _, l := range m.crs {
		cls = append(cls, l)
	}
	sort.Slice(cls, func(i, j int) bool { return cls[i].idx < cls[j].idx })
	for _, l := range cls {
		subject = l
		avail, penalty, dep, total, err := k.Committee.GetDepositAmountByID(l.key.CID)
		who := fmt.Sprintf("CR c%d (%s)", l.idx, l.roleDesc)
		if err != nil {
			add("C28:cr:vanished", "%s: %v", who, err)
			continue
		}
		if total != l.coins.balance() {
			add("C28:cr:TotalAmount-differs-from-coins", "%s: TotalAmount %s, coins at its deposit address %s", who, total, l.coins.balance())
		}
		if total < 0 {
			add("C28:cr:TotalAmount-negative", "%s: TotalAmount %s", who, total)
		}
		if dep < 0 {
			add("C28:cr:DepositAmount-negative"+l.cause, "%s: DepositAmount %s", who, dep)
		} else if dep < l.required {
			add("C28:cr:lock-below-required", "%s: DepositAmount (locked) %s, required %s", who, dep, l.required)
		}
		if penalty < 0 {
			add("C28:cr:penalty-negative", "%s: penalty %s", who, penalty)
		}
		if avail != total-dep-penalty || avail != k.Committee.GetAvailableDepositAmount(l.key.CID) {
			add("C28:cr:AvailableAmount-inconsistent", "%s: available %s, total %s deposit %s penalty %s", who, avail, total, dep, penalty)
		}
	}
	var sls []*stakeLedger
	for _, s := range m.stakes {
		sls = append(sls, s)
	}
	sort.Slice(sls, func(i, j int) bool { return sls[i].idx < sls[j].idx })
	for _, s := range sls {
		subject = s
		rights := st.DposV2VoteRights[s.key.Stake]
		used := st.UsedDposV2Votes[s.key.Stake]
		who := fmt.Sprintf("stake address v%d", s.idx)
		// several transactions of the address in this block: one root cause
		// whatever balance shows it
		dup := dupStake[s.key.Stake] > 1
		sig := func(clause string) string {
			if dup {
				return "C28:stake:overdrawn-by-several-txs-of-the-address-in-one-block"
			}
			return "C28:stake:" + clause
		}
		if used > rights {
			add(sig("used-exceeds-rights"), "%s: UsedDposV2Votes %s > DposV2VoteRights %s", who, used, rights)
		}
		if rights < 0 {
			add(sig("rights-negative"), "%s: DposV2VoteRights %s < 0", who, rights)
		}
		if used < 0 {
			add("C28:stake:used-negative", "%s: UsedDposV2Votes %s", who, used)
		}
		if rights != s.rights {
			add("C28:stake:rights-differ-from-ledger", "%s: DposV2VoteRights %s, staked minus returned %s", who, rights, s.rights)
		}
		if used != s.used() {
			add("C28:stake:used-differs-from-ledger", "%s: UsedDposV2Votes %s, votes in use by the ledger %s (%d votes)", who, used, s.used(), len(s.votes))
		}
	}
	return m.filterTainted(out)
}

// trace prints the books and the node's balances (debugging aid).
func (m *model) trace(h uint32) {
	k := m.k
	c := k.Committee
	fmt.Printf("TRACE h=%d committee: inElection=%v lastCommittee=%d lastVotingStart=%d circulation=%s members=%d next=%d\n", h, c.InElectionPeriod, c.LastCommitteeHeight, c.LastVotingStartHeight, c.CirculationAmount, len(c.Members), len(c.NextMembers))
	for _, mb := range c.Members {
		fmt.Printf("TRACE h=%d member %s state=%v impeach=%s penaltyBlocks=%d\n", h, mb.Info.NickName, mb.MemberState, mb.ImpeachmentVotes, mb.PenaltyBlockCount)
	}
	for _, l := range m.crs {
		a, pen, dep, tot, _ := k.Committee.GetDepositAmountByID(l.key.CID)
		fmt.Printf("TRACE h=%d c%d role=[%s] node: avail=%s pen=%s dep=%s tot=%s | model: coins=%s required=%s inElection=%v\n", h, l.idx, l.roleDesc, a, pen, dep, tot, l.coins.balance(), l.required, k.Committee.IsInElectionPeriod())
	}
	for _, l := range m.producers {
		p := k.Arbiters.State.GetProducerByOwnerPublicKey(l.key.PK)
		if p == nil {
			continue
		}
		fmt.Printf("TRACE h=%d p%d %s %s cancel=%d until=%d node: avail=%s pen=%s dep=%s tot=%s | model: coins=%s required=%s released=%v\n", h, l.idx, p.State(), p.Identity(), p.CancelHeight(), p.Info().StakeUntil,
			p.AvailableAmount(), p.Penalty(), p.DepositAmount(), p.TotalAmount(), l.coins.balance(), l.required, l.released)
	}
}
