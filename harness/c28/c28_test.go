// C28 - deposits and vote rights are never overdrawn.
//
// A real Arbiters/State/Committee instance (statekit) is fed generated block
// histories whose every transaction went through the node's own checks
// (SanityCheck, the ContextCheck sequence with the deposit-address and fee
// rules, the block-level duplicate checks).  An independent ledger (model_test.go)
// keeps the coins at every deposit address, the lock the protocol demands for
// the role of each producer / CR, the vote rights and the DPoS-v2 votes in use
// of each stake address; after every block it is compared with the node's
// balances, and every accepted withdrawal is judged against the ledger as it
// was before the block.
package c28

import (
	"encoding/json"
	"fmt"
	"os"
	"strings"
	"testing"

	"github.com/elastos/Elastos.ELA/common"
	common2 "github.com/elastos/Elastos.ELA/core/types/common"
	"github.com/elastos/Elastos.ELA/core/types/interfaces"
	"github.com/elastos/Elastos.ELA/core/types/payload"
	dstate "github.com/elastos/Elastos.ELA/dpos/state"
	"pgregory.net/rapid"
	"verifharness/lib/vk"
	"verifharness/statekit"
)

func TestMain(m *testing.M) { vk.Main(m, "C28") }

type history struct {
	Profile     statekit.Profile     `json:"profile"`
	Era         string               `json:"era"`
	SameSubject bool                 `json:"several_txs_per_subject_and_block"`
	Blocks      []statekit.BlockInfo `json:"blocks"`
	Rejected    []string             `json:"rejected,omitempty"`
	Notes       []string             `json:"notes,omitempty"`
}

type stats struct {
	retAccepted, retRejected   int
	voteAccepted, voteRejected int
	dupTypeTried, dupTypeAccepted int
	exactAccepted, exactRejected int
	overTried, overAccepted int
	expired int
	v2active bool
	secondAccepted int
}

func isReturnKind(k string) bool {
	return k == "returndeposit" || k == "returndeposit2" || k == "returncrdeposit" || k == "returncrdeposit2" || k == "returnvotes"
}

func isVoteKind(k string) bool { return k == "voting" || k == "renewvoting" }

func drawProfile(t *rapid.T) (statekit.Profile, statekit.Era) {
	era := statekit.Era(rapid.SampledFrom(eras()).Draw(t, "era"))
	p := statekit.DrawProfile(t, era)
	// RecordSponsor transactions are not modelled by the block builder
	p.RecordSponsorStart = statekit.Far
	// vote weights are log10(lock/720): allow locks long enough to make a
	// producer "effective" so that DPoS 2.0 can become active
	p.DPoSV2MaxVotesLockTime = 100000
	p.DPoSV2EffectiveVotes = common.Fixed64(rapid.SampledFrom([]int64{80, 800}).Draw(t, "effective")) * statekit.ELA
	if era >= statekit.EraV2 && rapid.Bool().Draw(t, "fewnormal") {
		p.NNormal = 2
	}
	return p, era
}

func eras() []int {
	if v := os.Getenv("C28_ERAS"); v != "" {
		var out []int
		for _, c := range v {
			if c >= '0' && c <= '3' {
				out = append(out, int(c-'0'))
			}
		}
		return out
	}
	return []int{0, 1, 2, 3, 3, 3, 3}
}

func TestDepositsAndVoteRights(t *testing.T) {
	rapid.Check(t, func(t *rapid.T) {
		prof, era := drawProfile(t)
		k := statekit.New(prof)
		defer func() { k.Close() }()
		g := statekit.NewGen(k)
		g.DrawLazy(t)
		if era >= statekit.EraCR {
			g.AddKinds(statekit.CRKinds())
		}
		g.AddKinds(statekit.C28Kinds())
		g.MaxTxs = 4
		if era >= statekit.EraV2 {
			// four cast members are kept for DPoS 2.0 registrations
			g.NProducers = 12
		}
		if era >= statekit.EraV2 && rapid.Bool().Draw(t, "drive") {
			statekit.SetC28Drive(g, true)
			defer statekit.SetC28Drive(g, false)
		}
		base := map[string]int{}
		for kk, v := range g.Kinds {
			base[kk] = v
		}
		hist := &history{Profile: prof, Era: era.String()}
		hist.SameSubject = rapid.IntRange(0, 3).Draw(t, "samesubject") == 0
		opts := &statekit.BlockOpts{FullSanity: statekit.C28FullSanity()}
		if hist.SameSubject {
			opts.SameSubject = map[string]bool{"voting": true, "returnvotes": true, "stake": true, "renewvoting": true,
				"returndeposit2": true, "returncrdeposit2": true}
		}
		k.StartAt(prof.VoteStart - 1)
		m := newModel(k, g.NProducers, 6, g.NVoters)
		var st stats

		last := prof.PublicDPOS
		switch era {
		case statekit.EraCR:
			last = prof.CRClaimStart
		case statekit.EraNewCR:
			last = prof.RevertToPOWStart
		case statekit.EraV2:
			last = prof.DPoSV2Start
		}
		extra := rapid.IntRange(10, 45).Draw(t, "extra")
		if vk.Thorough() {
			extra = rapid.IntRange(10, 90).Draw(t, "extra2")
		}
		if era >= statekit.EraV2 {
			extra += 40
		}
		maxHeight := last + uint32(extra)

		allowRevive := rapid.IntRange(0, 7).Draw(t, "allowrevive") == 0
		allowAlias := rapid.IntRange(0, 7).Draw(t, "allowalias") == 0
		opts.Veto = func(kind string, tx interfaces.Transaction) bool {
			// a node key that is another cast member's owner key makes the
			// node resolve that member's deposit returns to the wrong
			// producer (known finding): left out in most histories
			if info, ok := tx.Payload().(*payload.ProducerInfo); ok && kind == "register" && era >= statekit.EraV2 &&
				k.Height+1 < prof.DPoSV2Start {
				for i := 8; i < g.NProducers; i++ {
					if string(statekit.K(statekit.KeyOwnerBase+i).PK) == string(info.OwnerKey) {
						return true
					}
				}
			}
			if info, ok := tx.Payload().(*payload.ProducerInfo); ok && !allowAlias {
				for i := 0; i < g.NProducers; i++ {
					o := statekit.K(statekit.KeyOwnerBase + i)
					if string(o.PK) == string(info.NodePublicKey) && string(o.PK) != string(info.OwnerKey) {
						return true
					}
				}
			}
			if allowRevive {
				return false
			}
			// illegal evidence against a producer that was canceled revives it
			// (known finding): left out by construction in most histories
			for _, pk := range evidenceKeys(tx) {
				if p := k.Arbiters.State.GetProducer(pk); p != nil && (p.CancelHeight() != 0 || p.State() == dstate.Canceled) {
					return true
				}
			}
			return false
		}
		var events []statekit.TxEvent
		opts.OnTx = func(ev statekit.TxEvent) {
			if ev.Kind == "block-dropped" {
				events = nil
				return
			}
			events = append(events, ev)
		}
		render := func() any { return hist }
		dead := ""
		known := false
		for k.Height < maxHeight && dead == "" {
			h := k.Height + 1
			events = nil
			tune(g, base, prof, h)
			b, c, info := g.BlockEx(t, opts)
			hist.Blocks = append(hist.Blocks, info)
			// what the model is told: the accepted transactions, with the
			// outputs their inputs refer to (resolved before the block spends them)
			var btxs []blockTx
			dupStake := map[common.Uint168]int{}
			for _, ev := range events {
				over := strings.Contains(ev.Desc, "above") || strings.Contains(ev.Desc, "ignoring-penalty") || strings.Contains(ev.Desc, "everything") || strings.Contains(ev.Desc, "all-rights")
				exact := strings.Contains(ev.Desc, ",exact,")
				dupType := strings.Contains(ev.Desc, ",dup-type,")
				if ev.Err != nil {
					if isReturnKind(ev.Kind) {
						st.retRejected++
					}
					if isVoteKind(ev.Kind) {
						st.voteRejected++
					}
					if dupType {
						st.dupTypeTried++
					}
					if exact {
						st.exactRejected++
					}
					if over {
						st.overTried++
					}
					if len(hist.Rejected) < 40 {
						hist.Rejected = append(hist.Rejected, fmt.Sprintf("%d %s: %v", h, ev.Desc, ev.Err))
					}
					continue
				}
				if isReturnKind(ev.Kind) {
					st.retAccepted++
				}
				if isVoteKind(ev.Kind) {
					st.voteAccepted++
				}
				if dupType {
					st.dupTypeTried++
					st.dupTypeAccepted++
				}
				if exact {
					st.exactAccepted++
				}
				if over {
					st.overTried++
					st.overAccepted++
				}
				if ev.Second {
					st.secondAccepted++
				}
				refs, err := k.TxReference(ev.Tx)
				if err != nil {
					t.Fatalf("harness: references of an accepted transaction: %v", err)
				}
				btxs = append(btxs, blockTx{kind: ev.Kind, desc: ev.Desc, tx: ev.Tx, refs: refs})
				switch ev.Tx.TxType() {
				case common2.Voting, common2.ReturnVotes:
					if s := m.stakeByCode(ev.Tx.Programs()[0].Code); s != nil {
						dupStake[s.key.Stake]++
					}
				}
			}
			// required transactions (appropriation ...) may pay nobody's deposit; the
			// model only needs the candidate transactions and whatever else is in the block
			for _, tx := range b.Transactions[1:] {
				found := false
				for _, bt := range btxs {
					if bt.tx == tx {
						found = true
					}
				}
				if !found {
					refs, _ := k.TxReference(tx)
					btxs = append(btxs, blockTx{kind: "required", desc: "required", tx: tx, refs: refs})
				}
			}
			if p, val, frame := vk.Catch(func() { k.Process(b, c) }); p {
				dead = fmt.Sprintf("forward-panic:%s: %v", frame, val)
				break
			}
			if ok, why := k.ProducerMapsConsistent(); !ok {
				// two transitions of one producer in one block leave it in two
				// state maps (forward-processing defect listed under C21); roles
				// are undefined from here on
				dead = "conflicting-transitions: " + why[:minInt(len(why), 40)]
				break
			}
			before := 0
			for _, s := range m.stakes {
				before += len(s.votes)
			}
			fs := m.apply(h, btxs)
			after := 0
			for _, s := range m.stakes {
				after += len(s.votes)
			}
			_ = before
			_ = after
			m.observeRoles(h)
			if os.Getenv("C28_TRACE") != "" {
				m.trace(h)
			}
			fs = append(fs, m.compare(h, dupStake)...)
			if k.Arbiters.State.DPoSV2ActiveHeight <= h {
				st.v2active = true
			}
			for _, f := range fs {
				if os.Getenv("C28_DEBUG") != "" {
					fmt.Println("FINDING", f.sig, f.detail, "BLOCKTXS", info.Txs)
				}
				if _, done := m.tainted[f.subject]; done && f.subject != nil {
					continue
				}
				if !vk.Report(t, f.sig, f.detail, render()) {
					return
				}
				// a listed known finding: this ledger and the node diverge from
				// here on; the ledger is left out of further comparisons (an
				// accepted overdraw on it is counted as its exploitation)
				known = true
				hist.Notes = append(hist.Notes, "known: "+f.sig+": "+f.detail)
				if f.subject != nil {
					m.tainted[f.subject] = f.sig
				}
			}
		}
		cl := "era-" + hist.Era
		if hist.SameSubject {
			cl += "/several-per-subject"
		}
		for _, e := range m.exploited {
			vk.Count("known-finding-exploited-by-accepted-overdraw", 1)
			if len(hist.Notes) < 20 {
				hist.Notes = append(hist.Notes, "exploited: "+e)
			}
		}
		if dead != "" {
			vk.Class("dead/" + dead[:minInt(len(dead), 90)])
			cl += "/dead"
		} else if known {
			cl += "/known-finding"
		} else if st.v2active {
			cl += "/v2-active"
		}
		nt := (st.retAccepted+st.voteAccepted) >= 1 && (st.retRejected+st.voteRejected) >= 1
		key, _ := json.Marshal(hist)
		vk.Case(cl, nt, key, render)
		vk.Count("blocks", int64(len(hist.Blocks)))
		vk.Count("return-accepted", int64(st.retAccepted))
		vk.Count("return-rejected", int64(st.retRejected))
		vk.Count("voting-accepted", int64(st.voteAccepted))
		vk.Count("voting-rejected", int64(st.voteRejected))
		vk.Count("voting-dup-type-tried", int64(st.dupTypeTried))
		vk.Count("voting-dup-type-accepted", int64(st.dupTypeAccepted))
		vk.Count("exact-amount-accepted", int64(st.exactAccepted))
		vk.Count("exact-amount-rejected", int64(st.exactRejected))
		vk.Count("above-available-tried", int64(st.overTried))
		vk.Count("above-available-accepted", int64(st.overAccepted))
		vk.Count("second-tx-of-subject-accepted", int64(st.secondAccepted))
		for kk, v := range g.Accepted {
			vk.Count("tx-accepted/"+kk, int64(v))
		}
		for kk, v := range g.Rejected {
			vk.Count("tx-rejected/"+kk, int64(v))
		}
		if era >= statekit.EraV2 {
			vk.Count("v2-effective-producers-at-end", int64(len(k.Arbiters.State.DposV2EffectedProducers)))
			if len(k.Arbiters.State.DposV2EffectedProducers) >= prof.NNormal*3/2 {
				vk.Class("v2-enough-effective-producers")
			}
		}
		if os.Getenv("C28_DEBUG") != "" {
			fmt.Println("END era", era, "height", k.Height, "v2start", prof.DPoSV2Start, "effective", len(k.Arbiters.State.DposV2EffectedProducers), "need", prof.NNormal*3/2, "activeHeight", k.Arbiters.State.DPoSV2ActiveHeight, "v2producers", len(k.Arbiters.State.GetActivityV2Producers()), "dead", dead, "acc voting/regv2/updv2/stake", g.Accepted["voting"], g.Accepted["registerv2"], g.Accepted["updatev2"], g.Accepted["stake"], "cancelexp acc/rej/na", g.Accepted["cancelexpired"], g.Rejected["cancelexpired"], g.Rejected["cancelexpired/na"], "rej voting", g.Rejected["voting"], g.Rejected["voting/na"], g.LastErr["voting"])
			for _, p := range k.Arbiters.State.GetActivityV2Producers() {
				fmt.Println("  V2PRODUCER until", p.Info().StakeUntil, "v2votes", p.DposV2Votes(), "rights", common.Fixed64(p.GetTotalDPoSV2VoteRights()))
			}
			for kk, v := range g.LastErr {
				fmt.Println("LASTERR", kk, v)
			}
		}
	})
}

// tune adjusts the kind weights to what the history needs next (every choice
// stays a rapid draw; only the weights move): once DPoS 2.0 registrations are
// possible, work towards 2.0 producers with weighty votes so that DPoS 2.0 can
// become active.
func tune(g *statekit.Gen, base map[string]int, prof statekit.Profile, h uint32) {
	for kk, v := range base {
		g.Kinds[kk] = v
	}
	if h < prof.DPoSV2Start {
		return
	}
	// the DPoS 2.0 kinds take over
	mine := statekit.C28Kinds()
	for kk, v := range base {
		if _, ok := mine[kk]; !ok && v > 1 {
			g.Kinds[kk] = (v + 2) / 3
		}
	}
	st := g.K.Arbiters.State
	v2 := 0
	for _, p := range st.GetActivityV2Producers() {
		_ = p
		v2++
	}
	need := prof.NNormal*3/2 + 1
	if v2 < need {
		g.Kinds["registerv2"] = base["registerv2"] * 4
		g.Kinds["updatev2"] = base["updatev2"] * 3
		g.Kinds["register"] = 1
	}
	rights := 0
	for _, r := range st.DposV2VoteRights {
		if r > 0 {
			rights++
		}
	}
	if rights < 2 {
		g.Kinds["stake"] = base["stake"] * 4
	}
	if v2 > 0 && rights > 0 {
		g.Kinds["voting"] = base["voting"] * 3
	}
}

// evidenceKeys lists the node keys an illegal-evidence transaction accuses.
func evidenceKeys(tx interfaces.Transaction) [][]byte {
	switch p := tx.Payload().(type) {
	case *payload.DPOSIllegalProposals:
		return [][]byte{p.Evidence.Proposal.Sponsor}
	case *payload.DPOSIllegalVotes:
		return [][]byte{p.Evidence.Vote.Signer}
	case *payload.DPOSIllegalBlocks:
		in := map[string]bool{}
		for _, pk := range p.Evidence.Signers {
			in[string(pk)] = true
		}
		var out [][]byte
		for _, pk := range p.CompareEvidence.Signers {
			if in[string(pk)] {
				out = append(out, pk)
			}
		}
		return out
	case *payload.SidechainIllegalData:
		return [][]byte{p.IllegalSigner}
	}
	return nil
}

func minInt(a, b int) int {
	if a < b {
		return a
	}
	return b
}
