package c03

// TestRegressions replays, as plain constructed inputs, every input class
// that crashed the pinned tree (each is a fixed finding).  A panic here is
// reported through the same signatures as in the generated units, so a
// reverted fix fails the check immediately and deterministically.

import (
	"math"
	"testing"

	"github.com/elastos/Elastos.ELA/common"
	"github.com/elastos/Elastos.ELA/core"
	"github.com/elastos/Elastos.ELA/core/contract/program"
	ctypes "github.com/elastos/Elastos.ELA/core/types/common"
	"github.com/elastos/Elastos.ELA/core/types/functions"
	"github.com/elastos/Elastos.ELA/core/types/interfaces"
	"github.com/elastos/Elastos.ELA/core/types/outputpayload"
	"github.com/elastos/Elastos.ELA/core/types/payload"
	"github.com/elastos/Elastos.ELA/crypto"
	"verifharness/gen"
	"verifharness/lib/vk"
	"verifharness/node"
)

func plainOut(to common.Uint168, v common.Fixed64, txv ctypes.TransactionVersion) *ctypes.Output {
	o := &ctypes.Output{AssetID: core.ELAAssetID, Value: v, ProgramHash: to, Type: ctypes.OTNone}
	if txv >= ctypes.TxVersion09 {
		o.Payload = &outputpayload.DefaultOutput{}
	}
	return o
}

// softTB lets every regression run even after one of them failed.
type softTB struct {
	t      *testing.T
	failed int
}

func (s *softTB) Fatalf(format string, args ...any) {
	s.failed++
	s.t.Errorf(format, args...)
}
func (s *softTB) Logf(format string, args ...any) { s.t.Logf(format, args...) }

func TestRegressions(tt *testing.T) {
	t := &softTB{t: tt}
	count := func(name string) {
		vk.Case("regression|"+name, true, []byte("regression|"+name), func() any { return map[string]any{"regression": name} })
	}

	// --- script level
	exerciseScript(t, schnorrCode(1), []byte{}, []byte("d"))
	count("schnorr-empty-parameter")
	exerciseScript(t, schnorrCode(2), make([]byte, 63), []byte("d"))
	count("schnorr-63-byte-parameter")
	for i, code := range [][]byte{
		multiCode([]byte{0x51}, 2, []byte{0x52}, nil),    // stops after n
		multiCode([]byte{1, 1}, 2, []byte{1}, nil),       // stops after the 1-byte length prefix of n
		multiCode([]byte{2, 0, 1}, 2, []byte{2}, nil),    // stops after the 2-byte length prefix of n
		multiCode([]byte{2, 0, 1}, 2, []byte{2, 0}, nil), // one byte of a two byte n
		multiCode([]byte{0x51}, 2, []byte{1, 2}, nil),    // 1 <n> without CHECKMULTISIG
	} {
		exerciseScript(t, code, []byte{}, []byte("d"))
		count([]string{"multisig-no-terminator", "multisig-n-prefix-1", "multisig-n-prefix-2", "multisig-n-half", "multisig-n1-no-terminator"}[i])
	}

	// non-canonical / off-curve public keys (x >= P aliasing a curve point, x = P,
	// 2^256-1, 0 ...) in schnorr, standard and multisig scripts with in-range
	// and out-of-range signature values
	pEdge, nEdge := make([]byte, 32), make([]byte, 32)
	crypto.DefaultParams.P.FillBytes(pEdge)
	crypto.DefaultParams.N.FillBytes(nEdge)
	for _, k := range hostileKeys {
		for _, sig := range [][]byte{make([]byte, 64), append(append([]byte{}, pEdge...), make([]byte, 32)...),
			append(make([]byte, 32), nEdge...), append(append(make([]byte, 31), 1), append(make([]byte, 31), 1)...)} {
			exerciseScript(t, schnorrCodeKey(k), sig, []byte("d"))
			exerciseScript(t, stdCodeKey(k), append([]byte{0x40}, sig...), []byte("d"))
			mc := append(append(append([]byte{0x51, 33}, k...), append([]byte{33}, pubKeys[0]...)...), 0x52, 0xAE)
			exerciseScript(t, mc, append([]byte{0x40}, sig...), []byte("d"))
		}
	}
	count("hostile-public-keys")

	// --- auxpow level
	var bh common.Uint256
	for i := range bh {
		bh[i] = byte(i)
	}
	for _, s := range []auxSpec{
		{NIn: 0, HonestSize: true, HonestIdx: true},
		{NIn: 1, Branches: 32, HonestSize: true},
		{NIn: 1, Branches: 33, HonestSize: true},
		{NIn: 1, Branches: 40, HonestSize: true, Index: 0xffffffff},
		{NIn: 1, HonestSize: true, HonestIdx: true, ScriptKind: 4, Cut: 1}, // 7 bytes after the aux root
		{NIn: 1, HonestSize: true, HonestIdx: true, ScriptKind: 4, Cut: 4}, // 4 bytes after the aux root
	} {
		exerciseAuxPow(t, s.build(bh, []byte("r")), bh, 1224)
	}
	count("auxpow-no-coinbase-input")
	count("auxpow-32-or-more-branches")
	count("auxpow-incomplete-nonce")

	// --- transaction level (DPoS era node)
	tn, err := newTestNode("mid", 24)
	if err != nil {
		tt.Fatalf("harness: node: %v", err)
	}
	defer tn.Close()
	height := tn.Chain.GetHeight() + 1
	coin := tn.coins[0]
	in := func(c node.Coin) []*ctypes.Input { return []*ctypes.Input{{Previous: c.Op, Sequence: 0}} }
	to := tn.Keys[1].ProgramHash
	fee := common.Fixed64(10000)
	prog := []*program.Program{{Code: tn.Keys[coin.KeyIdx].RedeemScript, Parameter: append([]byte{0x40}, make([]byte, 64)...)}}
	run := func(name string, tx interfaces.Transaction) {
		wire := gen.TxBytes(tx)
		if wire == nil {
			tt.Fatalf("harness: regression %s does not serialize", name)
		}
		stage := exerciseTx(t, tn, wire, &txCase{})
		if stage == "undecodable" {
			tt.Fatalf("harness: regression %s does not decode", name)
		}
		vk.Class("regression-stage|" + name + "|" + stage)
		count(name)
	}

	// Mapping output payload with an empty owner key (sanity check)
	run("mapping-empty-owner-key", functions.CreateTransaction(ctypes.TxVersion09, ctypes.TransferAsset, 0, &payload.TransferAsset{}, nil,
		in(coin), []*ctypes.Output{
			{AssetID: core.ELAAssetID, Value: coin.Value - fee, ProgramHash: to, Type: ctypes.OTMapping,
				Payload: &outputpayload.Mapping{OwnerKey: []byte{}, SideProducerID: []byte{1}, Signature: make([]byte, 64)}},
		}, 0, prog))
	run("mapping-one-byte-owner-key", functions.CreateTransaction(ctypes.TxVersion09, ctypes.TransferAsset, 0, &payload.TransferAsset{}, nil,
		in(coin), []*ctypes.Output{
			{AssetID: core.ELAAssetID, Value: coin.Value - fee, ProgramHash: to, Type: ctypes.OTMapping,
				Payload: &outputpayload.Mapping{OwnerKey: []byte{0x51}, SideProducerID: []byte{1}, Signature: make([]byte, 64)}},
		}, 0, prog))

	// cross-chain transfer v0 with an output index above MaxInt64
	xto := *common.ToProgramHash(0x4B, []byte{0x20, 9, 0xAF})
	for _, idx := range []uint64{math.MaxUint64, 1 << 63} {
		run("crosschain-v0-output-index", functions.CreateTransaction(tn.TxVersionAt(height), ctypes.TransferCrossChainAsset, payload.TransferCrossChainVersion,
			&payload.TransferCrossChainAsset{CrossChainAddresses: []string{"a"}, OutputIndexes: []uint64{idx}, CrossChainAmounts: []common.Fixed64{1}}, nil,
			in(coin), []*ctypes.Output{plainOut(xto, coin.Value-fee, tn.TxVersionAt(height))}, 0, prog))
	}

	// multi-code producer registration with an empty owner code
	run("register-producer-empty-owner-code", functions.CreateTransaction(ctypes.TxVersion09, ctypes.RegisterProducer, payload.ProducerInfoMultiVersion,
		&payload.ProducerInfo{OwnerKey: []byte{}, NodePublicKey: pubKeys[3], NickName: "n", Url: "u", NetAddress: "a", StakeUntil: height + 100}, nil,
		in(coin), []*ctypes.Output{plainOut(to, coin.Value-fee, ctypes.TxVersion09)}, 0, prog))

	// return-deposit output naming the genesis asset registration (a ledger
	// transaction without inputs) as the deposit transaction
	addr, _ := to.ToAddress()
	run("return-sidechain-deposit-of-inputless-tx", functions.CreateTransaction(ctypes.TxVersion09, ctypes.ReturnSideChainDepositCoin, 0,
		&payload.ReturnSideChainDepositCoin{}, nil, in(coin), []*ctypes.Output{
			plainOut(to, coin.Value-fee-10, ctypes.TxVersion09),
			{AssetID: core.ELAAssetID, Value: 10, ProgramHash: to, Type: ctypes.OTReturnSideChainDepositCoin,
				Payload: &outputpayload.ReturnSideChainDeposit{GenesisBlockAddress: addr, DepositTransactionHash: core.ELAAssetID}},
		}, 0, prog))

	// schnorr withdraw with a signer index one past the arbiter list
	signers := []uint8{0, 1, 2, 3, 4, 5, 6, 7, 8}
	signers[8] = uint8(len(tn.Arbiters.GetCrossChainArbiters()))
	for _, last := range []uint8{signers[8], 255} {
		signers[8] = last
		run("withdraw-v2-signer-index", functions.CreateTransaction(tn.TxVersionAt(height), ctypes.WithdrawFromSideChain, payload.WithdrawFromSideChainVersionV2,
			&payload.WithdrawFromSideChain{Signers: append([]uint8{}, signers...)}, nil,
			in(tn.xcoins[0]), []*ctypes.Output{plainOut(to, tn.xcoins[0].Value-fee, tn.TxVersionAt(height))}, 0,
			[]*program.Program{{Code: schnorrCode(0), Parameter: make([]byte, 64)}}))
	}
}
