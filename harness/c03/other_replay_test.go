package c03

import "testing"

// replayOther handles journal kinds of the node-level units.
func replayOther(t *testing.T, b []byte) {
	t.Logf("journal kind %q is replayed through its rapid fail file", b[0])
}
