package c03

// Level 4: decodable blocks - generated coinbase shapes (0-5 outputs, 0-2
// inputs, programs, any value split), header fields, merged-mining proofs
// (honest, unsolved, structurally hostile) and 0-3 further transactions
// (honest transfers, generated transactions of any type, a second coinbase,
// duplicates) - through BlockChain.CheckBlockSanity and, when sanity accepts
// and the height is the parent's + 1 (what maybeAcceptBlock enforces before
// the context check), BlockChain.CheckBlockContext on the current tip.
// TestBlockProcess* send such blocks through ProcessBlock.

import (
	"bytes"
	"fmt"
	"math"
	"testing"

	"github.com/elastos/Elastos.ELA/auxpow"
	"github.com/elastos/Elastos.ELA/common"
	"github.com/elastos/Elastos.ELA/core"
	"github.com/elastos/Elastos.ELA/core/contract/program"
	"github.com/elastos/Elastos.ELA/core/types"
	ctypes "github.com/elastos/Elastos.ELA/core/types/common"
	"github.com/elastos/Elastos.ELA/core/types/functions"
	"github.com/elastos/Elastos.ELA/core/types/interfaces"
	"github.com/elastos/Elastos.ELA/core/types/outputpayload"
	"github.com/elastos/Elastos.ELA/core/types/payload"
	"pgregory.net/rapid"
	"verifharness/gen"
	"verifharness/lib/vk"
	"verifharness/node"
)

type blockMeta struct {
	Mode            int
	CoinbaseOutputs int
	CoinbaseInputs  int
	ExtraTxs        []string
	Aux             string
	Header          string
}

// drawCoinbase builds a coinbase of a drawn shape for the given height.
func drawCoinbase(t *rapid.T, tn *testNode, height uint32, reward common.Fixed64, m *blockMeta, chaos bool) interfaces.Transaction {
	nOut := rapid.SampledFrom([]int{0, 1, 2, 2, 2, 3, 3, 4, 5}).Draw(t, "cbOutputs")
	if !chaos && nOut < 2 {
		nOut = 2 + nOut // keep the shapes the sanity check lets through: 2..5 outputs
	}
	m.CoinbaseOutputs = nOut
	var outs []*ctypes.Output
	rest := reward
	for i := 0; i < nOut; i++ {
		var v common.Fixed64
		c30 := common.Fixed64(math.Ceil(float64(reward) * 0.3))
		c35 := common.Fixed64(math.Ceil(float64(reward) * 0.35))
		switch rapid.IntRange(0, 7).Draw(t, "cbValueKind") {
		case 0:
			v = gen.Fixed64().Draw(t, "cbValue")
		case 1:
			v = 0
		case 2:
			v = rest
		default: // the amounts the reward rules of the different eras compare with
			natural := []common.Fixed64{c30, reward - c30 - c35, c35, reward - c30, reward - c35}
			if i < 3 && rapid.IntRange(0, 3).Draw(t, "cbNatural") != 0 {
				v = natural[i]
			} else {
				v = rapid.SampledFrom(natural).Draw(t, "cbCandidate")
			}
		}
		rest -= v
		to := tn.Keys[rapid.IntRange(0, len(tn.Keys)-1).Draw(t, "cbTo")].ProgramHash
		switch rapid.IntRange(0, 5).Draw(t, "cbToKind") {
		case 0:
			to = *tn.Params.FoundationProgramHash
		case 1:
			to = *tn.Params.CRConfiguration.CRAssetsProgramHash
		case 2:
			to = *tn.Params.DestroyELAProgramHash
		}
		asset := core.ELAAssetID
		if chaos && rapid.IntRange(0, 15).Draw(t, "cbAsset") == 0 {
			asset = common.Uint256{1}
		}
		outs = append(outs, &ctypes.Output{AssetID: asset, Value: v, ProgramHash: to, Type: ctypes.OTNone, Payload: &outputpayload.DefaultOutput{}})
	}
	nIn := 1
	if chaos {
		nIn = rapid.SampledFrom([]int{1, 1, 1, 1, 0, 2}).Draw(t, "cbInputs")
	}
	m.CoinbaseInputs = nIn
	var ins []*ctypes.Input
	for i := 0; i < nIn; i++ {
		in := &ctypes.Input{Previous: ctypes.OutPoint{TxID: common.EmptyHash, Index: math.MaxUint16}, Sequence: math.MaxUint32}
		if chaos && rapid.IntRange(0, 7).Draw(t, "cbInputOdd") == 0 {
			in.Previous.Index = uint16(rapid.IntRange(0, 3).Draw(t, "cbIndex"))
			in.Sequence = 0
		}
		ins = append(ins, in)
	}
	tv := tn.TxVersionAt(height)
	if rapid.IntRange(0, 5).Draw(t, "cbVersion") == 0 {
		tv = rapid.SampledFrom([]ctypes.TransactionVersion{0, 9}).Draw(t, "cbTxVersion")
	}
	var progs []*program.Program
	if chaos && rapid.IntRange(0, 9).Draw(t, "cbPrograms") == 0 {
		progs = append(progs, hostileProgram(t))
	}
	nonce := rapid.SliceOfN(rapid.Byte(), 8, 8).Draw(t, "cbNonce")
	attr := ctypes.NewAttribute(ctypes.Nonce, nonce)
	lock := height
	if rapid.IntRange(0, 7).Draw(t, "cbLock") == 0 {
		lock = rapid.SampledFrom([]uint32{0, 1, math.MaxUint32}).Draw(t, "cbLockTime")
	}
	return functions.CreateTransaction(tv, ctypes.CoinBase, payload.CoinBaseVersion,
		&payload.CoinBase{Content: rapid.SliceOfN(rapid.Byte(), 0, 20).Draw(t, "cbContent")},
		[]*ctypes.Attribute{&attr}, ins, outs, lock, progs)
}

// drawBlock builds a block on tn.tip; it returns the wire bytes.
func drawBlock(t *rapid.T, tn *testNode, profile string) ([]byte, *blockMeta) {
	m := &blockMeta{}
	// mode 0: everything may be wrong; 1: honest block, coinbase shape/values
	// vary within what the sanity check admits; 2: honest block carrying
	// generated transactions
	mode := rapid.SampledFrom([]int{0, 1, 1, 2}).Draw(t, "mode")
	chaos := mode == 0
	m.Mode = mode
	parent := tn.tip
	height := parent.Height + 1
	var fees common.Fixed64
	var txs []interfaces.Transaction

	nExtra := rapid.SampledFrom([]int{0, 0, 0, 1, 1, 2, 3}).Draw(t, "extraTxs")
	if mode == 2 && nExtra == 0 {
		nExtra = 1
	}
	used := map[int]bool{}
	for i := 0; i < nExtra; i++ {
		kind := rapid.IntRange(0, 5).Draw(t, "extraKind")
		if mode == 1 && kind >= 2 {
			kind = 0
		}
		if mode == 2 && (kind == 2 || kind == 3) {
			kind = 4
		}
		switch kind {
		case 0, 1: // honest transfer
			ci := rapid.IntRange(0, len(tn.coins)-1).Draw(t, "coin")
			if used[ci] {
				continue
			}
			used[ci] = true
			c := tn.coins[ci]
			fee := common.Fixed64(10000)
			tx, err := tn.Transfer([]node.Coin{c}, []node.Out{{To: tn.Keys[1].ProgramHash, Value: c.Value - fee}}, height)
			if err != nil {
				t.Fatalf("harness: transfer: %v", err)
			}
			fees += fee
			txs = append(txs, tx)
			m.ExtraTxs = append(m.ExtraTxs, "transfer")
		case 2: // a second coinbase
			txs = append(txs, drawCoinbase(t, tn, height, 1, &blockMeta{}, true))
			m.ExtraTxs = append(m.ExtraTxs, "coinbase")
		case 3: // duplicate of the previous one
			if len(txs) > 0 {
				txs = append(txs, txs[len(txs)-1])
				m.ExtraTxs = append(m.ExtraTxs, "duplicate")
			}
		default: // a generated transaction of any type, anchored
			f := gen.NewFiller(t, nil)
			f.Budget = 60
			o := gen.TxOpts{MaxInputs: 2, MaxOutputs: 2, MaxPrograms: 2, Budget: 60}
			txType := rapid.SampledFrom(orderedTypes()).Draw(t, "txType")
			spec := gen.SpecOf(txType)
			pv := rapid.SampledFrom(spec.Versions).Draw(t, "payloadVersion")
			tv := tn.TxVersionAt(height)
			if txType > 0x08 {
				tv = ctypes.TxVersion09
			}
			tx := f.BuildTx(tv, txType, pv, &o)
			shapePayload(t, tn, tx)
			if rapid.IntRange(0, 3).Draw(t, "anchored") != 0 {
				anchor(t, tn, tx, height)
				if rapid.IntRange(0, 3).Draw(t, "noInputs") == 0 {
					tx.SetInputs(nil)
				}
			}
			txs = append(txs, tx)
			m.ExtraTxs = append(m.ExtraTxs, spec.Name)
		}
	}

	reward := fees + tn.Params.GetBlockReward(height)
	var all []interfaces.Transaction
	place := rapid.IntRange(0, 11).Draw(t, "cbPlace")
	if !chaos && place == 0 {
		place = 2
	}
	if mode == 2 && place > 1 {
		place = 1
	}
	switch place {
	case 0: // no coinbase at all
		all = txs
		m.CoinbaseOutputs = -1
	case 1: // the node's own honest coinbase
		cb := tn.NewCoinbase(height, 0, 0)
		b := &types.Block{Header: ctypes.Header{Height: height}, Transactions: append([]interfaces.Transaction{cb}, txs...)}
		_ = tn.Pow.AssignCoinbaseTxRewards(b, reward)
		all = b.Transactions
		m.CoinbaseOutputs = len(cb.Outputs())
		m.CoinbaseInputs = 1
	default:
		all = append([]interfaces.Transaction{drawCoinbase(t, tn, height, reward, m, chaos)}, txs...)
	}

	b := &types.Block{
		Header: ctypes.Header{
			Version:   uint32(rapid.SampledFrom([]int{0, 0, 0, 1, 2}).Draw(t, "hdrVersion")),
			Previous:  parent.Hash(),
			Timestamp: parent.Timestamp + 1,
			Bits:      tn.Params.PowConfiguration.PowLimitBits,
			Height:    height,
		},
		Transactions: all,
	}
	m.Header = "honest"
	hdrMut := 99
	if chaos {
		hdrMut = rapid.IntRange(0, 11).Draw(t, "hdrMut")
		b.Header.Timestamp = parent.Timestamp + uint32(rapid.SampledFrom([]int{1, 1, 1, 0, 7200, 1 << 30}).Draw(t, "timeDelta"))
	}
	switch hdrMut {
	case 0:
		b.Header.Bits = rapid.SampledFrom([]uint32{0, 1, 0x00800000, 0x01810000, 0x207fffff + 1, 0xff7fffff, 0x1d00ffff}).Draw(t, "bits")
		m.Header = "bits"
	case 1:
		b.Header.Height = rapid.SampledFrom([]uint32{0, height - 1, height + 1, math.MaxUint32}).Draw(t, "height")
		m.Header = "height"
	case 2:
		b.Header.Previous = common.Uint256{9}
		m.Header = "orphan"
	}
	if err := tn.Seal(b, false); err != nil {
		// ComputeRoot of an empty transaction list
		m.Header = "no-merkle-root"
	}
	if chaos && rapid.IntRange(0, 9).Draw(t, "badRoot") == 0 {
		b.Header.MerkleRoot[0] ^= 1
		m.Header += "+badroot"
	}

	auxKind := 5
	if chaos {
		auxKind = rapid.IntRange(0, 5).Draw(t, "auxKind")
	}
	switch auxKind {
	case 0: // structurally hostile proof
		s := drawAuxSpec(t)
		var ap auxpow.AuxPow
		if err := ap.Deserialize(bytes.NewReader(s.build(b.Header.Hash(), []byte{1}))); err == nil {
			b.Header.AuxPow = ap
		}
		m.Aux = fmt.Sprintf("spec(in=%d,branches=%d,script=%d)", s.NIn, s.Branches, s.ScriptKind)
	case 1: // honest structure, proof of work not solved
		b.Header.AuxPow = *auxpow.GenerateAuxPow(b.Header.Hash())
		b.Header.AuxPow.ParBlockHeader.Timestamp = b.Header.Timestamp
		m.Aux = "unsolved"
	default:
		if b.Header.Bits == tn.Params.PowConfiguration.PowLimitBits {
			node.Solve(b, tn.Params)
			m.Aux = "solved"
		} else { // a foreign target may be unreachable: leave the honest structure unsolved
			b.Header.AuxPow = *auxpow.GenerateAuxPow(b.Header.Hash())
			b.Header.AuxPow.ParBlockHeader.Timestamp = b.Header.Timestamp
			m.Aux = "unsolved"
		}
	}

	buf := new(bytes.Buffer)
	if err := b.Serialize(buf); err != nil {
		return nil, m
	}
	return buf.Bytes(), m
}

// exerciseBlock decodes wire and runs the block checks the way ProcessBlock
// orders them, without storing anything.
func exerciseBlock(t vk.TB, tn *testNode, wire []byte) (stage string) {
	vk.Journal(append([]byte{'B'}, wire...))
	var b types.Block
	if err := b.Deserialize(bytes.NewReader(wire)); err != nil {
		return "undecodable"
	}
	render := func(pv any) any {
		return map[string]any{"block_wire": fmt.Sprintf("%x", wire), "height": b.Height, "txs": len(b.Transactions), "panic": fmt.Sprint(pv)}
	}
	var err error
	if p, pv, frame := vk.Catch(func() { err = tn.Chain.CheckBlockSanity(&b) }); p {
		vk.Report(t, panicSig(frame, pv), fmt.Sprintf("CheckBlockSanity panicked: %v", pv), render(pv))
		return "sanity-panic"
	}
	if err != nil {
		return "sanity-reject"
	}
	prev := tn.Chain.BestChain
	if b.Header.Previous != *prev.Hash || b.Header.Height != prev.Height+1 {
		return "not-on-tip"
	}
	if p, pv, frame := vk.Catch(func() { err = tn.Chain.CheckBlockContext(&b, prev) }); p {
		vk.Report(t, panicSig(frame, pv), fmt.Sprintf("CheckBlockContext panicked: %v", pv), render(pv))
		return "context-panic"
	}
	if err != nil {
		return "context-reject"
	}
	return "accepted"
}

func runBlockUnit(t *testing.T, profile string, blocks int) {
	nodeProfile := profile
	if profile == "late-dposv2" {
		nodeProfile = "late"
	}
	tn, err := newTestNode(nodeProfile, blocks)
	if err != nil {
		t.Fatalf("harness: node: %v", err)
	}
	defer tn.Close()
	if profile == "late-dposv2" {
		// the DPoS v2 reward rule (three-output coinbase) applies above the
		// height at which DPoS v2 became active; a real chain records that height
		// in the arbiters' state once enough v2 producers are staked. Only this
		// one field is set, and only the stateless block checks run on this node.
		tn.Arbiters.DPoSV2ActiveHeight = tn.Chain.GetHeight() - 3
	}
	rapid.Check(t, func(t *rapid.T) {
		wire, m := drawBlock(t, tn, profile)
		stage := "unserializable"
		if wire != nil {
			stage = exerciseBlock(t, tn, wire)
		}
		class := fmt.Sprintf("block|%s|mode=%d|cbout=%d|%s|%s", profile, m.Mode, m.CoinbaseOutputs, m.Aux[:min(len(m.Aux), 8)], stage)
		vk.Case(class, stage != "undecodable" && stage != "unserializable", wire, func() any {
			return map[string]any{"meta": m, "stage": stage, "wire": vk.Hex(wire)}
		})
	})
}

func TestBlockLegacy(t *testing.T) { runBlockUnit(t, "legacy", 6) }
func TestBlockLate(t *testing.T)   { runBlockUnit(t, "late", 34) }
func TestBlockDPoSV2(t *testing.T) { runBlockUnit(t, "late-dposv2", 34) }

// The same blocks through the real entry point (the block may connect, be
// kept as an orphan or be refused).
func runProcessUnit(t *testing.T, profile string, nblocks int) {
	// one node, rebuilt whenever a block changed its state (a refused block
	// leaves the chain as it was)
	var tn *testNode
	defer func() {
		if tn != nil {
			tn.Close()
		}
	}()
	rapid.Check(t, func(t *rapid.T) {
		if tn == nil {
			var err error
			tn, err = newTestNode(profile, nblocks)
			if err != nil {
				t.Fatalf("harness: node: %v", err)
			}
		}
		wire, m := drawBlock(t, tn, profile)
		if wire == nil {
			vk.Case("process|unserializable", false, nil, nil)
			return
		}
		vk.Journal(append([]byte{'P'}, wire...))
		var b types.Block
		if err := b.Deserialize(bytes.NewReader(wire)); err != nil {
			vk.Case("process|undecodable", false, wire, nil)
			return
		}
		// in the DPoS era peers deliver blocks together with a confirm
		var confirm *payload.Confirm
		confirmKind := "none"
		switch rapid.IntRange(0, 5).Draw(t, "confirm") {
		case 0: // generated proposal and votes
			confirm = gen.NewFiller(t, nil).GenConfirm(4)
			confirmKind = "generated"
		case 1: // names this block, votes generated
			confirm = gen.NewFiller(t, nil).GenConfirm(4)
			confirm.Proposal.BlockHash = b.Hash()
			confirmKind = "this-block"
		}
		if confirm != nil {
			// through the wire, like the block
			buf := new(bytes.Buffer)
			if err := confirm.Serialize(buf); err != nil {
				confirm, confirmKind = nil, "none"
			} else {
				c2 := &payload.Confirm{}
				if err := c2.Deserialize(bytes.NewReader(buf.Bytes())); err != nil {
					confirm, confirmKind = nil, "none"
				} else {
					confirm = c2
					vk.Journal(append(append([]byte{'P'}, wire...), buf.Bytes()...))
				}
			}
		}
		stage := "refused"
		if p, pv, frame := vk.Catch(func() {
			in, orphan, err := tn.Chain.ProcessBlock(&b, confirm)
			switch {
			case err != nil:
			case orphan:
				stage = "orphan"
			case in:
				stage = "connected"
			default:
				stage = "side"
			}
		}); p {
			vk.Report(t, panicSig(frame, pv), fmt.Sprintf("ProcessBlock panicked: %v", pv),
				map[string]any{"block_wire": fmt.Sprintf("%x", wire), "profile": profile, "confirm": confirmKind, "panic": fmt.Sprint(pv)})
			stage = "panic"
		}
		if stage != "refused" || confirm != nil {
			tn.Close()
			tn = nil
		}
		vk.Case(fmt.Sprintf("process|%s|confirm=%s|%s", profile, confirmKind, stage), true, wire, func() any {
			return map[string]any{"meta": m, "stage": stage, "profile": profile, "wire": vk.Hex(wire)}
		})
	})
}

func TestBlockProcessLegacy(t *testing.T) { runProcessUnit(t, "legacy", 4) }
func TestBlockProcessLate(t *testing.T)   { runProcessUnit(t, "late", 22) }
