package c03

import (
	"encoding/binary"
	"os"
	"testing"

	"github.com/elastos/Elastos.ELA/auxpow"
	"github.com/elastos/Elastos.ELA/common"
)

// TestReplayInput re-runs a journalled case (fatal crash) or a native-fuzz
// crasher handed over by `vcheck --replay <file>` in VERIF_REPLAY_INPUT.
func TestReplayInput(t *testing.T) {
	path := os.Getenv("VERIF_REPLAY_INPUT")
	if path == "" {
		t.Skip("no VERIF_REPLAY_INPUT")
	}
	b, err := os.ReadFile(path)
	if err != nil {
		t.Fatalf("harness: %v", err)
	}
	if len(b) == 0 {
		return
	}
	switch b[0] {
	case 'S':
		b = b[1:]
		if len(b) < 4 {
			return
		}
		n := int(binary.BigEndian.Uint32(b))
		b = b[4:]
		if n > len(b) {
			return
		}
		code := b[:n]
		b = b[n:]
		if len(b) < 4 {
			return
		}
		n = int(binary.BigEndian.Uint32(b))
		b = b[4:]
		if n > len(b) {
			return
		}
		exerciseScript(t, code, b[:n], b[n:])
	case 'A':
		if len(b) < 33 {
			return
		}
		var h common.Uint256
		copy(h[:], b[1:33])
		exerciseAuxPow(t, b[33:], h, auxpow.AuxPowChainID)
	default:
		replayOther(t, b)
	}
}
