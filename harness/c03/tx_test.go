package c03

// Level 3: decodable transactions of every type / payload version through
// CheckTransactionSanity and (when sanity accepts) CheckTransactionContext of
// a real in-process chain, at the height the next block would have.
//
// The transaction comes from the shared structural generator (every payload
// field within the limits of its decoder, boundary-biased numbers) and is then
// optionally "anchored": its inputs point at real unspent outputs, its outputs
// are made plain, and a correctly signed standard program is attached, so that
// the checks get past "unknown referred tx", the output checks and the
// signature check and reach the type-specific context checks.

import (
	"bytes"
	"fmt"
	"strings"
	"testing"

	"github.com/elastos/Elastos.ELA/common"
	"github.com/elastos/Elastos.ELA/core"
	"github.com/elastos/Elastos.ELA/core/contract/program"
	ctypes "github.com/elastos/Elastos.ELA/core/types/common"
	"github.com/elastos/Elastos.ELA/core/types/interfaces"
	"github.com/elastos/Elastos.ELA/core/types/outputpayload"
	"github.com/elastos/Elastos.ELA/core/types/payload"
	"github.com/elastos/Elastos.ELA/crypto"
	elaerr "github.com/elastos/Elastos.ELA/errors"
	"pgregory.net/rapid"
	"verifharness/gen"
	"verifharness/lib/vk"
	"verifharness/node"
)

// hostile program codes for the types that classify / slice program codes in
// their context checks (producer, CR, votes, deposit transactions)
func hostileProgram(t *rapid.T) *program.Program {
	return &program.Program{Code: genCode(t), Parameter: genParam(t)}
}

type txCase struct {
	Type     string
	TxVer    byte
	PayVer   byte
	Anchored bool
	Wire     []byte
}

// anchor rewrites inputs/outputs/programs so that the generic checks pass.
func anchor(t *rapid.T, tn *testNode, tx interfaces.Transaction, height uint32) {
	nIn := rapid.IntRange(1, 2).Draw(t, "realInputs")
	picked := map[int]bool{}
	var coins []node.Coin
	var ins []*ctypes.Input
	pool := tn.coins
	crossChainType := tx.TxType() == ctypes.WithdrawFromSideChain || tx.TxType() == ctypes.ReturnSideChainDepositCoin
	if len(tn.xcoins) > 0 && ((crossChainType && rapid.IntRange(0, 3).Draw(t, "xInputs") != 0) ||
		(!crossChainType && rapid.IntRange(0, 15).Draw(t, "xInputs") == 0)) {
		pool = tn.xcoins
	}
	for len(coins) < nIn {
		i := rapid.IntRange(0, len(pool)-1).Draw(t, "coin")
		if picked[i] {
			break
		}
		picked[i] = true
		c := pool[i]
		coins = append(coins, c)
		seq := rapid.SampledFrom([]uint32{0, 0, 0xfffffffe, 0xffffffff}).Draw(t, "sequence")
		ins = append(ins, &ctypes.Input{Previous: c.Op, Sequence: seq})
	}
	tx.SetInputs(ins)

	var total common.Fixed64
	for _, c := range coins {
		total += c.Value
	}
	if rapid.IntRange(0, 7).Draw(t, "plainOutputs") != 0 {
		fee := common.Fixed64(rapid.SampledFrom([]int64{0, 99, 100, 10000, 100000000}).Draw(t, "fee"))
		nOut := rapid.IntRange(1, 3).Draw(t, "nOut")
		var outs []*ctypes.Output
		rest := total - fee
		for i := 0; i < nOut; i++ {
			v := rest
			if i < nOut-1 {
				v = rest / 2
			}
			rest -= v
			var payload ctypes.OutputPayload
			if tx.Version() >= ctypes.TxVersion09 {
				payload = &outputpayload.DefaultOutput{}
			}
			to := tn.Keys[rapid.IntRange(0, len(tn.Keys)-1).Draw(t, "to")].ProgramHash
			if rapid.IntRange(0, 11).Draw(t, "toKind") == 0 {
				to[0] = rapid.SampledFrom([]byte{0x12, 0x4B, 0x1F, 0x3F, 0x67}).Draw(t, "toPrefix")
			}
			outs = append(outs, &ctypes.Output{AssetID: core.ELAAssetID, Value: v, ProgramHash: to, Type: ctypes.OTNone, Payload: payload})
		}
		if len(tx.Outputs()) > 0 && rapid.IntRange(0, 7).Draw(t, "keepOneGenerated") == 0 {
			outs = append(outs, tx.Outputs()[0])
		}
		tx.SetOutputs(outs)
	}

	switch rapid.IntRange(0, 5).Draw(t, "programs") {
	case 0: // keep the generated programs
	case 1: // hostile code shapes
		n := rapid.IntRange(1, 2).Draw(t, "nHostile")
		var ps []*program.Program
		for i := 0; i < n; i++ {
			ps = append(ps, hostileProgram(t))
		}
		tx.SetPrograms(ps)
	default: // honest standard signatures of the coin owners
		buf := new(bytes.Buffer)
		if err := tx.SerializeUnsigned(buf); err != nil {
			return
		}
		seen := map[int]bool{}
		var ps []*program.Program
		for _, c := range coins {
			if c.KeyIdx < 0 {
				ps = append(ps, hostileProgram(t))
				continue
			}
			if seen[c.KeyIdx] {
				continue
			}
			seen[c.KeyIdx] = true
			k := tn.Keys[c.KeyIdx]
			// deterministic enough: verdicts never depend on signature bytes
			sig, err := crypto.Sign(k.PrivKey(), buf.Bytes())
			if err != nil {
				return
			}
			ps = append(ps, &program.Program{Code: k.RedeemScript, Parameter: append([]byte{byte(len(sig))}, sig...)})
		}
		tx.SetPrograms(ps)
	}
}

func errCode(e elaerr.ELAError) string {
	if e == nil {
		return "ok"
	}
	return fmt.Sprintf("code%d", int(e.Code()))
}

// exerciseTx decodes wire and runs sanity (+ context) at the next height.
func exerciseTx(t vk.TB, tn *testNode, wire []byte, meta *txCase) (stage string) {
	vk.Journal(append([]byte{'T'}, wire...))
	tx, _, err := gen.DecodeTx(wire)
	if err != nil {
		return "undecodable"
	}
	height := tn.Chain.GetHeight() + 1
	render := func(pv any) any {
		return map[string]any{"tx_wire": fmt.Sprintf("%x", wire), "type": tx.TxType().Name(), "tx_version": tx.Version(),
			"payload_version": tx.PayloadVersion(), "height": height, "panic": fmt.Sprint(pv)}
	}
	var serr, cerr elaerr.ELAError
	if p, pv, frame := vk.Catch(func() { serr = tn.Chain.CheckTransactionSanity(height, tx) }); p {
		vk.Report(t, panicSig(frame, pv), fmt.Sprintf("CheckTransactionSanity(%s) panicked: %v", tx.TxType().Name(), pv), render(pv))
		return "sanity-panic"
	}
	if serr != nil {
		return "sanity:" + errCode(serr)
	}
	if tx.IsCoinBaseTx() {
		// no caller runs the context check on a coinbase: the mempool refuses it
		// before any check, block validation starts at transaction 1 and refuses
		// a second coinbase in the sanity check
		return "sanity-ok(coinbase)"
	}
	if p, pv, frame := vk.Catch(func() {
		_, cerr = tn.Chain.CheckTransactionContext(height, tx, 0, tn.tip.Timestamp+1)
	}); p {
		vk.Report(t, panicSig(frame, pv), fmt.Sprintf("CheckTransactionContext(%s) panicked: %v", tx.TxType().Name(), pv), render(pv))
		return "context-panic"
	}
	if cerr != nil {
		return "context:" + errCode(cerr)
	}
	return "accepted"
}

// shapePayload nudges the payloads of the anchored types past their first
// context checks (counts and list lengths the checks compare), keeping the
// hostile values in the fields the deeper code indexes with.
func shapePayload(t *rapid.T, tn *testNode, tx interfaces.Transaction) {
	switch p := tx.Payload().(type) {
	case *payload.WithdrawFromSideChain:
		if tx.PayloadVersion() == payload.WithdrawFromSideChainVersionV2 && rapid.IntRange(0, 3).Draw(t, "shapeSigners") != 0 {
			n := rapid.IntRange(8, 14).Draw(t, "nSigners")
			p.Signers = make([]uint8, n)
			for i := range p.Signers {
				p.Signers[i] = uint8(rapid.SampledFrom([]int{0, 1, 2, 3, 4, 5, 6, 7, 8, 9, 10, 11, 11, 12, 13, 36, 200, 255}).Draw(t, "signer"))
			}
		}
	case *payload.TransferCrossChainAsset:
		if tx.PayloadVersion() == payload.TransferCrossChainVersion && rapid.IntRange(0, 3).Draw(t, "shapeCross") != 0 {
			n := rapid.IntRange(1, 3).Draw(t, "nCross")
			p.CrossChainAddresses, p.OutputIndexes, p.CrossChainAmounts = nil, nil, nil
			for i := 0; i < n; i++ {
				p.CrossChainAddresses = append(p.CrossChainAddresses, fmt.Sprintf("addr%d", i))
				p.OutputIndexes = append(p.OutputIndexes, rapid.SampledFrom([]uint64{0, 1, 2, 3, 1 << 31, 1<<63 - 1, 1 << 63, 1<<64 - 1}).Draw(t, "outIndex"))
				p.CrossChainAmounts = append(p.CrossChainAmounts, common.Fixed64(rapid.Int64Range(-1, 1000).Draw(t, "crossAmount")))
			}
		}
	}
}

// shapeOutputs adds the typed outputs whose payloads point into the chain.
func shapeOutputs(t *rapid.T, tn *testNode, tx interfaces.Transaction) {
	if tx.TxType() != ctypes.ReturnSideChainDepositCoin || tx.Version() < ctypes.TxVersion09 ||
		rapid.IntRange(0, 2).Draw(t, "shapeReturnDeposit") == 0 {
		return
	}
	// a deposit transaction hash that exists in the ledger: the two genesis
	// transactions (the ELA asset registration has neither inputs nor
	// outputs), a coinbase, the funding transfer
	candidates := []common.Uint256{core.ELAAssetID, tn.Genesis.Transactions[0].Hash(), tn.tip.Transactions[0].Hash()}
	if len(tn.xcoins) > 0 {
		candidates = append(candidates, tn.xcoins[0].Op.TxID)
	}
	addr, _ := tn.Keys[0].ProgramHash.ToAddress()
	outs := tx.Outputs()
	outs = append(outs, &ctypes.Output{AssetID: core.ELAAssetID, Value: common.Fixed64(rapid.Int64Range(0, 1000).Draw(t, "returnValue")),
		ProgramHash: tn.Keys[1].ProgramHash, Type: ctypes.OTReturnSideChainDepositCoin,
		Payload: &outputpayload.ReturnSideChainDeposit{GenesisBlockAddress: addr,
			DepositTransactionHash: rapid.SampledFrom(candidates).Draw(t, "depositTx")}})
	tx.SetOutputs(outs)
}

// orderedTypes lists the types with the anchored ones first (rapid favours
// the front of a list) and the coinbase last.
func orderedTypes() []ctypes.TxType {
	first := []ctypes.TxType{ctypes.RegisterProducer, ctypes.ReturnDepositCoin, ctypes.WithdrawFromSideChain,
		ctypes.TransferCrossChainAsset, ctypes.ReturnSideChainDepositCoin, ctypes.UpdateProducer, ctypes.CancelProducer, ctypes.RegisterCR}
	seen := map[ctypes.TxType]bool{ctypes.CoinBase: true}
	out := append([]ctypes.TxType{}, first...)
	for _, x := range first {
		seen[x] = true
	}
	for _, x := range gen.TxTypes() {
		if !seen[x] {
			out = append(out, x)
		}
	}
	return append(out, ctypes.CoinBase)
}

func runTxUnit(t *testing.T, profile string, blocks int) {
	tn, err := newTestNode(profile, blocks)
	if err != nil {
		t.Fatalf("harness: node: %v", err)
	}
	defer tn.Close()
	if len(tn.coins) == 0 {
		t.Fatalf("harness: no spendable coins")
	}
	rapid.Check(t, func(t *rapid.T) {
		height := tn.Chain.GetHeight() + 1
		o := gen.TxOpts{MaxInputs: 3, MaxOutputs: 3, MaxPrograms: 2, Budget: 80}
		f := gen.NewFiller(t, nil)
		f.Budget = 80
		txType := rapid.SampledFrom(orderedTypes()).Draw(t, "txType")
		spec := gen.SpecOf(txType)
		pv := rapid.SampledFrom(spec.Versions).Draw(t, "payloadVersion")
		tv := tn.TxVersionAt(height)
		if rapid.IntRange(0, 4).Draw(t, "otherTxVersion") == 0 {
			tv = rapid.SampledFrom([]ctypes.TransactionVersion{0, 9}).Draw(t, "txVersion")
		}
		if txType > 0x08 {
			tv = ctypes.TxVersion09 // version 0 only exists for the first nine types
		}
		tx := f.BuildTx(tv, txType, pv, &o) // rapid's own control-flow panics must pass through
		shapePayload(t, tn, tx)
		meta := &txCase{Type: spec.Name, TxVer: byte(tv), PayVer: pv}
		switch rapid.IntRange(0, 9).Draw(t, "shape") {
		case 0: // as generated
		case 1: // no inputs (evidence / arbiter transactions carry none), plain everything else
			meta.Anchored = true
			anchor(t, tn, tx, height)
			tx.SetInputs(nil)
		case 2: // bare: neither inputs nor outputs
			meta.Anchored = true
			anchor(t, tn, tx, height)
			tx.SetInputs(nil)
			tx.SetOutputs(nil)
		default:
			meta.Anchored = true
			anchor(t, tn, tx, height)
			shapeOutputs(t, tn, tx)
		}
		wire := gen.TxBytes(tx)
		stage := "unserializable"
		if wire != nil {
			stage = exerciseTx(t, tn, wire, meta)
		}
		meta.Wire = wire
		class := fmt.Sprintf("tx|%s|%s|%s", profile, spec.Name, stage)
		nontrivial := stage != "undecodable" && stage != "unserializable" && !strings.HasPrefix(stage, "zz")
		vk.Case(class, nontrivial, wire, func() any {
			return map[string]any{"type": meta.Type, "tx_version": meta.TxVer, "payload_version": meta.PayVer,
				"anchored": meta.Anchored, "stage": stage, "wire": vk.Hex(wire)}
		})
	})
}

func TestTxLegacy(t *testing.T) { runTxUnit(t, "legacy", 6) }
func TestTxMid(t *testing.T)    { runTxUnit(t, "mid", 34) }
func TestTxLate(t *testing.T)   { runTxUnit(t, "late", 34) }
