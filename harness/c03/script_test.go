// C03 - validating any decoded block or transaction never panics.
//
// Level 1 (this file): program code / parameter byte strings through the
// script classifiers, the script parsers, the payload-level signature checks
// and blockchain.RunPrograms with matching program hashes.
package c03

import (
	"bytes"
	"encoding/binary"
	"fmt"
	"math/big"
	"os"
	"strings"
	"testing"

	"github.com/elastos/Elastos.ELA/blockchain"
	"github.com/elastos/Elastos.ELA/common"
	"github.com/elastos/Elastos.ELA/common/log"
	"github.com/elastos/Elastos.ELA/core/contract"
	"github.com/elastos/Elastos.ELA/core/contract/program"
	"github.com/elastos/Elastos.ELA/core/transaction"
	"github.com/elastos/Elastos.ELA/core/types/functions"
	"github.com/elastos/Elastos.ELA/crypto"
	"pgregory.net/rapid"
	"verifharness/lib/vk"
)

func TestMain(m *testing.M) {
	functions.GetTransactionByTxType = transaction.GetTransaction
	functions.GetTransactionByBytes = transaction.GetTransactionByBytes
	functions.CreateTransaction = transaction.CreateTransaction
	functions.GetTransactionParameters = transaction.GetTransactionparameters
	// every real node initialises the process-global logger at start-up
	if dir, err := os.MkdirTemp("", "c03-log"); err == nil {
		log.NewDefault(dir, 6, 0, 0)
	}
	vk.Main(m, "C03")
}

// panicSig is the signature of a crash: innermost repository frame plus the
// kind of runtime error (two different faults inside one function differ).
func panicSig(frame string, pv any) string {
	msg := fmt.Sprint(pv)
	kind := "other"
	switch {
	case strings.Contains(msg, "index out of range"):
		kind = "index"
	case strings.Contains(msg, "slice bounds out of range"):
		kind = "slice"
	case strings.Contains(msg, "nil pointer"):
		kind = "nil"
	case strings.Contains(msg, "divide by zero"):
		kind = "divide"
	case strings.Contains(msg, "interface conversion"):
		kind = "type-assertion"
	case strings.Contains(msg, "makeslice") || strings.Contains(msg, "out of memory"):
		kind = "alloc"
	}
	return "C03:panic:" + frame + ":" + kind
}

// minProgramCodeSize is what every transaction's sanity check demands of a
// program code before any signature check sees it (program.MinProgramCodeSize).
const minProgramCodeSize = 23

// ---------------------------------------------------------------------------
// deterministic key material (public keys only matter here)

var pubKeys [][]byte

func init() {
	for i := 1; i <= 8; i++ {
		d := make([]byte, 32)
		binary.BigEndian.PutUint64(d[24:], uint64(i)*0x9E3779B97F4A7C15)
		d[0] = 1
		x, y := crypto.DefaultCurve.ScalarBaseMult(d)
		pk, _ := (&crypto.PublicKey{X: x, Y: y}).EncodePoint(true)
		pubKeys = append(pubKeys, pk)
	}
}

// hostileKeys are compressed encodings 02/03 || x whose x is not a canonical
// field element or not a curve abscissa: x = P + k for the first small k with
// k^3 - 3k + b a quadratic residue mod P (so that x mod P IS on the curve), and
// x = P, 2^256-1, 0, P-1, plus an x in range that is not on the curve.
var hostileKeys [][]byte

func init() {
	P := crypto.DefaultParams.P
	B := crypto.DefaultParams.B
	onCurveModP := func(x *big.Int) bool {
		y2 := new(big.Int).Exp(x, big.NewInt(3), P)
		y2.Sub(y2, new(big.Int).Mul(big.NewInt(3), x))
		y2.Add(y2, B)
		y2.Mod(y2, P)
		return y2.Sign() == 0 || big.Jacobi(y2, P) == 1
	}
	add := func(x *big.Int) {
		if x.BitLen() > 256 {
			return
		}
		for _, prefix := range []byte{2, 3} {
			k := make([]byte, 33)
			k[0] = prefix
			x.FillBytes(k[1:])
			hostileKeys = append(hostileKeys, k)
		}
	}
	found, off := 0, 0
	for k := int64(0); found < 3; k++ { // residues: x = P + k aliases a curve point
		if onCurveModP(big.NewInt(k)) {
			add(new(big.Int).Add(P, big.NewInt(k)))
			found++
		}
	}
	for k := int64(0); off < 1; k++ { // a non-residue above P and one below
		if !onCurveModP(big.NewInt(k)) {
			add(new(big.Int).Add(P, big.NewInt(k)))
			add(big.NewInt(k))
			off++
		}
	}
	add(new(big.Int).Set(P))
	add(new(big.Int).Sub(new(big.Int).Lsh(big.NewInt(1), 256), big.NewInt(1)))
	add(big.NewInt(0))
	add(new(big.Int).Sub(P, big.NewInt(1)))
}

// keyAt indexes honest keys first, then the hostile ones.
func keyAt(i int) []byte {
	if i < len(pubKeys) {
		return pubKeys[i]
	}
	return hostileKeys[(i-len(pubKeys))%len(hostileKeys)]
}

func stdCodeKey(k []byte) []byte     { return append(append([]byte{33}, k...), 0xAC) }
func schnorrCodeKey(k []byte) []byte { return append([]byte{0x51, 33}, k...) }

func stdCode(i int) []byte { return append(append([]byte{33}, pubKeys[i%len(pubKeys)]...), 0xAC) }
func schnorrCode(i int) []byte {
	return append([]byte{0x51, 33}, pubKeys[i%len(pubKeys)]...)
}
func multiCode(mByte []byte, n int, nByte []byte, term []byte) []byte {
	c := append([]byte{}, mByte...)
	for i := 0; i < n; i++ {
		c = append(c, 33)
		c = append(c, pubKeys[i%len(pubKeys)]...)
	}
	c = append(c, nByte...)
	return append(c, term...)
}

// genCode draws a program code: the valid script shapes, their near misses
// (wrong / missing terminator, alternative m and n encodings, truncated tails,
// byte edits) at lengths around 23/35/37/71, and raw bytes.
func genCode(t *rapid.T) []byte {
	var c []byte
	switch rapid.IntRange(0, 12).Draw(t, "codekind") {
	case 10: // schnorr script over a non-canonical / off-curve key
		c = schnorrCodeKey(hostileKeys[rapid.IntRange(0, len(hostileKeys)-1).Draw(t, "hk")])
	case 11: // standard script over such a key
		c = stdCodeKey(hostileKeys[rapid.IntRange(0, len(hostileKeys)-1).Draw(t, "hk")])
	case 12: // well-formed m-of-n script whose slots mix honest and hostile keys
		n := rapid.IntRange(2, 4).Draw(t, "n")
		c = []byte{byte(0x50 + rapid.IntRange(1, n).Draw(t, "m"))}
		for i := 0; i < n; i++ {
			c = append(c, 33)
			c = append(c, keyAt(rapid.IntRange(0, len(pubKeys)+len(hostileKeys)-1).Draw(t, "slotkey"))...)
		}
		c = append(c, byte(0x50+n), rapid.SampledFrom([]byte{0xAE, 0xAF}).Draw(t, "term"))
	case 0:
		c = stdCode(rapid.IntRange(0, 7).Draw(t, "k"))
	case 1:
		c = schnorrCode(rapid.IntRange(0, 7).Draw(t, "k"))
	case 2, 3, 4, 5:
		n := rapid.IntRange(1, 5).Draw(t, "n")
		m := rapid.IntRange(0, n+1).Draw(t, "m")
		var mb, nb []byte
		switch rapid.IntRange(0, 3).Draw(t, "menc") {
		case 0:
			mb = []byte{1, byte(m)}
		case 1:
			mb = []byte{2, 0, byte(m)}
		default:
			mb = []byte{byte(0x50 + m)}
		}
		switch rapid.IntRange(0, 5).Draw(t, "nenc") {
		case 0:
			nb = []byte{1, byte(n)}
		case 1:
			nb = []byte{2, 0, byte(n)}
		case 2:
			nb = []byte{1} // length-prefixed n without its value
		case 3:
			nb = []byte{2}
		default:
			nb = []byte{byte(0x50 + n)}
		}
		term := rapid.SampledFrom([][]byte{{0xAE}, {0xAE}, {0xAF}, {}, {0xAC}, {0xAE, 0x00}}).Draw(t, "term")
		c = multiCode(mb, n, nb, term)
	case 6:
		c = rapid.SliceOfN(rapid.Byte(), 0, 80).Draw(t, "rawcode")
	case 7:
		// 33 markers at every 34th byte and nothing else
		n := rapid.IntRange(1, 4).Draw(t, "slots")
		c = []byte{0x51}
		for i := 0; i < n; i++ {
			c = append(c, 33)
			c = append(c, make([]byte, 33)...)
		}
		c = append(c, rapid.SliceOfN(rapid.Byte(), 0, 3).Draw(t, "tail")...)
	case 8:
		l := rapid.SampledFrom([]int{22, 23, 24, 34, 35, 36, 37, 38, 70, 71, 72}).Draw(t, "len")
		c = rapid.SliceOfN(rapid.Byte(), l, l).Draw(t, "lencode")
		if rapid.Bool().Draw(t, "schnorrhead") && l >= 2 {
			c[0], c[1] = 0x51, byte(l-2)
		}
	default:
		c = stdCode(0)
	}
	// 0-2 byte edits / truncations
	for i := rapid.IntRange(0, 2).Draw(t, "nmut"); i > 0 && len(c) > 0; i-- {
		switch rapid.IntRange(0, 3).Draw(t, "mut") {
		case 0:
			j := rapid.IntRange(0, len(c)-1).Draw(t, "pos")
			c[j] = rapid.Byte().Draw(t, "val")
		case 1:
			c = c[:len(c)-rapid.IntRange(1, min(3, len(c))).Draw(t, "cut")]
		case 2:
			c = append(c, rapid.SliceOfN(rapid.Byte(), 1, 2).Draw(t, "extra")...)
		default:
			j := rapid.IntRange(0, len(c)-1).Draw(t, "pos")
			c[j] = rapid.SampledFrom([]byte{0, 1, 2, 33, 0x50, 0x51, 0x52, 0x60, 0x61, 0xAC, 0xAE, 0xAF}).Draw(t, "op")
		}
	}
	return c
}

func genParam(t *rapid.T) []byte {
	switch rapid.IntRange(0, 6).Draw(t, "paramkind") {
	case 5: // signature-shaped with boundary r and s: zero, small, P, N, 2^256-1
		edge := func(label string) []byte {
			v := make([]byte, 32)
			switch rapid.IntRange(0, 5).Draw(t, label) {
			case 0:
			case 1:
				v[31] = 1
			case 2:
				crypto.DefaultParams.P.FillBytes(v)
			case 3:
				crypto.DefaultParams.N.FillBytes(v)
			case 4:
				for i := range v {
					v[i] = 0xff
				}
			default:
				new(big.Int).Sub(crypto.DefaultParams.N, big.NewInt(1)).FillBytes(v)
			}
			return v
		}
		p := append(edge("r"), edge("s")...)
		switch rapid.IntRange(0, 3).Draw(t, "sigshape") {
		case 0: // bare 64 bytes (schnorr)
		case 1: // length-prefixed (standard)
			p = append([]byte{0x40}, p...)
		case 2: // two chunks (multisig)
			p = append(append([]byte{0x40}, p...), append([]byte{0x40}, p...)...)
		default:
			p = append(p, rapid.SliceOfN(rapid.Byte(), 1, 70).Draw(t, "tail")...)
		}
		return p
	case 6: // all zero, 64 or more bytes
		return make([]byte, rapid.SampledFrom([]int{64, 65, 66, 128, 130}).Draw(t, "zlen"))
	case 0:
		l := rapid.SampledFrom([]int{0, 1, 32, 63, 64, 65, 66, 129, 130, 131, 195}).Draw(t, "plen")
		return rapid.SliceOfN(rapid.Byte(), l, l).Draw(t, "param")
	case 1:
		k := rapid.IntRange(0, 4).Draw(t, "nsig")
		var p []byte
		for i := 0; i < k; i++ {
			p = append(p, 0x40)
			p = append(p, rapid.SliceOfN(rapid.Byte(), 64, 64).Draw(t, "sig")...)
		}
		if p == nil {
			p = []byte{}
		}
		return p
	case 2:
		return []byte{}
	default:
		return rapid.SliceOfN(rapid.Byte(), 0, 140).Draw(t, "rawparam")
	}
}

// exerciseScript runs every script-level entry point on (code, param, data)
// and reports the first panic. It is shared by the rapid unit, the native
// fuzz target and the replay test.
func exerciseScript(t vk.TB, code, param, data []byte) (panicked bool) {
	j := append([]byte{'S'}, binary.BigEndian.AppendUint32(nil, uint32(len(code)))...)
	j = append(append(j, code...), binary.BigEndian.AppendUint32(nil, uint32(len(param)))...)
	j = append(append(j, param...), data...)
	vk.Journal(j)

	report := func(entry string, pv any, frame string) {
		panicked = true
		vk.Report(t, panicSig(frame, pv), fmt.Sprintf("%s panicked: %v", entry, pv),
			map[string]any{"entry": entry, "code": fmt.Sprintf("%x", code), "parameter": fmt.Sprintf("%x", param),
				"data": fmt.Sprintf("%x", data), "panic": fmt.Sprint(pv)})
	}
	try := func(entry string, f func()) bool {
		if p, pv, frame := vk.Catch(f); p {
			report(entry, pv, frame)
			return true
		}
		return false
	}

	// classifiers and parsers guard their own lengths: any byte string
	if try("contract.IsStandard", func() { contract.IsStandard(code) }) ||
		try("contract.IsSchnorr", func() { contract.IsSchnorr(code) }) ||
		try("contract.IsMultiSig", func() { contract.IsMultiSig(code) }) ||
		try("contract.GetCodeType", func() { contract.GetCodeType(code) }) ||
		try("crypto.ParseMultisigScript", func() { crypto.ParseMultisigScript(code) }) ||
		try("crypto.ParseCrossChainScript", func() { crypto.ParseCrossChainScript(code) }) ||
		try("crypto.ParseCrossChainScriptV1", func() { crypto.ParseCrossChainScriptV1(code) }) ||
		try("crypto.GetScriptType", func() { crypto.GetScriptType(code) }) ||
		try("crypto.GetM", func() { crypto.GetM(code) }) ||
		try("crypto.GetSignStatus", func() { crypto.GetSignStatus(code, param) }) ||
		// payload-level checks: code and signature are payload fields of any length
		try("blockchain.CheckCRTransactionSignature", func() { blockchain.CheckCRTransactionSignature(param, code, data) }) ||
		try("blockchain.CheckReturnVotesTransactionSignature", func() { blockchain.CheckReturnVotesTransactionSignature(param, code, data) }) {
		return true
	}

	// program verification: only codes the sanity check lets through
	if len(code) < minProgramCodeSize {
		return false
	}
	codeHash := common.ToCodeHash(code)
	for _, prefix := range []byte{0x21, 0x1F, 0x12, 0x4B, 0x67, 0x3F} {
		h := common.Uint168FromCodeHash(prefix, *codeHash)
		p := &program.Program{Code: code, Parameter: param}
		if try(fmt.Sprintf("blockchain.RunPrograms(prefix %#x)", prefix), func() {
			blockchain.RunPrograms(data, []common.Uint168{h}, []*program.Program{p})
		}) {
			return true
		}
	}
	return false
}

func scriptClass(code []byte) string {
	switch {
	case len(code) < minProgramCodeSize:
		return "short"
	case contract.IsStandard(code):
		return "standard"
	case contract.IsSchnorr(code):
		return "schnorr"
	case len(code) >= 37 && bytes.Count(code, []byte{33}) > 0 && (len(code)-1)%34 <= 4:
		return "multisig-like"
	}
	return "other"
}

func TestScripts(t *testing.T) {
	rapid.Check(t, func(t *rapid.T) {
		code := genCode(t)
		param := genParam(t)
		data := rapid.SliceOfN(rapid.Byte(), 0, 40).Draw(t, "data")
		class := "unclassified"
		vk.Catch(func() { class = scriptClass(code) })
		exerciseScript(t, code, param, data)
		vk.Case("script|"+class, len(code) >= minProgramCodeSize, append(append([]byte{}, code...), param...), func() any {
			return map[string]any{"code": fmt.Sprintf("%x", code), "parameter": fmt.Sprintf("%x", param)}
		})
	})
}

func FuzzScript(f *testing.F) {
	f.Add(stdCode(0), append([]byte{0x40}, make([]byte, 64)...), []byte("data"))
	f.Add(schnorrCode(1), make([]byte, 64), []byte("data"))
	f.Add(schnorrCode(1), []byte{}, []byte{})
	f.Add(multiCode([]byte{0x51}, 2, []byte{0x52}, []byte{0xAE}), make([]byte, 130), []byte("x"))
	f.Add(multiCode([]byte{0x51}, 2, []byte{0x52}, []byte{0xAF}), []byte{}, []byte("x"))
	f.Add(multiCode([]byte{0x51}, 2, []byte{0x52}, nil), []byte{}, []byte("x"))
	f.Add(multiCode([]byte{1, 1}, 2, []byte{1}, nil), []byte{}, []byte("x"))
	f.Add(multiCode([]byte{2, 0, 1}, 2, []byte{2}, nil), []byte{}, []byte("x"))
	f.Add([]byte{}, []byte{}, []byte{})
	for _, k := range hostileKeys {
		f.Add(schnorrCodeKey(k), make([]byte, 64), []byte("d"))
		f.Add(stdCodeKey(k), make([]byte, 65), []byte("d"))
	}
	f.Fuzz(func(t *testing.T, code, param, data []byte) {
		if len(code) > 2000 || len(param) > 4000 || len(data) > 200 {
			return
		}
		exerciseScript(t, code, param, data) // an unlisted panic fails t through vk.Report
	})
}
