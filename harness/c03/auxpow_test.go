package c03

// Level 2: merged-mining proofs through AuxPow.Check / GetExpectedIndex /
// GetMerkleRoot.  Every proof goes through the wire first (Serialize ->
// Deserialize), so only shapes a peer can deliver are checked: any number of
// parent coinbase inputs (including none), 0-40 aux merkle branches, any
// index, any coinbase script.

import (
	"bytes"
	"encoding/binary"
	"fmt"
	"testing"

	"github.com/elastos/Elastos.ELA/auxpow"
	"github.com/elastos/Elastos.ELA/common"
	"pgregory.net/rapid"
	"verifharness/lib/vk"
)

var mmHeader = []byte{0xfa, 0xbe, 'm', 'm'}

func reverse32(h common.Uint256) []byte {
	out := make([]byte, 32)
	for i := range h {
		out[31-i] = h[i]
	}
	return out
}

// exerciseAuxPow decodes wire and checks it against blockHash.
func exerciseAuxPow(t vk.TB, wire []byte, blockHash common.Uint256, chainID int) (decoded, accepted bool) {
	vk.Journal(append(append([]byte{'A'}, blockHash[:]...), wire...))
	render := func(pv any) any {
		return map[string]any{"auxpow_wire": fmt.Sprintf("%x", wire), "block_hash": fmt.Sprintf("%x", blockHash[:]),
			"chain_id": chainID, "panic": fmt.Sprint(pv)}
	}
	var ap auxpow.AuxPow
	var derr error
	if p, pv, frame := vk.Catch(func() { derr = ap.Deserialize(bytes.NewReader(wire)) }); p {
		// decoding is C02's subject; not reported here
		vk.Class("auxpow-decode-panicked(C02):" + frame)
		_ = pv
		return false, false
	}
	if derr != nil {
		return false, false
	}
	if p, pv, frame := vk.Catch(func() { h := blockHash; accepted = ap.Check(&h, chainID) }); p {
		vk.Report(t, panicSig(frame, pv), fmt.Sprintf("AuxPow.Check panicked: %v", pv), render(pv))
		return true, false
	}
	if p, pv, frame := vk.Catch(func() {
		auxpow.GetMerkleRoot(blockHash, ap.AuxMerkleBranch, ap.AuxMerkleIndex)
		auxpow.GetMerkleRoot(ap.ParCoinbaseTx.Hash(), ap.ParCoinBaseMerkle, ap.ParMerkleIndex)
	}); p {
		vk.Report(t, panicSig(frame, pv), fmt.Sprintf("GetMerkleRoot panicked: %v", pv), render(pv))
	}
	return true, accepted
}

// buildAuxPow makes a proof that is valid for blockHash up to the listed
// deviations (so that Check gets as far as possible).
type auxSpec struct {
	NIn        int    // parent coinbase inputs
	Branches   int    // aux merkle branch length
	Index      uint32 // aux merkle index
	SizeField  uint32 // "size" in the coinbase script
	Nonce      uint32
	ParBranch  int
	ParIndex   uint32
	ScriptKind int // 0 canonical, 1 no marker, 2 three bytes after the root, 3 raw, 4 canonical minus 1-4 trailing bytes
	Cut        int
	Raw        []byte
	HonestSize bool
	HonestIdx  bool
}

func drawAuxSpec(t *rapid.T) auxSpec {
	s := auxSpec{}
	s.NIn = rapid.SampledFrom([]int{0, 0, 1, 1, 1, 2, 3}).Draw(t, "nIn")
	s.Branches = rapid.SampledFrom([]int{0, 0, 1, 2, 5, 12, 30, 31, 32, 32, 33, 40}).Draw(t, "branches")
	s.HonestSize = rapid.IntRange(0, 3).Draw(t, "honestSize") != 0
	s.HonestIdx = rapid.Bool().Draw(t, "honestIdx")
	s.Nonce = rapid.Uint32().Draw(t, "nonce")
	s.SizeField = rapid.SampledFrom([]uint32{0, 1, 2, 1 << 31, 0xffffffff}).Draw(t, "size")
	s.Index = rapid.SampledFrom([]uint32{0, 1, 2, 1<<31 - 1, 1 << 31, 0xffffffff}).Draw(t, "index")
	s.ParBranch = rapid.SampledFrom([]int{0, 0, 1, 3, 33}).Draw(t, "parBranch")
	s.ParIndex = rapid.SampledFrom([]uint32{0, 1, 5, 0xffffffff}).Draw(t, "parIndex")
	s.ScriptKind = rapid.SampledFrom([]int{0, 0, 0, 0, 1, 2, 3, 4, 4}).Draw(t, "scriptKind")
	if s.ScriptKind == 4 {
		s.Cut = rapid.IntRange(1, 4).Draw(t, "cut")
	}
	if s.ScriptKind == 3 {
		s.Raw = rapid.SliceOfN(rapid.Byte(), 0, 60).Draw(t, "rawscript")
	}
	return s
}

func (s auxSpec) build(blockHash common.Uint256, seed []byte) []byte {
	branch := make([]common.Uint256, s.Branches)
	for i := range branch {
		branch[i] = common.Sha256D(append(seed, byte(i)))
	}
	size := s.SizeField
	if s.HonestSize {
		size = uint32(1) << uint32(s.Branches%64) // what Check computes in uint32 arithmetic (0 for >= 32)
		if s.Branches >= 32 {
			size = 0
		}
	}
	index := s.Index
	if s.HonestIdx && s.Branches < 32 {
		index = uint32(auxpow.GetExpectedIndex(s.Nonce, auxpow.AuxPowChainID, s.Branches))
	}
	var rev common.Uint256
	copy(rev[:], reverse32(blockHash))
	root := auxpow.GetMerkleRoot(rev, branch, int(index))
	var script []byte
	switch s.ScriptKind {
	case 0:
		script = append(append([]byte{}, mmHeader...), reverse32(root)...)
		script = binary.LittleEndian.AppendUint32(script, size)
		script = binary.LittleEndian.AppendUint32(script, s.Nonce)
	case 1:
		script = append([]byte{}, reverse32(root)...)
	case 2:
		script = append(append([]byte{}, mmHeader...), reverse32(root)...)
		script = append(script, 1, 0, 0)
	case 4: // size present, nonce incomplete
		script = append(append([]byte{}, mmHeader...), reverse32(root)...)
		script = binary.LittleEndian.AppendUint32(script, size)
		script = binary.LittleEndian.AppendUint32(script, s.Nonce)
		script = script[:len(script)-s.Cut]
	default:
		script = s.Raw
	}
	tx := auxpow.BtcTx{Version: 1}
	for i := 0; i < s.NIn; i++ {
		sc := script
		if i > 0 {
			sc = []byte{byte(i)}
		}
		tx.TxIn = append(tx.TxIn, &auxpow.BtcTxIn{SignatureScript: sc})
	}
	parBranch := make([]common.Uint256, s.ParBranch)
	for i := range parBranch {
		parBranch[i] = common.Sha256D(append(seed, 0x80, byte(i)))
	}
	ap := auxpow.AuxPow{
		AuxMerkleBranch: branch, AuxMerkleIndex: int(index),
		ParCoinbaseTx: tx, ParCoinBaseMerkle: parBranch, ParMerkleIndex: int(s.ParIndex),
	}
	ap.ParBlockHeader.MerkleRoot = auxpow.GetMerkleRoot(tx.Hash(), parBranch, int(s.ParIndex))
	buf := new(bytes.Buffer)
	if err := ap.Serialize(buf); err != nil {
		panic("harness: auxpow serialize: " + err.Error())
	}
	return buf.Bytes()
}

func TestAuxPow(t *testing.T) {
	rapid.Check(t, func(t *rapid.T) {
		s := drawAuxSpec(t)
		var bh common.Uint256
		copy(bh[:], rapid.SliceOfN(rapid.Byte(), 32, 32).Draw(t, "blockhash"))
		var wire []byte
		if p, pv, _ := vk.Catch(func() { wire = s.build(bh, bh[:4]) }); p {
			// GetExpectedIndex is only called for < 32 branches while building
			t.Fatalf("harness: building the proof panicked: %v", pv)
		}
		// 0-1 raw mutations of the wire bytes
		if rapid.IntRange(0, 4).Draw(t, "wiremut") == 0 && len(wire) > 0 {
			i := rapid.IntRange(0, len(wire)-1).Draw(t, "pos")
			wire[i] ^= 1 << uint(rapid.IntRange(0, 7).Draw(t, "bit"))
		}
		decoded, accepted := exerciseAuxPow(t, wire, bh, auxpow.AuxPowChainID)
		class := fmt.Sprintf("auxpow|in=%d|branches=%s|script=%d|accepted=%v", min(s.NIn, 2), bucket(s.Branches), s.ScriptKind, accepted)
		// non-trivial: decoded and past the first check (the parent merkle root matches by construction)
		vk.Case(class, decoded, wire, func() any {
			return map[string]any{"spec": s, "wire": vk.Hex(wire), "accepted": accepted}
		})
	})
}

func bucket(n int) string {
	switch {
	case n == 0:
		return "0"
	case n < 31:
		return "1-30"
	case n == 31:
		return "31"
	case n == 32:
		return "32"
	}
	return ">32"
}

func FuzzAuxPow(f *testing.F) {
	var bh common.Uint256
	copy(bh[:], bytes.Repeat([]byte{7}, 32))
	for _, s := range []auxSpec{
		{NIn: 1, HonestSize: true, HonestIdx: true},
		{NIn: 0, HonestSize: true, HonestIdx: true},
		{NIn: 1, Branches: 3, HonestSize: true, HonestIdx: true, Nonce: 5},
		{NIn: 1, Branches: 32, HonestSize: true},
		{NIn: 1, Branches: 33, HonestSize: true},
		{NIn: 2, Branches: 1, ScriptKind: 2},
		{NIn: 1, HonestSize: true, HonestIdx: true, ScriptKind: 4, Cut: 2},
		{NIn: 1, ScriptKind: 3, Raw: []byte{0xfa, 0xbe, 'm', 'm'}},
	} {
		f.Add(s.build(bh, []byte("seed")), bh[:])
	}
	f.Fuzz(func(t *testing.T, wire, hash []byte) {
		if len(wire) > 4096 {
			return
		}
		var h common.Uint256
		copy(h[:], hash)
		exerciseAuxPow(t, wire, h, auxpow.AuxPowChainID)
	})
}
