package c03

import (
	"fmt"

	"github.com/elastos/Elastos.ELA/common"
	"github.com/elastos/Elastos.ELA/common/config"
	"github.com/elastos/Elastos.ELA/core/types"
	ctypes "github.com/elastos/Elastos.ELA/core/types/common"
	"github.com/elastos/Elastos.ELA/core/types/interfaces"
	"verifharness/node"
)

// lateTweak pulls the activation heights of the later protocol eras down so
// that, on a chain of ~30 blocks, the height-gated branches of the checkers
// (DPoS consensus, Schnorr programs, cross-chain v1, DPoS v2 payloads, NFT,
// multi-code owners ...) are the ones a transaction meets.
func lateTweak(p *config.Configuration) {
	node.CompressedDefault(p) // VoteStart 2, CRCOnlyDPOS 10, PublicDPOS 20, RevertToPOW 30
	p.CRConfiguration.CRVotingStartHeight = 3
	p.CRConfiguration.RegisterCRByDIDHeight = 4
	p.CRConfiguration.CRCProposalV1Height = 5
	p.CRConfiguration.CRCProposalWithdrawPayloadV1Height = 5
	p.CRConfiguration.CRAssetsRectifyTransactionHeight = 5
	p.CRConfiguration.CRCProposalDraftDataStartHeight = 5
	p.CustomIDProposalStartHeight = 5
	p.NewCrossChainStartHeight = 25
	p.ReturnCrossChainCoinStartHeight = 6
	p.DPoSV2StartHeight = 22
	p.SupportMultiCodeHeight = 6
	p.SchnorrStartHeight = 26
	p.NormalSchnorrStartHeight = 6
	p.ProducerSchnorrStartHeight = 6
	p.CRSchnorrStartHeight = 6
	p.VotesSchnorrStartHeight = 6
	p.MultiExchangeVotesStartHeight = 6
	p.DPoSConfiguration.NFTStartHeight = 6
	p.DPoSConfiguration.NFTV2StartHeight = 6
	p.DPoSConfiguration.DexStartHeight = 6
	p.ProhibitTransferToDIDHeight = 6
}

// midTweak: DPoS consensus with the regnet CRC arbiters, but before the
// Schnorr-withdraw / cross-chain-v1 / DPoS-v2 switches (the multisig withdraw
// v0/v1 and cross-chain v0 branches are the live ones).
func midTweak(p *config.Configuration) {
	lateTweak(p)
	p.SchnorrStartHeight = 1 << 30
	p.NewCrossChainStartHeight = 1 << 30
	p.DPoSV2StartHeight = 1 << 30
}

type testNode struct {
	*node.Node
	tip    *types.Block
	coins  []node.Coin // spendable, owned by ring keys
	xcoins []node.Coin // spendable outputs of cross-chain (X) addresses
}

func newTestNode(profile string, blocks int) (*testNode, error) {
	o := node.Opts{NKeys: 4}
	switch profile {
	case "late":
		o.Tweak = lateTweak
	case "mid":
		o.Tweak = midTweak
	}
	n, err := node.New(o)
	if err != nil {
		return nil, err
	}
	tn := &testNode{Node: n, tip: n.Genesis}
	for i := 0; i < blocks; i++ {
		if err := tn.mine(nil, 0, i%3); err != nil {
			n.Close()
			return nil, fmt.Errorf("block %d: %w", i+1, err)
		}
	}
	if err := tn.refreshCoins(); err != nil {
		n.Close()
		return nil, err
	}
	if err := tn.fundCrossChain(); err != nil {
		n.Close()
		return nil, fmt.Errorf("funding cross-chain outputs: %w", err)
	}
	return tn, nil
}

// fundCrossChain pays three outputs to cross-chain (X-prefixed) addresses so
// that WithdrawFromSideChain / ReturnSideChainDepositCoin find the kind of
// input their context checks insist on.
func (tn *testNode) fundCrossChain() error {
	if len(tn.coins) == 0 {
		return fmt.Errorf("no coins")
	}
	var coin *node.Coin
	for i := range tn.coins {
		if tn.coins[i].Value > 100*100000000 {
			coin = &tn.coins[i]
			break
		}
	}
	if coin == nil {
		return fmt.Errorf("no large coin")
	}
	fee := common.Fixed64(10000)
	var outs []node.Out
	for i := 0; i < 3; i++ {
		h := *common.ToProgramHash(0x4B, []byte{0x20, byte(i), 0xAF})
		outs = append(outs, node.Out{To: h, Value: 10 * 100000000})
	}
	outs = append(outs, node.Out{To: tn.Keys[coin.KeyIdx].ProgramHash, Value: coin.Value - 30*100000000 - fee})
	tx, err := tn.Transfer([]node.Coin{*coin}, outs, tn.Chain.GetHeight()+1)
	if err != nil {
		return err
	}
	if err := tn.mine([]interfaces.Transaction{tx}, fee, 0); err != nil {
		return err
	}
	if err := tn.mine(nil, 0, 1); err != nil {
		return err
	}
	if err := tn.refreshCoins(); err != nil {
		return err
	}
	h := tx.Hash()
	for i := 0; i < 3; i++ {
		tn.xcoins = append(tn.xcoins, node.Coin{Op: ctypesOutPoint(h, uint16(i)), Value: 10 * 100000000, Owner: outs[i].To, KeyIdx: -1})
	}
	return nil
}

func (tn *testNode) mine(txs []interfaces.Transaction, fee common.Fixed64, miner int) error {
	b, err := tn.BuildBlock(node.BlockSpec{Parent: tn.tip, Txs: txs, Fees: fee, MinerKey: miner})
	if err != nil {
		return err
	}
	in, _, err := tn.Process(b)
	if err != nil {
		return err
	}
	if !in {
		return fmt.Errorf("block not in main chain")
	}
	tn.tip = b
	return nil
}

func (tn *testNode) refreshCoins() error {
	blocks, err := tn.ActiveChain()
	if err != nil {
		return err
	}
	u, err := node.Replay(blocks, tn.KeyIndexOf)
	if err != nil {
		return err
	}
	tn.coins = nil
	for _, c := range u.Spendable(tn.Chain.GetHeight()+1, tn.Params.PowConfiguration.CoinbaseMaturity) {
		if c.KeyIdx >= 0 {
			tn.coins = append(tn.coins, c)
		}
	}
	return nil
}

func ctypesOutPoint(h common.Uint256, i uint16) ctypes.OutPoint {
	return ctypes.OutPoint{TxID: h, Index: i}
}
