// C14 - queryable UTXO views agree with the ledger.
//
// Generator: the chainsm history machine (shared with C06) restricted to 2-5
// owner addresses, with zero-value outputs and multi-output/multi-input
// payments, forks, reorganisations, orphan deliveries and refused blocks.
// Oracle: after every step the node's REPORTED active chain is replayed in the
// harness ledger model and every query entry point is compared with it:
//   - GetUnspent(txid) for every transaction of every block the history ever
//     built (also side-branch and refused ones: nothing unspent there);
//   - GetUTXO(programHash) as a multiset of (txid, index, value) and
//     Ledger.GetAmount for every address that ever received an output; zero-value
//     outputs must not be listed;
//   - GetTransaction(txid): found with the stored bytes and the height of its
//     active block iff the transaction is on the active chain.
package c14

import (
	"bytes"
	"fmt"
	"sort"
	"strings"
	"testing"

	"github.com/elastos/Elastos.ELA/blockchain"
	"github.com/elastos/Elastos.ELA/common"
	ctypes "github.com/elastos/Elastos.ELA/core/types/common"
	"github.com/elastos/Elastos.ELA/core/types/interfaces"
	"pgregory.net/rapid"

	"verifharness/lib/chainsm"
	"verifharness/lib/vk"
)

func TestMain(m *testing.M) { vk.Main(m, "C14") }

type universe struct {
	seenBlocks int
	txs        map[common.Uint256]interfaces.Transaction
	order      []common.Uint256
	owners     map[common.Uint168]bool
	ownerOrder []common.Uint168
	// per-history classification
	mixedAddress bool // some address had both a spent and an unspent output on the active chain
	zeroSeen     bool // a zero-value output was unspent on the active chain at some step
	zeroSpent    bool // a zero-value output was spent on the active chain at some step
	sideTxSeen   bool // a transaction known only from inactive blocks was queried
}

func (u *universe) absorb(m *chainsm.Machine) {
	for ; u.seenBlocks < len(m.Tree.Nodes); u.seenBlocks++ {
		for _, tx := range m.Tree.Nodes[u.seenBlocks].Block.Transactions {
			u.addTx(tx)
		}
	}
	for _, k := range m.Txs { // also transactions that never made it into a block
		u.addTx(k.Tx)
	}
}

func (u *universe) addTx(tx interfaces.Transaction) {
	h := tx.Hash()
	if _, ok := u.txs[h]; ok {
		return
	}
	u.txs[h] = tx
	u.order = append(u.order, h)
	for _, o := range tx.Outputs() {
		if !u.owners[o.ProgramHash] {
			u.owners[o.ProgramHash] = true
			u.ownerOrder = append(u.ownerOrder, o.ProgramHash)
		}
	}
}

func txBytes(tx interfaces.Transaction) []byte {
	buf := new(bytes.Buffer)
	_ = tx.Serialize(buf)
	return buf.Bytes()
}

type entry struct {
	op    ctypes.OutPoint
	value common.Fixed64
}

func sortEntries(e []entry) {
	sort.Slice(e, func(i, j int) bool {
		if c := e[i].op.TxID.Compare(e[j].op.TxID); c != 0 {
			return c < 0
		}
		if e[i].op.Index != e[j].op.Index {
			return e[i].op.Index < e[j].op.Index
		}
		return e[i].value < e[j].value
	})
}

func oracle(u *universe) func(m *chainsm.Machine, t *rapid.T) {
	return func(m *chainsm.Machine, t *rapid.T) {
		op := m.Last.Op
		l := m.Ledger
		if len(l.Viol) > 0 {
			// the reported chain itself breaks the spending rules: property C06 judges that;
			// a replay ledger of such a chain is not a meaningful reference
			vk.Class("also/active-chain-violates-C06")
			return
		}
		u.absorb(m)
		ffldb := m.N.Store.GetFFLDB()

		// ---- per transaction: unspent query and transaction lookup
		for _, h := range u.order {
			pos, onChain := l.TxAt[h]
			var want []uint16
			if onChain {
				for j := range u.txs[h].Outputs() {
					if _, ok := l.UTXO[ctypes.OutPoint{TxID: h, Index: uint16(j)}]; ok {
						want = append(want, uint16(j))
					}
				}
			} else {
				u.sideTxSeen = true
			}
			got, err := ffldb.GetUnspent(h)
			if err != nil {
				vk.Report(t, "C14:GetUnspent:error:"+op, fmt.Sprintf("GetUnspent(%s): %v", h, err), m.Render())
				return
			}
			gs := append([]uint16(nil), got...)
			sort.Slice(gs, func(i, j int) bool { return gs[i] < gs[j] })
			if kind := diffU16(gs, want); kind != "" {
				where := "active"
				if !onChain {
					where = "inactive"
				}
				vk.Report(t, "C14:GetUnspent:"+kind+":"+where+"-tx:"+op, fmt.Sprintf("GetUnspent(%s)=%v, replay of the active chain says %v (tx on active chain: %v)", h, got, want, onChain), m.Render())
				return
			}

			for qi, q := range []func(common.Uint256) (interfaces.Transaction, uint32, error){m.N.Store.GetTransaction, ffldb.GetTransaction} {
				name := []string{"ChainStore.GetTransaction", "FFLDB.GetTransaction"}[qi]
				tx, height, err := q(h)
				switch {
				case onChain && (err != nil || tx == nil):
					vk.Report(t, "C14:GetTransaction:not-found:"+op, fmt.Sprintf("%s(%s) fails (%v) but the tx is at height %d of the active chain", name, h, err, pos.Height), m.Render())
					return
				case !onChain && err == nil && tx != nil:
					vk.Report(t, "C14:GetTransaction:found-inactive:"+op, fmt.Sprintf("%s(%s) returns a tx (height %d) that is not on the active chain", name, h, height), m.Render())
					return
				case onChain:
					if height != pos.Height {
						vk.Report(t, "C14:GetTransaction:height:"+op, fmt.Sprintf("%s(%s) height %d, active chain has it at %d", name, h, height, pos.Height), m.Render())
						return
					}
					// reference bytes: the transaction object the harness built and put into the block
					if tx.Hash() != h || !bytes.Equal(txBytes(tx), txBytes(u.txs[h])) {
						vk.Report(t, "C14:GetTransaction:content:"+op, fmt.Sprintf("%s(%s) returns different bytes than the transaction that was mined", name, h), m.Render())
						return
					}
				}
			}
		}
		vk.Count("tx-queries", int64(len(u.order)))

		// ---- per address: UTXO list and balance
		spentOwners := map[common.Uint168]bool{}
		for opnt := range l.SpentBy {
			if c, ok := l.Created[opnt]; ok {
				spentOwners[c.Owner] = true
				if c.Value == 0 {
					u.zeroSpent = true
				}
			}
		}
		wantBy := map[common.Uint168][]entry{}
		for opnt, c := range l.UTXO {
			if c.Value == 0 {
				u.zeroSeen = true
				continue
			}
			wantBy[c.Owner] = append(wantBy[c.Owner], entry{opnt, c.Value})
		}
		for _, owner := range u.ownerOrder {
			owner := owner
			list, err := ffldb.GetUTXO(&owner)
			if err != nil {
				vk.Report(t, "C14:GetUTXO:error:"+op, fmt.Sprintf("GetUTXO(%s): %v", owner, err), m.Render())
				return
			}
			var got []entry
			for _, x := range list {
				if x.Value == 0 {
					vk.Report(t, "C14:GetUTXO:zero-value-listed:"+op, fmt.Sprintf("GetUTXO(%s) lists zero-value output %s:%d", owner, x.TxID, x.Index), m.Render())
					return
				}
				got = append(got, entry{ctypes.OutPoint{TxID: x.TxID, Index: x.Index}, x.Value})
			}
			want := wantBy[owner]
			sortEntries(got)
			sortEntries(want)
			if kind, detail := diffEntries(got, want, l); kind != "" {
				vk.Report(t, "C14:GetUTXO:"+kind+":"+op, fmt.Sprintf("GetUTXO(%s): %s (node lists %d, replay %d)", owner, detail, len(got), len(want)), m.Render())
				return
			}
			var wantSum common.Fixed64
			for _, e := range want {
				wantSum += e.value
			}
			amount, err := blockchain.DefaultLedger.GetAmount(owner)
			if err != nil || amount != wantSum {
				vk.Report(t, "C14:GetAmount:mismatch:"+op, fmt.Sprintf("Ledger.GetAmount(%s)=%v err=%v, replay says %v", owner, amount, err, wantSum), m.Render())
				return
			}
			if len(want) > 0 && spentOwners[owner] {
				u.mixedAddress = true
			}
		}
		vk.Count("address-queries", int64(len(u.ownerOrder)))
	}
}

func diffU16(got, want []uint16) string {
	g := map[uint16]int{}
	for _, x := range got {
		g[x]++
		if g[x] > 1 {
			return "duplicate-index"
		}
	}
	w := map[uint16]bool{}
	for _, x := range want {
		w[x] = true
		if g[x] == 0 {
			return "missing-index"
		}
	}
	for _, x := range got {
		if !w[x] {
			return "extra-index"
		}
	}
	return ""
}

func diffEntries(got, want []entry, l *chainsm.Ledger) (string, string) {
	g := map[ctypes.OutPoint]int{}
	gv := map[ctypes.OutPoint]common.Fixed64{}
	for _, e := range got {
		g[e.op]++
		gv[e.op] = e.value
		if g[e.op] > 1 {
			return "duplicate-entry", fmt.Sprintf("%s:%d listed twice", e.op.TxID, e.op.Index)
		}
	}
	w := map[ctypes.OutPoint]bool{}
	for _, e := range want {
		w[e.op] = true
		if g[e.op] == 0 {
			return "missing-entry", fmt.Sprintf("unspent output %s:%d (value %v) is not listed", e.op.TxID, e.op.Index, e.value)
		}
		if gv[e.op] != e.value {
			return "wrong-value", fmt.Sprintf("%s:%d listed with value %v, ledger has %v", e.op.TxID, e.op.Index, gv[e.op], e.value)
		}
	}
	for _, e := range got {
		if !w[e.op] {
			why := "not on the active chain"
			if _, was := l.SpentBy[e.op]; was {
				why = "spent on the active chain"
			}
			return "stale-entry", fmt.Sprintf("listed output %s:%d is %s", e.op.TxID, e.op.Index, why)
		}
	}
	return "", ""
}

func TestViews(t *testing.T) {
	rapid.Check(t, func(t *rapid.T) {
		u := &universe{txs: map[common.Uint256]interfaces.Transaction{}, owners: map[common.Uint168]bool{}}
		o := chainsm.Opts{
			NAddrs:   rapid.IntRange(2, 5).Draw(t, "naddrs"),
			ZeroOuts: true,
			MaxOuts:  rapid.IntRange(2, 5).Draw(t, "max-outs"),
			MaxIns:   rapid.IntRange(2, 4).Draw(t, "max-ins"),
			After:    oracle(u),
		}
		m := chainsm.Run(t, o)
		nt := m.Reorgs > 0 && u.mixedAddress
		var parts []string
		switch {
		case m.ReorgsWithSpend > 0:
			parts = append(parts, "reorg-with-spend")
		case m.Reorgs > 0:
			parts = append(parts, "reorg-without-spend")
		default:
			parts = append(parts, "no-reorg")
		}
		if u.mixedAddress {
			parts = append(parts, "mixed-address")
		}
		if u.zeroSeen {
			vk.Class("also/zero-value-output-unspent")
		}
		if u.zeroSpent {
			vk.Class("also/zero-value-output-spent")
		}
		if u.sideTxSeen {
			vk.Class("also/inactive-tx-queried")
		}
		if m.RespendReorgs > 0 {
			vk.Class("also/reorg-respends-restored-output-with-another-tx")
		}
		if m.ReminedReorgs > 0 {
			vk.Class("also/reorg-mines-disconnected-tx-again-(maybe-other-height)")
		}
		if len(m.Wide) > 0 {
			vk.Class("also/tx-with-more-than-256-outputs")
		}
		if m.WideSpent > 0 {
			vk.Class("also/spends-around-output-index-256")
		}
		if m.MaxReorgDepth >= 3 {
			vk.Class("also/reorg-depth>=3")
		}
		if m.FailedReorgs > 0 {
			vk.Class("also/failed-reorg(C12)")
		}
		if m.OrphanDeliveries > 0 {
			vk.Class("also/orphan-delivery")
		}
		vk.Count("reorgs", int64(m.Reorgs))
		vk.Count("reorgs-with-spend", int64(m.ReorgsWithSpend))
		vk.Count("max-height-sum", int64(m.MaxHeight))
		vk.Case(strings.Join(parts, "+"), nt, m.Key(), m.Render)
	})
}
