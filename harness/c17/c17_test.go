// C17 - ffldb survives a process stop at any instrumented point.
//
// One rapid case = one generated store history (configuration + 3-10 steps:
// commits with block stores forcing file rollover, metadata puts/deletes in the
// root and in a nested bucket, rolled-back transactions, clean close/reopen).
// A counting child (this test binary re-executed) replays the history and
// records every crashPoint hit; then for EVERY hit index k a child replays the
// history and os.Exit()s inside hit k.  The parent reopens the directory and
// compares the observable state with the model states S_0..S_n.  When reopening
// itself passes crash points (reconcile -> handleRollback) every one of those
// is enumerated as a second crash on a copy of the directory.
package c17

import (
	"bytes"
	"context"
	"crypto/sha256"
	"encoding/hex"
	"encoding/json"
	"errors"
	"fmt"
	"os"
	"os/exec"
	"path/filepath"
	"sort"
	"strconv"
	"strings"
	"sync"
	"testing"
	"time"

	"github.com/btcsuite/btcd/wire"
	"github.com/elastos/Elastos.ELA/common"
	"github.com/elastos/Elastos.ELA/database"
	"github.com/elastos/Elastos.ELA/database/ffldb"
	"pgregory.net/rapid"
	"verifharness/lib/vk"
)

func TestMain(m *testing.M) {
	if os.Getenv("VERIF_C17_CHILD") != "" {
		childMain()
		return
	}
	vk.Main(m, "C17")
}

// ---------------------------------------------------------------- history

type Block struct {
	ID   int `json:"id"`
	Size int `json:"size"`
}

type KV struct {
	Bucket bool   `json:"bucket"` // nested bucket "b" instead of the root
	Key    string `json:"k"`
	Val    string `json:"v"` // hex
	Del    bool   `json:"del"`
}

type Step struct {
	Kind    string  `json:"kind"` // commit | update | rollback | reopen
	Blocks  []Block `json:"blocks,omitempty"`
	KVs     []KV    `json:"kvs,omitempty"`
	DropBkt bool    `json:"drop_bucket,omitempty"` // delete and recreate bucket "b" in this transaction
}

type History struct {
	MaxFile   uint32 `json:"max_block_file"`
	CacheSize uint64 `json:"cache_size"`
	FlushSecs uint32 `json:"flush_secs"`
	Torn      int    `json:"torn"` // garbage bytes appended to the newest block file when stopping inside writeBlock
	Steps     []Step `json:"steps"`
}

func blockHash(id int) common.Uint256 {
	return common.Uint256(sha256.Sum256([]byte(fmt.Sprintf("c17-block-%d", id))))
}

func blockData(id, size int) []byte {
	out := make([]byte, size)
	x := uint32(id)*2654435761 + 12345
	for i := range out {
		x ^= x << 13
		x ^= x >> 17
		x ^= x << 5
		out[i] = byte(x)
	}
	return out
}

// state is the observable content: root keys, nested bucket keys (nil map =
// bucket absent), stored blocks.
type state struct {
	root   map[string]string
	bkt    map[string]string
	blocks map[int]int // id -> size
	seq    int
}

func (s state) clone() state {
	n := state{root: map[string]string{}, blocks: map[int]int{}, seq: s.seq}
	for k, v := range s.root {
		n.root[k] = v
	}
	if s.bkt != nil {
		n.bkt = map[string]string{}
		for k, v := range s.bkt {
			n.bkt[k] = v
		}
	}
	for k, v := range s.blocks {
		n.blocks[k] = v
	}
	return n
}

func (s state) canon() string {
	var sb strings.Builder
	ks := make([]string, 0, len(s.root))
	for k := range s.root {
		ks = append(ks, k)
	}
	sort.Strings(ks)
	for _, k := range ks {
		fmt.Fprintf(&sb, "%s=%s;", k, s.root[k])
	}
	if s.bkt == nil {
		sb.WriteString("|nobucket|")
	} else {
		sb.WriteString("|b:")
		ks = ks[:0]
		for k := range s.bkt {
			ks = append(ks, k)
		}
		sort.Strings(ks)
		for _, k := range ks {
			fmt.Fprintf(&sb, "%s=%s;", k, s.bkt[k])
		}
		sb.WriteString("|")
	}
	ids := make([]int, 0, len(s.blocks))
	for id := range s.blocks {
		ids = append(ids, id)
	}
	sort.Ints(ids)
	for _, id := range ids {
		fmt.Fprintf(&sb, "blk%d:%d;", id, s.blocks[id])
	}
	return sb.String()
}

// applyStep returns the state after a committed step (the step number is
// stored under "seq", which makes all S_j pairwise different).
func applyStep(s state, st Step, seq int) state {
	n := s.clone()
	n.seq = seq
	n.root["seq"] = hex.EncodeToString([]byte(strconv.Itoa(seq)))
	if st.DropBkt {
		n.bkt = map[string]string{}
	}
	for _, kv := range st.KVs {
		m := n.root
		if kv.Bucket {
			if n.bkt == nil {
				n.bkt = map[string]string{}
			}
			m = n.bkt
		}
		if kv.Del {
			delete(m, kv.Key)
		} else {
			m[kv.Key] = kv.Val
		}
	}
	for _, b := range st.Blocks {
		n.blocks[b.ID] = b.Size
	}
	return n
}

// modelStates returns S_0..S_n (one per committing step) and, per step index,
// the number of commits completed after that step.
func modelStates(h *History) (states []state, commitsAfter []int) {
	cur := state{root: map[string]string{}, blocks: map[int]int{}}
	states = append(states, cur)
	for _, st := range h.Steps {
		if st.Kind == "commit" || st.Kind == "update" {
			cur = applyStep(cur, st, len(states))
			states = append(states, cur)
		}
		commitsAfter = append(commitsAfter, len(states)-1)
	}
	return
}

// execTx performs the writes of one step inside tx.
func execTx(tx database.Tx, st Step, seq int) error {
	root := tx.Metadata()
	if err := root.Put([]byte("seq"), []byte(strconv.Itoa(seq))); err != nil {
		return err
	}
	if st.DropBkt {
		if root.Bucket([]byte("b")) != nil {
			if err := root.DeleteBucket([]byte("b")); err != nil {
				return err
			}
		}
		if _, err := root.CreateBucket([]byte("b")); err != nil {
			return err
		}
	}
	for _, kv := range st.KVs {
		b := root
		if kv.Bucket {
			nb, err := root.CreateBucketIfNotExists([]byte("b"))
			if err != nil {
				return err
			}
			b = nb
		}
		v, _ := hex.DecodeString(kv.Val)
		var err error
		if kv.Del {
			err = b.Delete([]byte(kv.Key))
		} else {
			err = b.Put([]byte(kv.Key), v)
		}
		if err != nil {
			return err
		}
	}
	for _, blk := range st.Blocks {
		if err := tx.StoreBlock(blockHash(blk.ID), blockData(blk.ID, blk.Size)); err != nil {
			return err
		}
	}
	return nil
}

var errRollback = errors.New("c17: roll back")

// ---------------------------------------------------------------- child process

type crashInfo struct {
	Hit       int    `json:"hit"`
	Name      string `json:"name"`
	Step      int    `json:"step"`      // step being executed (-1: initial open, len(steps): final close)
	Completed int    `json:"completed"` // commits completed before the stop
	InCommit  bool   `json:"in_commit"` // the stop happened between Commit/Update call and its return
}

type hitRec struct {
	Name string `json:"name"`
	Step int    `json:"step"`
}

func childFail(f string, a ...any) {
	fmt.Fprintf(os.Stderr, "c17-child: "+f+"\n", a...)
	os.Exit(3)
}

// childMain: VERIF_C17_CHILD = "history" (replay the whole history) or "open"
// (only open the database, i.e. run recovery).  VERIF_C17_CRASH = hit index to
// stop at (-1: count only).  Exit code 77 = stopped at the requested hit,
// 0 = ran to the end, 3 = error.
func childMain() {
	mode := os.Getenv("VERIF_C17_CHILD")
	dir := os.Getenv("VERIF_C17_DIR")
	out := os.Getenv("VERIF_C17_OUT")
	target, _ := strconv.Atoi(os.Getenv("VERIF_C17_CRASH"))
	raw, err := os.ReadFile(os.Getenv("VERIF_C17_HISTORY"))
	if err != nil {
		childFail("history: %v", err)
	}
	var h History
	if err := json.Unmarshal(raw, &h); err != nil {
		childFail("history: %v", err)
	}

	var hits []hitRec
	curStep, completed, inCommit := -1, 0, false
	ffldb.VerifCrashHook = func(name string) {
		idx := len(hits)
		hits = append(hits, hitRec{name, curStep})
		if idx != target {
			return
		}
		if h.Torn > 0 && strings.HasPrefix(name, "writeBlock:") && name != "writeBlock:rollover-closed" {
			tearNewestBlockFile(dir, h.Torn)
		}
		b, _ := json.Marshal(crashInfo{idx, name, curStep, completed, inCommit})
		_ = os.WriteFile(out, b, 0o644)
		os.Exit(77) // no deferred function, no Close, no unlock runs
	}
	finish := func() {
		if target < 0 {
			b, _ := json.Marshal(hits)
			_ = os.WriteFile(out, b, 0o644)
		}
		os.Exit(0)
	}

	if mode == "open" {
		db, err := database.Open("ffldb", dir, wire.MainNet)
		if err != nil {
			childFail("open: %v", err)
		}
		_ = db
		finish() // leaving without Close is itself a stop right after recovery
	}

	db, err := database.Create("ffldb", dir, wire.MainNet)
	if err != nil {
		childFail("create: %v", err)
	}
	ffldb.VerifTune(db, h.MaxFile, h.CacheSize, h.FlushSecs)
	for i, st := range h.Steps {
		curStep = i
		switch st.Kind {
		case "commit":
			tx, err := db.Begin(true)
			if err != nil {
				childFail("begin: %v", err)
			}
			if err := execTx(tx, st, completed+1); err != nil {
				childFail("step %d: %v", i, err)
			}
			inCommit = true
			if err := tx.Commit(); err != nil {
				childFail("step %d commit: %v", i, err)
			}
			inCommit = false
			completed++
		case "update":
			inCommit = true
			err := db.Update(func(tx database.Tx) error { return execTx(tx, st, completed+1) })
			if err != nil {
				childFail("step %d update: %v", i, err)
			}
			inCommit = false
			completed++
		case "rollback":
			err := db.Update(func(tx database.Tx) error {
				if err := execTx(tx, st, completed+1); err != nil {
					return err
				}
				return errRollback
			})
			if err != errRollback {
				childFail("step %d rollback: %v", i, err)
			}
		case "reopen":
			if err := db.Close(); err != nil {
				childFail("step %d close: %v", i, err)
			}
			db, err = database.Open("ffldb", dir, wire.MainNet)
			if err != nil {
				childFail("step %d open: %v", i, err)
			}
			ffldb.VerifTune(db, h.MaxFile, h.CacheSize, h.FlushSecs)
		}
	}
	curStep = len(h.Steps)
	if err := db.Close(); err != nil {
		childFail("final close: %v", err)
	}
	finish()
}

func tearNewestBlockFile(dir string, n int) {
	names, _ := filepath.Glob(filepath.Join(dir, "*.fdb"))
	if len(names) == 0 {
		return
	}
	sort.Strings(names)
	f, err := os.OpenFile(names[len(names)-1], os.O_WRONLY|os.O_APPEND, 0o644)
	if err != nil {
		return
	}
	junk := bytes.Repeat([]byte{0xEE}, n)
	_, _ = f.Write(junk)
	_ = f.Close()
}

// childTimeout only catches hangs; a child normally runs well under a second.
const childTimeout = 10 * time.Minute

func runChild(mode, dir, histPath, out string, target int) (int, string) {
	bin := os.Getenv("VERIF_BIN")
	if bin == "" {
		bin = os.Args[0]
	}
	ctx, cancel := context.WithTimeout(context.Background(), childTimeout)
	defer cancel()
	cmd := exec.CommandContext(ctx, bin, "-test.run=^$")
	cmd.Env = append(os.Environ(), "VERIF_C17_CHILD="+mode, "VERIF_C17_DIR="+dir, "VERIF_C17_HISTORY="+histPath,
		"VERIF_C17_OUT="+out, "VERIF_C17_CRASH="+strconv.Itoa(target), "VERIF_FRAG=", "VERIF_JOURNAL=")
	var stderr bytes.Buffer
	cmd.Stderr = &stderr
	err := cmd.Run()
	if err == nil {
		return 0, ""
	}
	if ctx.Err() != nil {
		return -2, "child did not finish within " + childTimeout.String() + " (hang, or the machine is overloaded)"
	}
	var ee *exec.ExitError
	if errors.As(err, &ee) {
		return ee.ExitCode(), stderr.String()
	}
	return -1, err.Error()
}

// ---------------------------------------------------------------- generator

func genHistory(t *rapid.T) *History {
	_, dCache, dFlush := ffldb.VerifDefaults()
	h := &History{
		MaxFile:   uint32(rapid.SampledFrom([]int{256, 300, 512, 777, 1024, 2048}).Draw(t, "maxFile")),
		CacheSize: rapid.SampledFrom([]uint64{0, 64, 1024, dCache}).Draw(t, "cacheSize"),
		FlushSecs: rapid.SampledFrom([]uint32{0, 0, 0, dFlush, dFlush}).Draw(t, "flushSecs"),
		Torn:      rapid.SampledFrom([]int{0, 0, 1, 7, 300}).Draw(t, "torn"),
	}
	maxSteps := 5
	if vk.Thorough() {
		maxSteps = 8
	}
	n := rapid.IntRange(4, maxSteps).Draw(t, "nsteps")
	nextBlock := 0
	keys := []string{"k0", "k1", "k2", "k3"}
	// keys present after the steps generated so far (root / bucket), so that deletes
	// and overwrites mostly hit something that is on disk already
	present := [2]map[string]bool{{}, {}}
	for i := 0; i < n; i++ {
		kind := rapid.SampledFrom([]string{"commit", "commit", "commit", "commit", "update", "update", "rollback", "reopen"}).Draw(t, "kind")
		st := Step{Kind: kind}
		if kind != "reopen" {
			nb := rapid.SampledFrom([]int{0, 1, 1, 1, 2, 2, 3}).Draw(t, "nblocks")
			for j := 0; j < nb; j++ {
				size := rapid.SampledFrom([]int{50, 90, 200, 230, 244, 245, 500, 1000, 3000}).Draw(t, "blockSize")
				if rapid.Bool().Draw(t, "oddSize") {
					size = rapid.IntRange(50, 3000).Draw(t, "size")
				}
				// a block record (payload + 12) never exceeds the file size limit in the
				// node (64 MiB files, blocks of a few MiB); a larger record would skip file 0
				if size+12 > int(h.MaxFile) {
					size = int(h.MaxFile) - 12 - rapid.IntRange(0, 20).Draw(t, "below")
				}
				st.Blocks = append(st.Blocks, Block{nextBlock, size})
				nextBlock++
			}
			st.DropBkt = rapid.IntRange(0, 5).Draw(t, "dropBucket") == 0
			now := [2]map[string]bool{{}, {}}
			for w := 0; w < 2; w++ {
				for k := range present[w] {
					now[w][k] = true
				}
			}
			if st.DropBkt {
				now[1] = map[string]bool{}
			}
			nk := rapid.IntRange(0, 4).Draw(t, "nkv")
			for j := 0; j < nk; j++ {
				kv := KV{Bucket: rapid.Bool().Draw(t, "inBucket"), Key: rapid.SampledFrom(keys).Draw(t, "key")}
				w := 0
				if kv.Bucket {
					w = 1
				}
				var have []string
				for _, k := range keys {
					if now[w][k] {
						have = append(have, k)
					}
				}
				// deleting is only interesting when something is there: 40% then, 5% otherwise
				del := false
				if len(have) > 0 {
					if del = rapid.IntRange(0, 9).Draw(t, "del") < 4; del {
						kv.Key = rapid.SampledFrom(have).Draw(t, "haveKey")
					}
				} else {
					del = rapid.IntRange(0, 19).Draw(t, "delAbsent") == 0
				}
				if del {
					kv.Del = true
					delete(now[w], kv.Key)
				} else {
					now[w][kv.Key] = true
					kv.Val = hex.EncodeToString(rapid.SliceOfN(rapid.Byte(), 0, 40).Draw(t, "val"))
				}
				st.KVs = append(st.KVs, kv)
			}
			if kind != "rollback" {
				present = now
			}
		}
		h.Steps = append(h.Steps, st)
	}
	return h
}

// ---------------------------------------------------------------- parent-side verification

type verdictCtx struct {
	t      *rapid.T
	h      *History
	states []state
	render func(extra map[string]any) any
}

// readState dumps the observable state of an opened database.  A non-empty
// problem string is a violation by itself (unreadable / corrupt block).
func readState(db database.DB, h *History, nblocks int) (state, string) {
	s := state{root: map[string]string{}, blocks: map[int]int{}}
	problem := ""
	err := db.View(func(tx database.Tx) error {
		root := tx.Metadata()
		_ = root.ForEach(func(k, v []byte) error {
			if !strings.HasPrefix(string(k), "ffldb-") {
				s.root[string(k)] = hex.EncodeToString(v)
			}
			return nil
		})
		if b := root.Bucket([]byte("b")); b != nil {
			s.bkt = map[string]string{}
			_ = b.ForEach(func(k, v []byte) error {
				s.bkt[string(k)] = hex.EncodeToString(v)
				return nil
			})
		}
		sizes := map[int]int{}
		for _, st := range h.Steps {
			for _, b := range st.Blocks {
				sizes[b.ID] = b.Size
			}
		}
		for id := 0; id < nblocks; id++ {
			hash := blockHash(id)
			has, err := tx.HasBlock(hash)
			if err != nil {
				problem = fmt.Sprintf("HasBlock(%d): %v", id, err)
				return nil
			}
			data, ferr := tx.FetchBlock(&hash)
			if !has {
				var de database.Error
				if ferr == nil || !errors.As(ferr, &de) || de.ErrorCode != database.ErrBlockNotFound {
					problem = fmt.Sprintf("block %d: HasBlock=false but FetchBlock -> %d bytes, %v", id, len(data), ferr)
				}
				continue
			}
			if ferr != nil {
				problem = fmt.Sprintf("block %d is listed but unreadable: %v", id, ferr)
				continue
			}
			if !bytes.Equal(data, blockData(id, sizes[id])) {
				problem = fmt.Sprintf("block %d is readable but its bytes differ from what was stored (%d bytes, want %d)", id, len(data), sizes[id])
				continue
			}
			s.blocks[id] = sizes[id]
		}
		return nil
	})
	if err != nil {
		problem = "View: " + err.Error()
	}
	if v, ok := s.root["seq"]; ok {
		b, _ := hex.DecodeString(v)
		s.seq, _ = strconv.Atoi(string(b))
	}
	return s, problem
}

func countBlocks(h *History) int {
	n := 0
	for _, st := range h.Steps {
		n += len(st.Blocks)
	}
	return n
}

// verifyDir reopens dir after a stop and checks the property.  lo..hi is the
// range of admissible model states.  Returns false after a (known) finding.
func (c *verdictCtx) verifyDir(dir, where string, lo, hi int, info any) bool {
	t := c.t
	nb := countBlocks(c.h)
	var db database.DB
	var err error
	p, val, frame := vk.Catch(func() { db, err = database.Open("ffldb", dir, wire.MainNet) })
	if p {
		vk.Report(t, "C17:reopen:panic:"+frame, fmt.Sprint(val), c.render(map[string]any{"stop": info, "where": where}))
		return false
	}
	if err != nil {
		code := "other"
		var de database.Error
		if errors.As(err, &de) {
			code = de.ErrorCode.String()
		}
		vk.Report(t, "C17:reopen:open-failed:"+code, err.Error(), c.render(map[string]any{"stop": info, "where": where}))
		return false
	}
	closed := false
	defer func() {
		if !closed {
			_ = db.Close()
		}
	}()
	ffldb.VerifTune(db, c.h.MaxFile, c.h.CacheSize, c.h.FlushSecs)

	got, problem := readState(db, c.h, nb)
	if problem != "" {
		vk.Report(t, "C17:reopen:block-unreadable-or-corrupt", problem, c.render(map[string]any{"stop": info, "where": where}))
		return false
	}
	match := -1
	for j := range c.states {
		if c.states[j].canon() == got.canon() {
			match = j
		}
	}
	if match < 0 {
		detail := fmt.Sprintf("state after reopen equals no committed state (mixture): got {%s}; S_%d={%s}; S_%d={%s}", got.canon(), lo, c.states[lo].canon(), hi, c.states[hi].canon())
		vk.Report(t, "C17:reopen:mixture", detail, c.render(map[string]any{"stop": info, "where": where}))
		return false
	}
	if match < lo || match > hi {
		sig := "C17:reopen:completed-commit-lost"
		if match > hi {
			sig = "C17:reopen:state-from-the-future"
		}
		vk.Report(t, sig, fmt.Sprintf("state after reopen is S_%d, admissible S_%d..S_%d", match, lo, hi), c.render(map[string]any{"stop": info, "where": where}))
		return false
	}

	// later commits continue to work: three more commits, each with a block and a put
	cur := got.clone()
	for i := 0; i < 3; i++ {
		id := nb + i
		size := []int{60, int(c.h.MaxFile), 333}[i]
		err := db.Update(func(tx database.Tx) error {
			if err := tx.Metadata().Put([]byte("after"), []byte{byte(i)}); err != nil {
				return err
			}
			return tx.StoreBlock(blockHash(id), blockData(id, size))
		})
		if err != nil {
			vk.Report(t, "C17:after-recovery:commit-failed", fmt.Sprintf("commit %d after recovery: %v", i, err), c.render(map[string]any{"stop": info, "where": where}))
			return false
		}
		cur.root["after"] = hex.EncodeToString([]byte{byte(i)})
	}
	check := func(stage string) bool {
		var bad string
		_ = db.View(func(tx database.Tx) error {
			for i := 0; i < 3; i++ {
				hash := blockHash(nb + i)
				size := []int{60, int(c.h.MaxFile), 333}[i]
				data, err := tx.FetchBlock(&hash)
				if err != nil || !bytes.Equal(data, blockData(nb+i, size)) {
					bad = fmt.Sprintf("block stored after recovery unreadable/different (%s): %v", stage, err)
				}
			}
			return nil
		})
		if bad == "" {
			st, problem := readState(db, c.h, nb)
			if problem != "" {
				bad = stage + ": " + problem
			} else if st.canon() != cur.canon() {
				bad = fmt.Sprintf("%s: state {%s}, want {%s}", stage, st.canon(), cur.canon())
			}
		}
		if bad != "" {
			vk.Report(t, "C17:after-recovery:read-back", bad, c.render(map[string]any{"stop": info, "where": where}))
			return false
		}
		return true
	}
	if !check("before close") {
		return false
	}
	closed = true
	if err := db.Close(); err != nil {
		vk.Report(t, "C17:after-recovery:close-failed", err.Error(), c.render(map[string]any{"stop": info, "where": where}))
		return false
	}
	db, err = database.Open("ffldb", dir, wire.MainNet)
	if err != nil {
		vk.Report(t, "C17:after-recovery:reopen-failed", err.Error(), c.render(map[string]any{"stop": info, "where": where}))
		return false
	}
	closed = false
	return check("after clean close and reopen")
}

func copyDir(src, dst string) error {
	return filepath.Walk(src, func(p string, fi os.FileInfo, err error) error {
		if err != nil {
			return err
		}
		rel, _ := filepath.Rel(src, p)
		target := filepath.Join(dst, rel)
		if fi.IsDir() {
			return os.MkdirAll(target, 0o755)
		}
		b, err := os.ReadFile(p)
		if err != nil {
			return err
		}
		return os.WriteFile(target, b, 0o644)
	})
}

// ---------------------------------------------------------------- the property

func TestCrashEnumeration(t *testing.T) {
	rapid.Check(t, func(t *rapid.T) {
		h := genHistory(t)
		base, err := os.MkdirTemp("", "c17-")
		if err != nil {
			t.Fatalf("harness: %v", err)
		}
		defer os.RemoveAll(base)
		histPath := filepath.Join(base, "history.json")
		raw, _ := json.Marshal(h)
		if err := os.WriteFile(histPath, raw, 0o644); err != nil {
			t.Fatalf("harness: %v", err)
		}
		states, commitsAfter := modelStates(h)
		ctx := &verdictCtx{t: t, h: h, states: states}
		ctx.render = func(extra map[string]any) any {
			m := map[string]any{"history": h}
			for k, v := range extra {
				m[k] = v
			}
			return m
		}

		// 1. counting run: no stop; the final state must be S_n
		cdir := filepath.Join(base, "count")
		cout := filepath.Join(base, "count.json")
		if rc, msg := runChild("history", cdir, histPath, cout, -1); rc != 0 {
			if rc != 3 {
				t.Fatalf("harness: counting child rc=%d: %s", rc, msg)
			}
			// the history itself failed without any stop: a plain defect of the store
			vk.Report(t, "C17:no-stop:history-failed", fmt.Sprintf("rc=%d %s", rc, msg), ctx.render(nil))
			return
		}
		var hits []hitRec
		b, err := os.ReadFile(cout)
		if err != nil || json.Unmarshal(b, &hits) != nil {
			t.Fatalf("harness: counting run left no hit list: %v", err)
		}
		n := len(states) - 1
		if !ctx.verifyDir(cdir, "no stop", n, n, nil) {
			return
		}
		_ = os.RemoveAll(cdir)

		// which steps roll a block file over (non-triviality rule)
		rollover := map[int]bool{}
		for _, hr := range hits {
			if hr.Name == "writeBlock:rollover-closed" {
				rollover[hr.Step] = true
			}
		}
		strong := h.FlushSecs == 0

		// 2. every hit index, a few children at a time
		type result struct {
			k    int
			rc   int
			msg  string
			dir  string
			info crashInfo
		}
		results := make([]result, len(hits))
		seenRecovery := map[string]int{}
		var wg sync.WaitGroup
		sem := make(chan struct{}, 6)
		for k := range hits {
			wg.Add(1)
			sem <- struct{}{}
			go func(k int) {
				defer wg.Done()
				defer func() { <-sem }()
				dir := filepath.Join(base, fmt.Sprintf("k%d", k))
				out := filepath.Join(base, fmt.Sprintf("k%d.json", k))
				rc, msg := runChild("history", dir, histPath, out, k)
				r := result{k: k, rc: rc, msg: msg, dir: dir}
				if rc == 77 {
					if b, err := os.ReadFile(out); err == nil {
						_ = json.Unmarshal(b, &r.info)
					}
				}
				results[k] = r
			}(k)
		}
		wg.Wait()

		for _, r := range results {
			switch r.rc {
			case 77:
			case 0:
				// the hit sequence was shorter this time: nothing stopped, so S_n
				vk.Count("stop-not-reached", 1)
				if !ctx.verifyDir(r.dir, "no stop (hit not reached)", n, n, nil) {
					return
				}
				continue
			default:
				t.Fatalf("harness: child for hit %d failed rc=%d: %s", r.k, r.rc, r.msg)
			}
			info := r.info
			if info.Name != hits[r.k].Name {
				vk.Count("hit-sequence-differs", 1)
			}
			// admissible states
			hi := info.Completed
			if info.InCommit {
				hi = info.Completed + 1
			}
			lo := info.Completed
			if !strong {
				// lazily flushed configuration: everything since the last clean close may be lost
				lo = 0
				for i := 0; i < info.Step && i < len(h.Steps); i++ {
					if h.Steps[i].Kind == "reopen" {
						lo = commitsAfter[i]
					}
				}
			}
			if hi > n {
				t.Fatalf("harness: child reports %d completed commits, history has %d", info.Completed, n)
			}
			stepHasBlocks := info.Step >= 0 && info.Step < len(h.Steps) && len(h.Steps[info.Step].Blocks) > 0
			nt := info.InCommit && (stepHasBlocks || rollover[info.Step])
			class := "stop@" + info.Name
			key := append(append([]byte{}, raw...), []byte(fmt.Sprintf("|%d", r.k))...)
			vk.Case(class, nt, key, func() any {
				return map[string]any{"history": h, "stop": info, "admissible": []int{lo, hi}}
			})
			if strong {
				vk.Class("config/flush-every-commit")
			} else {
				vk.Class("config/lazy-flush")
			}
			if rollover[info.Step] && info.InCommit {
				vk.Class("feature/stop-in-commit-with-rollover")
			}

			// 2b. stops during recovery: enumerate the crash points the reopen passes
			odir := filepath.Join(base, fmt.Sprintf("k%d-o", r.k))
			oout := filepath.Join(base, fmt.Sprintf("k%d-o.json", r.k))
			if err := copyDir(r.dir, odir); err != nil {
				t.Fatalf("harness: copy: %v", err)
			}
			var ohits []hitRec
			if rc, msg := runChild("open", odir, histPath, oout, -1); rc != 0 {
				// recovery failed in the child: the in-process reopen below reports it properly
				_ = msg
			} else if b, err := os.ReadFile(oout); err == nil {
				_ = json.Unmarshal(b, &ohits)
			}
			_ = os.RemoveAll(odir)
			// the recovery work only depends on what the first stop left on disk; one
			// (thorough: three) representative per (first stop point, recovery trace) is enumerated
			var sigb strings.Builder
			if vk.Thorough() {
				sigb.WriteString(info.Name)
			} else {
				sigb.WriteString(strings.SplitN(info.Name, ":", 2)[0])
			}
			nOh := len(ohits)
			if nOh > 6 {
				nOh = 6 // many files to delete: same loop
			}
			fmt.Fprintf(&sigb, "/%d", nOh)
			seenRecovery[sigb.String()]++
			if lim := map[bool]int{false: 1, true: 2}[vk.Thorough()]; seenRecovery[sigb.String()] > lim {
				ohits = nil
			}
			for m := range ohits {
				d2 := filepath.Join(base, fmt.Sprintf("k%d-r%d", r.k, m))
				o2 := filepath.Join(base, fmt.Sprintf("k%d-r%d.json", r.k, m))
				if err := copyDir(r.dir, d2); err != nil {
					t.Fatalf("harness: copy: %v", err)
				}
				rc, msg := runChild("open", d2, histPath, o2, m)
				if rc != 77 && rc != 0 {
					t.Fatalf("harness: recovery child failed rc=%d: %s", rc, msg)
				}
				vk.Case("second-stop@"+ohits[m].Name, nt, append(key, []byte(fmt.Sprintf("|r%d", m))...), nil)
				ok := ctx.verifyDir(d2, "stop during recovery", lo, hi, map[string]any{"first": info, "second": ohits[m].Name, "second_hit": m})
				_ = os.RemoveAll(d2)
				if !ok {
					return
				}
			}

			if !ctx.verifyDir(r.dir, "single stop", lo, hi, info) {
				return
			}
			_ = os.RemoveAll(r.dir)
		}
		vk.Count("histories", 1)
		vk.Count("crash-points", int64(len(hits)))
	})
}
