package c35

import (
	"bytes"
	"encoding/binary"
	"errors"
	"flag"
	"fmt"
	"os"
	"strings"
	"testing"

	dmsg "github.com/elastos/Elastos.ELA/dpos/p2p/msg"
	"github.com/elastos/Elastos.ELA/p2p"
	"pgregory.net/rapid"
	"verifharness/lib/vk"
)

const fuzzMagic = 2017001

// framingFrame tells whether a panic's innermost repo frame belongs to the
// framing code (this property) rather than to a payload decoder (C02).
func framingFrame(fr string) bool {
	for _, p := range []string{"p2p.ReadMessage", "p2p.(*Header)", "p2p/peer.CheckAndCreate", "p2p/peer.(*Peer).createMessage",
		"p2p/peer.(*Peer).readMessage", "dpos/p2p/peer.(*Peer).createMessage", "dpos/p2p/peer.(*Peer).readMessage",
		"elanet.createMessage", "dpos.createMessage"} {
		if strings.HasPrefix(fr, p) {
			return true
		}
	}
	return false
}

// fuzzOne: hdr is 24 raw header bytes, fix repairs selected fields so that the
// fuzzer can get past the checksum: bit0 length, bit1 checksum, bit2 magic,
// bit3 command taken from the table (cmdSel).
func fuzzOne(t vk.TB, family uint8, hdr []byte, payload []byte, fix uint8, cmdSel uint8) {
	fam := "main"
	if family&1 == 1 {
		fam = "dpos"
	}
	dmsg.SetPayloadVersion(uint32(family >> 1 & 1))
	h := make([]byte, headerSize)
	copy(h, hdr)
	if len(payload) > 1<<20 {
		payload = payload[:1<<20]
	}
	if fix&8 != 0 {
		var cmds []string
		for i := range allSpecs {
			if allSpecs[i].family == fam {
				cmds = append(cmds, allSpecs[i].cmd)
			}
		}
		for i := 4; i < 16; i++ {
			h[i] = 0
		}
		copy(h[4:16], cmds[int(cmdSel)%len(cmds)])
	}
	if fix&4 != 0 {
		binary.LittleEndian.PutUint32(h[0:4], fuzzMagic)
	}
	if fix&1 != 0 {
		binary.LittleEndian.PutUint32(h[16:20], uint32(len(payload)))
	}
	if fix&2 != 0 {
		n := binary.LittleEndian.Uint32(h[16:20])
		if int64(n) <= int64(len(payload)) {
			s := sha256d(payload[:n])
			copy(h[20:24], s[:4])
		}
	}
	stream := append(h, payload...)
	c := &frameCase{Family: fam, Magic: fuzzMagic, Mutation: "fuzz", Stream: vk.Hex(stream), DposPV: dmsg.GetPayloadVersion()}

	rh := refParseHeader(stream)
	c.Cmd = rh.cmd
	sp := knownCmd(fam, rh.cmd)
	var max uint32
	if sp != nil {
		max = sp.empty().MaxLength()
	}
	// reference verdict on the frame (not on the payload's meaning)
	reason := ""
	switch {
	case rh.magic != fuzzMagic:
		reason = "magic"
	case !rh.cmdOK || sp == nil:
		reason = "command"
	case rh.length > max:
		reason = "oversize"
	case int64(rh.length) > int64(len(payload)):
		reason = "short-body"
	default:
		s := sha256d(payload[:rh.length])
		if !bytes.Equal(s[:4], rh.checksum[:]) {
			reason = "checksum"
		}
	}
	if reason == "" {
		vk.Case("fuzz/"+fam+"/authentic-frame", true, stream, func() any { return c })
	} else {
		vk.Case("fuzz/"+fam+"/invalid:"+reason, true, stream, func() any { return c })
	}
	if reason == "short-body" && rh.length > 8<<20 {
		// a legitimate 8..80 MB buffer per execution in 16 parallel workers only
		// risks the OOM killer; TestOversize covers length == MaxLength deterministically
		return
	}
	r := readOne(fam, fuzzMagic, stream)
	if r.panicked {
		if reason != "" || framingFrame(r.frame) {
			vk.Report(t, "C35:read:panic:"+r.frame, fmt.Sprint(r.pval), c)
		}
		return // a decoder panic on an authentic frame is C02's subject
	}
	if reason != "" {
		if r.err == nil {
			vk.Report(t, "C35:read:"+fam+":"+reason+":accepted", "frame invalid by the reference parser", c)
			return
		}
		allowed := uint64(slack)
		switch reason {
		case "magic", "command", "oversize":
			if r.requested > headerSize {
				vk.Report(t, "C35:read:"+fam+":"+reason+":payload-read-before-rejecting", fmt.Sprintf("requested %d", r.requested), c)
				return
			}
		default:
			allowed += uint64(max)
		}
		if reason == "oversize" && !errors.Is(r.err, p2p.ErrMsgSizeExceeded) {
			vk.Report(t, "C35:read:"+fam+":oversize:wrong-error", r.err.Error(), c)
			return
		}
		if reason == "magic" && !errors.Is(r.err, p2p.ErrUnmatchedMagic) && rh.cmdOK {
			vk.Report(t, "C35:read:"+fam+":magic:wrong-error", r.err.Error(), c)
			return
		}
		// the allocation meter is process wide; inside a fuzz worker the engine's own
		// goroutines allocate concurrently, so it is only consulted in plain test mode
		if r.alloc > allowed && !inFuzzWorker() {
			if a := minAlloc(fam, fuzzMagic, stream, r.alloc); a > allowed {
				cause := reason
				if reason == "checksum" {
					cause = "checksum-mismatch"
				}
				vk.Report(t, "C35:read:"+cause+":allocates-more-than-limit", fmt.Sprintf("%s/%s allocated %d limit %d", fam, rh.cmd, a, allowed), c)
			}
		}
		return
	}
	// authentic frame: the payload decoder decides; on success the reader consumed exactly the frame
	if r.err == nil {
		if r.msg.CMD() != rh.cmd {
			vk.Report(t, "C35:read:"+fam+":wrong-message-for-command", fmt.Sprintf("%q vs %q", r.msg.CMD(), rh.cmd), c)
			return
		}
		if r.requested != int64(headerSize)+int64(rh.length) {
			vk.Report(t, "C35:read:"+fam+":bytes-consumed", fmt.Sprintf("requested %d frame %d", r.requested, headerSize+int(rh.length)), c)
		}
	}
}

func inFuzzWorker() bool {
	fl := flag.Lookup("test.fuzzworker")
	return fl != nil && fl.Value.String() == "true"
}

func FuzzReadMessage(f *testing.F) {
	// seeds: one honest frame per command (generated with a fixed rapid seed), plus hostile headers
	for i := range allSpecs {
		sp := &allSpecs[i]
		dmsg.SetPayloadVersion(1)
		var payload []byte
		func() {
			defer func() { recover() }()
			m := rapid.Custom(func(t *rapid.T) p2p.Message { return sp.gen(t) }).Example(i + 1)
			buf := new(bytes.Buffer)
			if m.Serialize(buf) == nil {
				payload = buf.Bytes()
			}
		}()
		fam := uint8(2)
		if sp.family == "dpos" {
			fam = 3
		}
		fr := refFrame(fuzzMagic, sp.cmd, payload)
		f.Add(fam, fr[:headerSize], payload, uint8(0), uint8(0))
		f.Add(fam, fr[:headerSize], payload, uint8(3), uint8(0))
		f.Add(fam, fr[:headerSize], append(payload, 0xff), uint8(15), uint8(i))
	}
	hostile := make([]byte, headerSize)
	for _, L := range []uint32{0, 1, 8, 9, 0xfc, 0xfd, 0xffff, 1 << 20, 32 << 20, 1 << 31, 1<<32 - 1} {
		binary.LittleEndian.PutUint32(hostile[16:20], L)
		for sel := uint8(0); sel < 26; sel += 5 {
			f.Add(uint8(0), hostile, []byte{1, 2, 3}, uint8(12), sel)
			f.Add(uint8(1), hostile, []byte{}, uint8(14), sel)
		}
	}
	f.Fuzz(func(t *testing.T, family uint8, hdr []byte, payload []byte, fix uint8, cmdSel uint8) {
		fuzzOne(t, family, hdr, payload, fix, cmdSel)
	})
}

// TestReplayInput re-runs a native-fuzz crasher file given in VERIF_REPLAY_INPUT.
func TestReplayInput(t *testing.T) {
	p := os.Getenv("VERIF_REPLAY_INPUT")
	if p == "" {
		t.Skip("no VERIF_REPLAY_INPUT")
	}
	vals, err := parseCorpusFile(p)
	if err != nil || len(vals) != 5 {
		t.Fatalf("harness: cannot parse %s: %v", p, err)
	}
	fuzzOne(t, vals[0].(uint8), vals[1].([]byte), vals[2].([]byte), vals[3].(uint8), vals[4].(uint8))
}
