package c35

import (
	"fmt"
	"go/ast"
	"go/parser"
	"go/token"
	"os"
	"strconv"
	"strings"
)

// parseCorpusFile reads a "go test fuzz v1" corpus entry with values of the
// types uint32, []byte, uint8/byte.
func parseCorpusFile(path string) ([]any, error) {
	b, err := os.ReadFile(path)
	if err != nil {
		return nil, err
	}
	lines := strings.Split(strings.TrimSpace(string(b)), "\n")
	if len(lines) == 0 || !strings.HasPrefix(lines[0], "go test fuzz v1") {
		return nil, fmt.Errorf("not a fuzz corpus file")
	}
	var out []any
	for _, l := range lines[1:] {
		l = strings.TrimSpace(l)
		if l == "" {
			continue
		}
		e, err := parser.ParseExprFrom(token.NewFileSet(), "", l, 0)
		if err != nil {
			return nil, err
		}
		call, ok := e.(*ast.CallExpr)
		if !ok || len(call.Args) != 1 {
			return nil, fmt.Errorf("unexpected line %q", l)
		}
		var typ string
		switch f := call.Fun.(type) {
		case *ast.Ident:
			typ = f.Name
		case *ast.ArrayType:
			typ = "[]byte"
		}
		lit, ok := call.Args[0].(*ast.BasicLit)
		if !ok {
			return nil, fmt.Errorf("unexpected arg in %q", l)
		}
		switch typ {
		case "[]byte":
			s, err := strconv.Unquote(lit.Value)
			if err != nil {
				return nil, err
			}
			out = append(out, []byte(s))
		case "uint32":
			v, err := strconv.ParseUint(lit.Value, 0, 32)
			if err != nil {
				return nil, err
			}
			out = append(out, uint32(v))
		case "uint8", "byte":
			var v uint64
			if lit.Kind == token.CHAR {
				r, _, _, err := strconv.UnquoteChar(lit.Value[1:len(lit.Value)-1], '\'')
				if err != nil {
					return nil, err
				}
				v = uint64(r)
			} else if v, err = strconv.ParseUint(lit.Value, 0, 8); err != nil {
				return nil, err
			}
			out = append(out, uint8(v))
		default:
			return nil, fmt.Errorf("unsupported type in %q", l)
		}
	}
	return out, nil
}
