package c35

import (
	"net"
	"time"

	"github.com/elastos/Elastos.ELA/common"
	pg "github.com/elastos/Elastos.ELA/core/contract/program"
	"github.com/elastos/Elastos.ELA/core/types"
	common2 "github.com/elastos/Elastos.ELA/core/types/common"
	"github.com/elastos/Elastos.ELA/core/types/functions"
	"github.com/elastos/Elastos.ELA/core/types/interfaces"
	"github.com/elastos/Elastos.ELA/core/types/outputpayload"
	"github.com/elastos/Elastos.ELA/core/types/payload"
	"github.com/elastos/Elastos.ELA/dpos"
	dmsg "github.com/elastos/Elastos.ELA/dpos/p2p/msg"
	dpeer "github.com/elastos/Elastos.ELA/dpos/p2p/peer"
	"github.com/elastos/Elastos.ELA/elanet"
	"github.com/elastos/Elastos.ELA/p2p"
	"github.com/elastos/Elastos.ELA/p2p/msg"
	mpeer "github.com/elastos/Elastos.ELA/p2p/peer"
	"pgregory.net/rapid"
)

// ---- the two reader stacks of the node

// framed is what both peer kinds offer through the verif hooks.
type framed interface {
	VerifReadMessage() (p2p.Message, error)
	VerifWriteMessage(m p2p.Message) error
}

// mainCreate is Config.CreateMessage of a main-net peer: the node's own table
// (elanet/server.go createMessage).  merkleblock is only ever sent by the node,
// so that one command is mapped here, through the same CheckAndCreateMessage.
func mainCreate(hdr p2p.Header, r net.Conn) (p2p.Message, error) {
	if hdr.GetCMD() == p2p.CmdMerkleBlock {
		return mpeer.CheckAndCreateMessage(hdr, msg.NewMerkleBlock(&common2.Header{}), r)
	}
	return elanet.VerifCreateMessage(hdr, r)
}

// dposCreate is Config.CreateMessage of a DPoS peer (dpos/network.go
// createMessage).  reject and daddr of dpos/p2p/msg have no entry in any node
// table (reject is only sent, daddr is read by the hub pipe), so they are
// mapped here through CheckAndCreateMessage.
func dposCreate(hdr p2p.Header, r net.Conn) (p2p.Message, error) {
	switch hdr.GetCMD() {
	case p2p.CmdReject:
		return mpeer.CheckAndCreateMessage(hdr, &dmsg.Reject{}, r)
	case p2p.CmdDAddr:
		return mpeer.CheckAndCreateMessage(hdr, &dmsg.Daddr{}, r)
	}
	return dpos.VerifCreateMessage(hdr, r)
}

func newPeer(family string, magic uint32, c net.Conn) framed {
	if family == "main" {
		return mpeer.VerifFramedPeer(&mpeer.Config{Magic: magic, CreateMessage: mainCreate}, c)
	}
	return dpeer.VerifFramedPeer(&dpeer.Config{Magic: magic, CreateMessage: dposCreate}, c)
}

// ---- message generators

type spec struct {
	family    string
	cmd       string
	empty     func() p2p.Message // what the reader table maps the command to
	gen       func(t *rapid.T) p2p.Message
	bytesOnly bool // compare by serialisation only (memoised fields inside)
}

func bytesN(t *rapid.T, l string, min, max int) []byte {
	return rapid.SliceOfN(rapid.Byte(), min, max).Draw(t, l)
}

func h256(t *rapid.T, l string) (h common.Uint256) {
	copy(h[:], bytesN(t, l, 32, 32))
	return
}

const charset = "abcdefghijklmnopqrstuvwxyz0123456789.-:_ "

// str draws a printable string of 0..max characters; lengths close to max are
// as likely as short ones (limits are where framing goes wrong).
func str(t *rapid.T, l string, max int) string {
	if max == 0 {
		return ""
	}
	lo := max - 12
	if lo < 0 {
		lo = 0
	}
	n := rapid.OneOf(rapid.IntRange(0, max), rapid.IntRange(0, max), rapid.IntRange(lo, max)).Draw(t, l+"Len")
	if n > 300 {
		// long strings: one drawn seed byte, deterministic fill
		b := make([]byte, n)
		seed := int(rapid.Byte().Draw(t, l+"Fill"))
		for i := range b {
			b[i] = charset[(i*7+seed)%len(charset)]
		}
		return string(b)
	}
	raw := bytesN(t, l, n, n)
	for i := range raw {
		raw[i] = charset[int(raw[i])%len(charset)]
	}
	return string(raw)
}

// count draws a list length: mostly small, sometimes the documented maximum
// (capped at 3000 entries in the quick tier to keep frames small).
func count(t *rapid.T, l string, max int) int {
	big := max
	if big > 3000 && !thoroughBig {
		big = 3000
	}
	return rapid.OneOf(rapid.IntRange(0, 3), rapid.IntRange(0, 3), rapid.IntRange(0, 40), rapid.IntRange(0, 40),
		rapid.IntRange(0, big), rapid.Just(big)).Draw(t, l)
}

var thoroughBig = false

func secs(t *rapid.T, l string) time.Time {
	return time.Unix(rapid.Int64Range(0, 1<<32-1).Draw(t, l), 0)
}

func genTx(t *rapid.T, l string) interfaces.Transaction {
	ver := common2.TxVersionDefault
	if rapid.Bool().Draw(t, l+"v9") {
		ver = common2.TxVersion09
	}
	var ins []*common2.Input
	var outs []*common2.Output
	var progs []*pg.Program
	for i, n := 0, rapid.IntRange(0, 3).Draw(t, l+"nin"); i < n; i++ {
		ins = append(ins, &common2.Input{Previous: common2.OutPoint{TxID: h256(t, l+"prev"), Index: uint16(rapid.IntRange(0, 65535).Draw(t, l+"idx"))},
			Sequence: rapid.Uint32().Draw(t, l+"seq")})
	}
	for i, n := 0, rapid.IntRange(0, 3).Draw(t, l+"nout"); i < n; i++ {
		var ph common.Uint168
		copy(ph[:], bytesN(t, l+"ph", 21, 21))
		outs = append(outs, &common2.Output{AssetID: h256(t, l+"asset"), Value: common.Fixed64(rapid.Int64().Draw(t, l+"val")),
			OutputLock: rapid.Uint32().Draw(t, l+"olock"), ProgramHash: ph, Payload: &outputpayload.DefaultOutput{}})
	}
	for i, n := 0, rapid.IntRange(0, 2).Draw(t, l+"nprog"); i < n; i++ {
		progs = append(progs, &pg.Program{Code: bytesN(t, l+"code", 0, 40), Parameter: bytesN(t, l+"param", 0, 70)})
	}
	var attrs []*common2.Attribute
	if rapid.Bool().Draw(t, l+"attr") {
		attrs = append(attrs, &common2.Attribute{Usage: common2.Nonce, Data: bytesN(t, l+"nonce", 0, 12)})
	}
	var pl interfaces.Payload = &payload.TransferAsset{}
	tt := common2.TransferAsset
	if rapid.IntRange(0, 3).Draw(t, l+"rec") == 0 {
		tt, pl = common2.Record, &payload.Record{Type: str(t, l+"rtype", 8), Content: bytesN(t, l+"rcontent", 0, 300)}
	}
	return functions.CreateTransaction(ver, tt, 0, pl, attrs, ins, outs, rapid.Uint32().Draw(t, l+"lock"), progs)
}

func genHeader(t *rapid.T, l string) common2.Header {
	return common2.Header{Version: rapid.Uint32().Draw(t, l+"ver"), Previous: h256(t, l+"prev"), MerkleRoot: h256(t, l+"root"),
		Timestamp: rapid.Uint32().Draw(t, l+"ts"), Bits: rapid.Uint32().Draw(t, l+"bits"), Nonce: rapid.Uint32().Draw(t, l+"nonce"),
		Height: rapid.Uint32().Draw(t, l+"height")}
}

func genBlock(t *rapid.T, l string) *types.Block {
	b := &types.Block{Header: genHeader(t, l)}
	for i, n := 0, rapid.IntRange(0, 4).Draw(t, l+"ntx"); i < n; i++ {
		b.Transactions = append(b.Transactions, genTx(t, l+"tx"))
	}
	return b
}

func genProposal(t *rapid.T, l string) payload.DPOSProposal {
	return payload.DPOSProposal{Sponsor: bytesN(t, l+"sponsor", 33, 33), BlockHash: h256(t, l+"bh"),
		ViewOffset: rapid.Uint32().Draw(t, l+"vo"), Sign: bytesN(t, l+"sign", 64, 64)}
}

func genVote(t *rapid.T, l string) payload.DPOSProposalVote {
	return payload.DPOSProposalVote{ProposalHash: h256(t, l+"ph"), Signer: bytesN(t, l+"signer", 33, 33),
		Accept: rapid.Bool().Draw(t, l+"acc"), Sign: bytesN(t, l+"sign", 64, 64)}
}

func genConfirm(t *rapid.T, l string) *payload.Confirm {
	c := &payload.Confirm{Proposal: genProposal(t, l+"p")}
	for i, n := 0, rapid.IntRange(0, 4).Draw(t, l+"nv"); i < n; i++ {
		c.Votes = append(c.Votes, genVote(t, l+"v"))
	}
	return c
}

func genDposBlock(t *rapid.T, l string) *types.DposBlock {
	d := &types.DposBlock{Block: genBlock(t, l), HaveConfirm: rapid.Bool().Draw(t, l+"hc")}
	if d.HaveConfirm {
		d.Confirm = genConfirm(t, l+"c")
	}
	return d
}

func genPropEvidence(t *rapid.T, l string) payload.ProposalEvidence {
	return payload.ProposalEvidence{Proposal: genProposal(t, l), BlockHeader: bytesN(t, l+"hdr", 0, 200), BlockHeight: rapid.Uint32().Draw(t, l+"h")}
}

func genInv(t *rapid.T) msg.Inv {
	var inv msg.Inv
	for i, n := 0, count(t, "ninv", msg.MaxInvPerMsg); i < n; i++ {
		var h common.Uint256
		if n <= 40 {
			h = h256(t, "invh")
		} else {
			h[0], h[1], h[2] = byte(i), byte(i>>8), byte(i>>16)
		}
		inv.InvList = append(inv.InvList, &msg.InvVect{Type: msg.InvType(rapid.Uint32Range(0, 6).Draw(t, "invt")), Hash: h})
	}
	return inv
}

func specs() []spec {
	nv := func(t *rapid.T) string { return str(t, "nodeversion", 46) }
	return []spec{
		// ---------------- main net (p2p/msg)
		{family: "main", cmd: p2p.CmdVersion, empty: func() p2p.Message { return &msg.Version{} }, gen: func(t *rapid.T) p2p.Message {
			m := &msg.Version{Version: rapid.OneOf(rapid.Uint32Range(0, 100000), rapid.Uint32()).Draw(t, "pver"), Services: rapid.Uint64().Draw(t, "svc"),
				Timestamp: secs(t, "ts"), Port: uint16(rapid.IntRange(0, 65535).Draw(t, "port")), Nonce: rapid.Uint64().Draw(t, "nonce"),
				Height: rapid.Uint64().Draw(t, "height"), Relay: rapid.Bool().Draw(t, "relay")}
			if m.Version >= 80000 {
				m.NodeVersion = nv(t)
			}
			return m
		}},
		{family: "main", cmd: p2p.CmdVerAck, empty: func() p2p.Message { return &msg.VerAck{} }, gen: func(t *rapid.T) p2p.Message { return msg.NewVerAck() }},
		{family: "main", cmd: p2p.CmdGetAddr, empty: func() p2p.Message { return &msg.GetAddr{} }, gen: func(t *rapid.T) p2p.Message { return msg.NewGetAddr() }},
		{family: "main", cmd: p2p.CmdMemPool, empty: func() p2p.Message { return &msg.MemPool{} }, gen: func(t *rapid.T) p2p.Message { return &msg.MemPool{} }},
		{family: "main", cmd: p2p.CmdFilterClear, empty: func() p2p.Message { return &msg.FilterClear{} }, gen: func(t *rapid.T) p2p.Message { return &msg.FilterClear{} }},
		{family: "main", cmd: p2p.CmdAddr, empty: func() p2p.Message { return &msg.Addr{} }, gen: func(t *rapid.T) p2p.Message {
			m := &msg.Addr{}
			for i, n := 0, count(t, "naddr", msg.MaxAddrPerMsg); i < n; i++ {
				ip := make(net.IP, 16)
				if n <= 40 {
					copy(ip, bytesN(t, "ip", 16, 16))
				} else {
					ip[15], ip[14] = byte(i), byte(i>>8)
				}
				m.AddrList = append(m.AddrList, &p2p.NetAddress{Timestamp: time.Unix(int64(i)*977, 0), Services: uint64(i), IP: ip, Port: uint16(i)})
			}
			return m
		}},
		{family: "main", cmd: p2p.CmdPing, empty: func() p2p.Message { return &msg.Ping{} }, gen: func(t *rapid.T) p2p.Message { return msg.NewPing(rapid.Uint64().Draw(t, "nonce")) }},
		{family: "main", cmd: p2p.CmdPong, empty: func() p2p.Message { return &msg.Pong{} }, gen: func(t *rapid.T) p2p.Message { return msg.NewPong(rapid.Uint64().Draw(t, "nonce")) }},
		{family: "main", cmd: p2p.CmdTx, bytesOnly: true, empty: func() p2p.Message { return &msg.Tx{} }, gen: func(t *rapid.T) p2p.Message { return msg.NewTx(genTx(t, "tx")) }},
		{family: "main", cmd: p2p.CmdBlock, bytesOnly: true, empty: func() p2p.Message { return msg.NewBlock(&types.DposBlock{}) }, gen: func(t *rapid.T) p2p.Message {
			return msg.NewBlock(genDposBlock(t, "blk"))
		}},
		{family: "main", cmd: p2p.CmdInv, empty: func() p2p.Message { return &msg.Inv{} }, gen: func(t *rapid.T) p2p.Message { m := genInv(t); return &m }},
		{family: "main", cmd: p2p.CmdNotFound, empty: func() p2p.Message { return &msg.NotFound{} }, gen: func(t *rapid.T) p2p.Message { return &msg.NotFound{Inv: genInv(t)} }},
		{family: "main", cmd: p2p.CmdGetData, empty: func() p2p.Message { return &msg.GetData{} }, gen: func(t *rapid.T) p2p.Message { return &msg.GetData{Inv: genInv(t)} }},
		{family: "main", cmd: p2p.CmdGetBlocks, empty: func() p2p.Message { return &msg.GetBlocks{} }, gen: func(t *rapid.T) p2p.Message {
			m := &msg.GetBlocks{HashStop: h256(t, "stop")}
			for i, n := 0, count(t, "nloc", msg.MaxBlockLocatorsPerMsg); i < n; i++ {
				h := common.Uint256{byte(i), byte(i >> 8)}
				if n <= 40 {
					h = h256(t, "loc")
				}
				m.Locator = append(m.Locator, &h)
			}
			return m
		}},
		{family: "main", cmd: p2p.CmdFilterAdd, empty: func() p2p.Message { return &msg.FilterAdd{} }, gen: func(t *rapid.T) p2p.Message {
			return &msg.FilterAdd{Data: bytesN(t, "data", 0, rapid.SampledFrom([]int{8, 40, msg.MaxFilterAddDataSize}).Draw(t, "max"))}
		}},
		{family: "main", cmd: p2p.CmdFilterLoad, empty: func() p2p.Message { return &msg.FilterLoad{} }, gen: func(t *rapid.T) p2p.Message {
			size := rapid.OneOf(rapid.IntRange(0, 64), rapid.IntRange(0, 2000), rapid.IntRange(17000, msg.MaxFilterLoadFilterSize),
				rapid.IntRange(msg.MaxFilterLoadFilterSize-2, msg.MaxFilterLoadFilterSize)).Draw(t, "size")
			m := &msg.FilterLoad{Filter: make([]byte, size), HashFuncs: rapid.Uint32Range(0, msg.MaxFilterLoadHashFuncs).Draw(t, "k"),
				Tweak: rapid.Uint32().Draw(t, "tweak"), Flags: rapid.Byte().Draw(t, "flags")}
			for i, b := range bytesN(t, "fill", 0, 16) {
				if size > 0 {
					m.Filter[(i*7919)%size] = b
				}
			}
			for _, b := range bytesN(t, "types", 0, 5) {
				m.TxTypes = append(m.TxTypes, common2.TxType(b))
			}
			return m
		}},
		{family: "main", cmd: p2p.CmdTxFilter, empty: func() p2p.Message { return &msg.TxFilterLoad{} }, gen: func(t *rapid.T) p2p.Message {
			return &msg.TxFilterLoad{Type: rapid.Byte().Draw(t, "type"), Data: bytesN(t, "data", 0,
				rapid.SampledFrom([]int{16, 300, msg.MaxTxFilterLoadDataSize}).Draw(t, "max"))}
		}},
		{family: "main", cmd: p2p.CmdReject, empty: func() p2p.Message { return &msg.Reject{} }, gen: func(t *rapid.T) p2p.Message {
			return &msg.Reject{Cmd: str(t, "cmd", 12), RejectCode: msg.RejectCode(rapid.Byte().Draw(t, "code")),
				Reason: str(t, "reason", rapid.SampledFrom([]int{0, 30, 300, 70000}).Draw(t, "rmax")), Hash: h256(t, "hash")}
		}},
		{family: "main", cmd: p2p.CmdDAddr, empty: func() p2p.Message { return &msg.DAddr{} }, gen: func(t *rapid.T) p2p.Message {
			m := &msg.DAddr{Timestamp: time.Unix(rapid.Int64Range(0, 1<<40).Draw(t, "ts"), 0),
				Signature: bytesN(t, "sig", 64, 64)}
			cl := rapid.OneOf(rapid.IntRange(0, 245), rapid.IntRange(100, 245), rapid.IntRange(240, 256)).Draw(t, "cipherLen")
			m.Cipher = bytesN(t, "cipher", cl, cl)
			copy(m.PID[:], bytesN(t, "pid", 33, 33))
			copy(m.Encode[:], bytesN(t, "enc", 33, 33))
			return m
		}},
		{family: "main", cmd: p2p.CmdMerkleBlock, empty: func() p2p.Message { return msg.NewMerkleBlock(&common2.Header{}) }, gen: func(t *rapid.T) p2p.Message {
			h := genHeader(t, "mb")
			m := &msg.MerkleBlock{Header: &h, Transactions: rapid.Uint32().Draw(t, "ntx"), Flags: bytesN(t, "flags", 0, 12)}
			for i, n := 0, rapid.IntRange(0, 12).Draw(t, "nh"); i < n; i++ {
				x := h256(t, "mh")
				m.Hashes = append(m.Hashes, &x)
			}
			return m
		}},

		// ---------------- DPoS network (dpos/p2p/msg, plus block and tx)
		{family: "dpos", cmd: dmsg.CmdVersion, empty: func() p2p.Message { return &dmsg.Version{} }, gen: func(t *rapid.T) p2p.Message {
			m := &dmsg.Version{Port: uint16(rapid.IntRange(0, 65535).Draw(t, "port")),
				Timestamp: time.Unix(0, rapid.Int64Range(0, 1<<42).Draw(t, "tsms")*int64(time.Millisecond))}
			copy(m.PID[:], bytesN(t, "pid", 33, 33))
			copy(m.Target[:], bytesN(t, "target", 16, 16))
			copy(m.Nonce[:], bytesN(t, "nonce", 16, 16))
			if dmsg.GetPayloadVersion() >= dmsg.DPoSV2Version {
				m.Version = rapid.Uint32().Draw(t, "ver")
				m.NodeVersion = str(t, "nodeversion", 48)
			}
			return m
		}},
		{family: "dpos", cmd: dmsg.CmdVerAck, empty: func() p2p.Message { return &dmsg.VerAck{} }, gen: func(t *rapid.T) p2p.Message { return dmsg.NewVerAck(bytesN(t, "sig", 64, 64)) }},
		{family: "dpos", cmd: dmsg.CmdAddr, empty: func() p2p.Message { return &dmsg.Addr{} }, gen: func(t *rapid.T) p2p.Message {
			return dmsg.NewAddr(str(t, "host", rapid.SampledFrom([]int{15, 60, 253}).Draw(t, "hmax")), uint16(rapid.IntRange(0, 65535).Draw(t, "port")))
		}},
		{family: "dpos", cmd: dmsg.CmdPing, empty: func() p2p.Message { return &dmsg.Ping{} }, gen: func(t *rapid.T) p2p.Message { return dmsg.NewPing(rapid.Uint64().Draw(t, "nonce")) }},
		{family: "dpos", cmd: dmsg.CmdPong, empty: func() p2p.Message { return &dmsg.Pong{} }, gen: func(t *rapid.T) p2p.Message { return dmsg.NewPong(rapid.Uint64().Draw(t, "nonce")) }},
		{family: "dpos", cmd: p2p.CmdBlock, bytesOnly: true, empty: func() p2p.Message { return msg.NewBlock(&types.Block{}) }, gen: func(t *rapid.T) p2p.Message { return msg.NewBlock(genBlock(t, "blk")) }},
		{family: "dpos", cmd: p2p.CmdTx, bytesOnly: true, empty: func() p2p.Message { return &msg.Tx{} }, gen: func(t *rapid.T) p2p.Message { return msg.NewTx(genTx(t, "tx")) }},
		{family: "dpos", cmd: dmsg.CmdAcceptVote, empty: func() p2p.Message { return &dmsg.Vote{Command: dmsg.CmdAcceptVote} }, gen: func(t *rapid.T) p2p.Message {
			return &dmsg.Vote{Command: dmsg.CmdAcceptVote, Vote: genVote(t, "v")}
		}},
		{family: "dpos", cmd: dmsg.CmdRejectVote, empty: func() p2p.Message { return &dmsg.Vote{Command: dmsg.CmdRejectVote} }, gen: func(t *rapid.T) p2p.Message {
			return &dmsg.Vote{Command: dmsg.CmdRejectVote, Vote: genVote(t, "v")}
		}},
		{family: "dpos", cmd: dmsg.CmdReceivedProposal, empty: func() p2p.Message { return &dmsg.Proposal{} }, gen: func(t *rapid.T) p2p.Message {
			return &dmsg.Proposal{Proposal: genProposal(t, "p")}
		}},
		{family: "dpos", cmd: dmsg.CmdInv, empty: func() p2p.Message { return &dmsg.Inventory{} }, gen: func(t *rapid.T) p2p.Message { return dmsg.NewInventory(h256(t, "h")) }},
		{family: "dpos", cmd: dmsg.CmdGetBlock, empty: func() p2p.Message { return &dmsg.GetBlock{} }, gen: func(t *rapid.T) p2p.Message { return dmsg.NewGetBlock(h256(t, "h")) }},
		{family: "dpos", cmd: dmsg.CmdGetBlocks, empty: func() p2p.Message { return &dmsg.GetBlocks{} }, gen: func(t *rapid.T) p2p.Message {
			return &dmsg.GetBlocks{StartBlockHeight: rapid.Uint32().Draw(t, "s"), EndBlockHeight: rapid.Uint32().Draw(t, "e")}
		}},
		{family: "dpos", cmd: dmsg.CmdResponseBlocks, bytesOnly: true, empty: func() p2p.Message { return &dmsg.ResponseBlocks{} }, gen: func(t *rapid.T) p2p.Message {
			m := &dmsg.ResponseBlocks{}
			for i, n := 0, rapid.IntRange(0, 3).Draw(t, "nb"); i < n; i++ {
				m.BlockConfirms = append(m.BlockConfirms, genDposBlock(t, "b"))
			}
			return m
		}},
		{family: "dpos", cmd: dmsg.CmdRequestConsensus, empty: func() p2p.Message { return &dmsg.RequestConsensus{} }, gen: func(t *rapid.T) p2p.Message {
			return &dmsg.RequestConsensus{Height: rapid.Uint32().Draw(t, "h")}
		}},
		{family: "dpos", cmd: dmsg.CmdResponseConsensus, empty: func() p2p.Message { return &dmsg.ResponseConsensus{} }, gen: func(t *rapid.T) p2p.Message {
			m := &dmsg.ResponseConsensus{}
			c := &m.Consensus
			c.ConsensusStatus, c.ViewOffset = rapid.Uint32().Draw(t, "st"), rapid.Uint32().Draw(t, "vo")
			c.ViewStartTime = time.Unix(0, rapid.Int64Range(0, 1<<62).Draw(t, "vst"))
			for i, n := 0, rapid.IntRange(0, 3).Draw(t, "na"); i < n; i++ {
				c.AcceptVotes = append(c.AcceptVotes, genVote(t, "av"))
			}
			for i, n := 0, rapid.IntRange(0, 3).Draw(t, "nr"); i < n; i++ {
				c.RejectedVotes = append(c.RejectedVotes, genVote(t, "rv"))
			}
			for i, n := 0, rapid.IntRange(0, 3).Draw(t, "npp"); i < n; i++ {
				c.PendingProposals = append(c.PendingProposals, genProposal(t, "pp"))
			}
			for i, n := 0, rapid.IntRange(0, 3).Draw(t, "npv"); i < n; i++ {
				c.PendingVotes = append(c.PendingVotes, genVote(t, "pv"))
			}
			return m
		}},
		{family: "dpos", cmd: dmsg.CmdRequestProposal, empty: func() p2p.Message { return &dmsg.RequestProposal{} }, gen: func(t *rapid.T) p2p.Message {
			return &dmsg.RequestProposal{ProposalHash: h256(t, "h")}
		}},
		{family: "dpos", cmd: dmsg.CmdIllegalProposals, empty: func() p2p.Message { return &dmsg.IllegalProposals{} }, gen: func(t *rapid.T) p2p.Message {
			return &dmsg.IllegalProposals{Proposals: payload.DPOSIllegalProposals{Evidence: genPropEvidence(t, "e"), CompareEvidence: genPropEvidence(t, "c")}}
		}},
		{family: "dpos", cmd: dmsg.CmdIllegalVotes, empty: func() p2p.Message { return &dmsg.IllegalVotes{} }, gen: func(t *rapid.T) p2p.Message {
			return &dmsg.IllegalVotes{Votes: payload.DPOSIllegalVotes{
				Evidence:        payload.VoteEvidence{ProposalEvidence: genPropEvidence(t, "e"), Vote: genVote(t, "ev")},
				CompareEvidence: payload.VoteEvidence{ProposalEvidence: genPropEvidence(t, "c"), Vote: genVote(t, "cv")}}}
		}},
		{family: "dpos", cmd: dmsg.CmdSidechainIllegalData, empty: func() p2p.Message { return &dmsg.SidechainIllegalData{} }, gen: func(t *rapid.T) p2p.Message {
			d := payload.SidechainIllegalData{IllegalType: payload.IllegalDataType(rapid.Byte().Draw(t, "it")), Height: rapid.Uint32().Draw(t, "h"),
				IllegalSigner: bytesN(t, "signer", 33, 33), Evidence: payload.SidechainIllegalEvidence{DataHash: h256(t, "e")},
				CompareEvidence: payload.SidechainIllegalEvidence{DataHash: h256(t, "c")}, GenesisBlockAddress: str(t, "gaddr", 34)}
			for i, n := 0, rapid.IntRange(0, 4).Draw(t, "ns"); i < n; i++ {
				d.Signs = append(d.Signs, bytesN(t, "sg", 64, 64))
			}
			return &dmsg.SidechainIllegalData{Data: d}
		}},
		{family: "dpos", cmd: dmsg.CmdResponseInactiveArbitrators, empty: func() p2p.Message { return &dmsg.ResponseInactiveArbitrators{} }, gen: func(t *rapid.T) p2p.Message {
			return &dmsg.ResponseInactiveArbitrators{TxHash: h256(t, "h"), Signer: bytesN(t, "signer", 33, 33), Sign: bytesN(t, "sign", 64, 64)}
		}},
		{family: "dpos", cmd: dmsg.CmdResponseRevertToDPOS, empty: func() p2p.Message { return &dmsg.ResponseRevertToDPOS{} }, gen: func(t *rapid.T) p2p.Message {
			return &dmsg.ResponseRevertToDPOS{TxHash: h256(t, "h"), Signer: bytesN(t, "signer", 33, 33), Sign: bytesN(t, "sign", 64, 64)}
		}},
		{family: "dpos", cmd: dmsg.CmdResetConsensusView, empty: func() p2p.Message { return &dmsg.ResetView{} }, gen: func(t *rapid.T) p2p.Message {
			return &dmsg.ResetView{Sponsor: bytesN(t, "sponsor", 33, 33), Sign: bytesN(t, "sign", 64, 64)}
		}},
		{family: "dpos", cmd: p2p.CmdReject, empty: func() p2p.Message { return &dmsg.Reject{} }, gen: func(t *rapid.T) p2p.Message {
			return &dmsg.Reject{Cmd: str(t, "cmd", 12), Code: dmsg.RejectCode(rapid.Byte().Draw(t, "code")),
				Reason: str(t, "reason", rapid.SampledFrom([]int{0, 30, 300, 70000}).Draw(t, "rmax")), Hash: h256(t, "hash")}
		}},
		{family: "dpos", cmd: p2p.CmdDAddr, empty: func() p2p.Message { return &dmsg.Daddr{} }, gen: func(t *rapid.T) p2p.Message {
			return dmsg.NewDaddr(str(t, "addr", rapid.SampledFrom([]int{21, 80, 259}).Draw(t, "amax")))
		}},
	}
}
