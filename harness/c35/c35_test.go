package c35

import (
	"bytes"
	"encoding/binary"
	"encoding/hex"
	"encoding/json"
	"errors"
	"fmt"
	"io"
	"os"
	"path/filepath"
	"reflect"
	"testing"

	"github.com/elastos/Elastos.ELA/common/log"
	"github.com/elastos/Elastos.ELA/core/transaction"
	"github.com/elastos/Elastos.ELA/core/types/functions"
	dmsg "github.com/elastos/Elastos.ELA/dpos/p2p/msg"
	"github.com/elastos/Elastos.ELA/p2p"
	"pgregory.net/rapid"
	"verifharness/lib/vk"
)

var allSpecs []spec
var byCmd = map[string]*spec{} // family|cmd

func TestMain(m *testing.M) {
	functions.GetTransactionByTxType = transaction.GetTransaction
	functions.GetTransactionByBytes = transaction.GetTransactionByBytes
	functions.CreateTransaction = transaction.CreateTransaction
	functions.GetTransactionParameters = transaction.GetTransactionparameters
	// Header.Verify logs through the process-global logger, which the node
	// always creates at start-up.  Level 3 (error) keeps it silent.
	dir, _ := os.MkdirTemp("", "c35log")
	log.NewDefault(filepath.Join(dir, "logs"), 3, 1, 2)
	thoroughBig = vk.Thorough()
	allSpecs = specs()
	for i := range allSpecs {
		byCmd[allSpecs[i].family+"|"+allSpecs[i].cmd] = &allSpecs[i]
	}
	code := 0
	func() {
		defer os.RemoveAll(dir)
		vk.Main(m, "C35") // exits
	}()
	os.Exit(code)
}

// slack covers everything a failing read allocates besides the payload
// buffer: the header copy, error values, checksum hex strings for the log.
const slack = 16 << 10

type frameCase struct {
	Family   string `json:"family"`
	Cmd      string `json:"cmd"`
	Magic    uint32 `json:"magic"`
	DposPV   uint32 `json:"dpos_payload_version,omitempty"`
	Payload  string `json:"payload"`
	Mutation string `json:"mutation,omitempty"`
	Stream   string `json:"stream,omitempty"`
}

func drawCase(t *rapid.T) (*spec, *frameCase, p2p.Message, []byte) {
	// uniform choice of the command: rapid's integer generators favour small values, so mix first
	x := rapid.Uint64().Draw(t, "spec") + 0x9E3779B97F4A7C15
	x = (x ^ (x >> 30)) * 0xBF58476D1CE4E5B9
	x = (x ^ (x >> 27)) * 0x94D049BB133111EB
	x ^= x >> 31
	sp := &allSpecs[int(x%uint64(len(allSpecs)))]
	c := &frameCase{Family: sp.family, Cmd: sp.cmd, Magic: rapid.OneOf(rapid.Just(uint32(2017001)), rapid.Uint32()).Draw(t, "magic")}
	dmsg.SetPayloadVersion(0)
	if sp.family == "dpos" {
		c.DposPV = uint32(rapid.IntRange(0, 1).Draw(t, "dposPayloadVersion"))
		dmsg.SetPayloadVersion(c.DposPV)
	}
	m := sp.gen(t)
	buf := new(bytes.Buffer)
	if err := m.Serialize(buf); err != nil {
		t.Fatalf("harness: generated %s/%s message does not serialize: %v", sp.family, sp.cmd, err)
	}
	c.Payload = vk.Hex(buf.Bytes())
	return sp, c, m, buf.Bytes()
}

func sizeClass(n int) string {
	switch {
	case n == 0:
		return "empty"
	case n <= 64:
		return "<=64B"
	case n <= 4096:
		return "<=4KB"
	case n <= 65536:
		return "<=64KB"
	}
	return ">64KB"
}

// readOne runs one framed read with panic capture and allocation metering.
type readResult struct {
	msg       p2p.Message
	err       error
	panicked  bool
	pval      any
	frame     string
	alloc     uint64
	requested int64
	delivered int64
	maxAsk    int
}

func readOne(family string, magic uint32, stream []byte) readResult {
	c := newConn(stream)
	p := newPeer(family, magic, c)
	var r readResult
	before := totalAlloc()
	r.panicked, r.pval, r.frame = vk.Catch(func() { r.msg, r.err = p.VerifReadMessage() })
	r.alloc = totalAlloc() - before
	r.requested, r.delivered, r.maxAsk = c.requested, c.delivered, c.maxAsk
	return r
}

// minAlloc repeats the read to take scheduling/GC noise out of the meter.
func minAlloc(family string, magic uint32, stream []byte, first uint64) uint64 {
	m := first
	for i := 0; i < 3; i++ {
		if a := readOne(family, magic, stream).alloc; a < m {
			m = a
		}
	}
	return m
}

// ------------------------------------------------------------------ unit: round trip

func TestRoundTrip(t *testing.T) {
	rapid.Check(t, func(t *rapid.T) {
		sp, c, m, payload := drawCase(t)
		render := func() any { return c }
		key, _ := json.Marshal(c)
		cls := "roundtrip/" + sp.family + "/" + sp.cmd

		// write through the peer's own write path
		wc := newConn(nil)
		var werr error
		if p, v, fr := vk.Catch(func() { werr = newPeer(sp.family, c.Magic, wc).VerifWriteMessage(m) }); p {
			vk.Report(t, "C35:write:panic:"+fr, fmt.Sprint(v), c)
			return
		}
		if werr != nil {
			vk.Report(t, "C35:write:"+sp.family+":"+sp.cmd+":error", werr.Error(), c)
			return
		}
		frame := wc.out.Bytes()
		if want := refFrame(c.Magic, sp.cmd, payload); !bytes.Equal(frame, want) {
			vk.Report(t, "C35:write:"+sp.family+":frame-differs-from-reference", fmt.Sprintf("got %s want %s", vk.Hex(frame), vk.Hex(want)), c)
			return
		}
		max := sp.empty().MaxLength()
		if uint32(len(payload)) > max {
			// the message's own Serialize accepted these field sizes, yet no reader may accept the frame
			r := readOne(sp.family, c.Magic, frame)
			if r.err == nil {
				vk.Report(t, "C35:read:"+sp.family+":"+sp.cmd+":accepted-above-MaxLength", fmt.Sprintf("payload %d max %d", len(payload), max), c)
				return
			}
			if vk.Report(t, "C35:roundtrip:"+sp.family+":"+sp.cmd+":writable-message-exceeds-MaxLength",
				fmt.Sprintf("payload %d bytes, MaxLength %d: %v", len(payload), max, r.err), c) {
				vk.Case(cls+"/exceeds-MaxLength(known)", false, key, render)
			}
			return
		}
		// read it back, followed by a second frame to check stream alignment
		tail := refFrame(c.Magic, "ping", []byte{1, 2, 3, 4, 5, 6, 7, 8})
		stream := append(append([]byte(nil), frame...), tail...)
		rc := newConn(stream)
		rp := newPeer(sp.family, c.Magic, rc)
		var got p2p.Message
		var rerr error
		if p, v, fr := vk.Catch(func() { got, rerr = rp.VerifReadMessage() }); p {
			vk.Report(t, "C35:read:panic:"+fr, fmt.Sprint(v), c)
			return
		}
		if rerr != nil {
			vk.Report(t, "C35:roundtrip:"+sp.family+":"+sp.cmd+":read-error", rerr.Error(), c)
			return
		}
		if rc.requested != int64(len(frame)) || rc.delivered != int64(len(frame)) {
			vk.Report(t, "C35:read:"+sp.family+":bytes-consumed", fmt.Sprintf("frame %d bytes, requested %d, delivered %d", len(frame), rc.requested, rc.delivered), c)
			return
		}
		if got.CMD() != m.CMD() || reflect.TypeOf(got) != reflect.TypeOf(m) {
			vk.Report(t, "C35:roundtrip:"+sp.family+":"+sp.cmd+":different-message-kind", fmt.Sprintf("%T %s", got, got.CMD()), c)
			return
		}
		buf := new(bytes.Buffer)
		if err := got.Serialize(buf); err != nil || !bytes.Equal(buf.Bytes(), payload) {
			vk.Report(t, "C35:roundtrip:"+sp.family+":"+sp.cmd+":payload-differs", fmt.Sprintf("err %v got %s", err, vk.Hex(buf.Bytes())), c)
			return
		}
		if !sp.bytesOnly {
			a, b := canon(reflect.ValueOf(m), 0), canon(reflect.ValueOf(got), 0)
			if a != b {
				vk.Report(t, "C35:roundtrip:"+sp.family+":"+sp.cmd+":fields-differ", fmt.Sprintf("wrote %.300s read %.300s", a, b), c)
				return
			}
		}
		// the next frame is still readable
		var next p2p.Message
		if p, v, fr := vk.Catch(func() { next, rerr = rp.VerifReadMessage() }); p {
			vk.Report(t, "C35:read:panic:"+fr, fmt.Sprint(v), c)
			return
		}
		if rerr != nil || next.CMD() != "ping" {
			vk.Report(t, "C35:read:"+sp.family+":stream-misaligned-after-message", fmt.Sprint(rerr), c)
			return
		}
		vk.Case(cls+"/"+sizeClass(len(payload)), len(payload) > 0, key, render)
	})
}

// ------------------------------------------------------------------ unit: corruptions

func knownCmd(family, cmd string) *spec { return byCmd[family+"|"+cmd] }

func TestCorrupt(t *testing.T) {
	rapid.Check(t, func(t *rapid.T) {
		sp, c, _, payload := drawCase(t)
		max := sp.empty().MaxLength()
		if uint32(len(payload)) > max {
			// covered (and reported) by the round trip unit
			key, _ := json.Marshal(c)
			vk.Case("corrupt/skipped-exceeds-MaxLength", false, key, nil)
			return
		}
		frame := refFrame(c.Magic, sp.cmd, payload)
		kinds := []string{"magic", "cmd-byte", "cmd-no-nul", "cmd-tail-garbage", "length", "length", "checksum", "truncate"}
		if len(payload) > 0 {
			kinds = append(kinds, "payload-bit", "payload-bit", "payload-bit")
		}
		kind := rapid.SampledFrom(kinds).Draw(t, "kind")
		stream := append([]byte(nil), frame...)
		// expectations
		mustErr := true
		var wantErr error      // exact error where the protocol names one
		noPayloadRead := false // reader must not ask for anything beyond the header
		allowed := uint64(slack) + uint64(max)
		morphed := ""
		switch kind {
		case "magic":
			i := rapid.IntRange(0, 3).Draw(t, "i")
			stream[i] ^= byte(rapid.IntRange(1, 255).Draw(t, "x"))
			c.Mutation = fmt.Sprintf("magic byte %d", i)
			wantErr, noPayloadRead, allowed = p2p.ErrUnmatchedMagic, true, slack
		case "cmd-byte":
			i := rapid.IntRange(4, 15).Draw(t, "i")
			stream[i] ^= byte(rapid.IntRange(1, 255).Draw(t, "x"))
			c.Mutation = fmt.Sprintf("command byte %d -> %#x", i-4, stream[i])
			h := refParseHeader(stream)
			if h.cmdOK && knownCmd(sp.family, h.cmd) != nil {
				// one flipped byte turned the command into another valid command (ping<->pong):
				// the frame is self-consistent, the checksum does not cover the command
				morphed, mustErr = h.cmd, false
				allowed = uint64(slack) + uint64(knownCmd(sp.family, h.cmd).empty().MaxLength())
			} else {
				noPayloadRead, allowed = true, slack
			}
		case "cmd-no-nul":
			for i := 4; i < 16; i++ {
				if stream[i] == 0 {
					stream[i] = byte(rapid.IntRange(1, 255).Draw(t, "fill"))
				}
			}
			c.Mutation = "command without NUL terminator"
			wantErr, noPayloadRead, allowed = p2p.ErrInvalidHeader, true, slack
		case "cmd-tail-garbage":
			if len(sp.cmd) >= 11 {
				stream[15] = 'x'
				wantErr = p2p.ErrInvalidHeader
			} else {
				stream[rapid.IntRange(4+len(sp.cmd)+1, 15).Draw(t, "i")] = byte(rapid.IntRange(1, 255).Draw(t, "x"))
			}
			c.Mutation = "non-NUL byte after the command terminator"
			noPayloadRead, allowed = true, slack
		case "length":
			L := uint32(len(payload))
			cands := []uint32{L + 1, L - 1, L + 7, L / 2, 0, max + 1, max + 2, max * 2, 1 << 31, 1<<32 - 1, 1 << 24, 32<<20 + 1}
			if max <= 1<<20 {
				cands = append(cands, max, max-1)
			}
			nl := rapid.OneOf(rapid.SampledFrom(cands), rapid.SampledFrom(cands), rapid.Uint32Range(0, 70000), rapid.Uint32()).Draw(t, "newLength")
			if nl == L {
				nl = L + 1
			}
			if nl <= max && nl > 1<<20 {
				nl = max + 1 + nl%1000 // keep honest-size buffers small; the biggest ones are exercised once per command in TestOversize
			}
			binary.LittleEndian.PutUint32(stream[16:20], nl)
			if rapid.Bool().Draw(t, "padStream") && nl <= 1<<20 && nl > L {
				stream = append(stream, make([]byte, nl-L)...)
			}
			c.Mutation = fmt.Sprintf("declared length %d -> %d (max %d)", L, nl, max)
			if nl > max {
				wantErr, noPayloadRead, allowed = p2p.ErrMsgSizeExceeded, true, slack
			}
		case "checksum":
			i := rapid.IntRange(20, 23).Draw(t, "i")
			stream[i] ^= 1 << rapid.IntRange(0, 7).Draw(t, "bit")
			c.Mutation = fmt.Sprintf("checksum byte %d", i-20)
			wantErr = p2p.ErrInvalidPayload
		case "payload-bit":
			i := rapid.IntRange(0, len(payload)-1).Draw(t, "i")
			stream[headerSize+i] ^= 1 << rapid.IntRange(0, 7).Draw(t, "bit")
			c.Mutation = fmt.Sprintf("payload byte %d of %d", i, len(payload))
			wantErr = p2p.ErrInvalidPayload
		case "truncate":
			k := rapid.IntRange(0, len(frame)-1).Draw(t, "keep")
			if len(payload) == 0 {
				k = rapid.IntRange(0, headerSize-1).Draw(t, "keepH")
			}
			stream = stream[:k]
			c.Mutation = fmt.Sprintf("stream cut after %d of %d bytes", k, len(frame))
		}
		c.Stream = vk.Hex(stream)
		r := readOne(sp.family, c.Magic, stream)
		sig := "C35:read:" + sp.family + ":" + kind
		if r.panicked {
			vk.Report(t, "C35:read:panic:"+r.frame, fmt.Sprint(r.pval), c)
			return
		}
		if mustErr && r.err == nil {
			vk.Report(t, sig+":accepted", c.Mutation, c)
			return
		}
		if morphed != "" && r.err == nil && r.msg.CMD() != morphed {
			vk.Report(t, sig+":wrong-message-for-command", fmt.Sprintf("header says %q, got %q", morphed, r.msg.CMD()), c)
			return
		}
		if wantErr != nil && !errors.Is(r.err, wantErr) {
			vk.Report(t, sig+":wrong-error", fmt.Sprintf("got %v want %v (%s)", r.err, wantErr, c.Mutation), c)
			return
		}
		if noPayloadRead && r.requested > headerSize {
			vk.Report(t, sig+":payload-read-before-rejecting", fmt.Sprintf("requested %d bytes (%s)", r.requested, c.Mutation), c)
			return
		}
		if r.err != nil && r.alloc > allowed {
			if a := minAlloc(sp.family, c.Magic, stream, r.alloc); a > allowed {
				cause := kind
				if errors.Is(r.err, p2p.ErrInvalidPayload) {
					cause = "checksum-mismatch"
				}
				vk.Report(t, "C35:read:"+cause+":allocates-more-than-limit",
					fmt.Sprintf("%s/%s: allocated %d bytes, limit %d (MaxLength %d + slack), payload %d: %s", sp.family, sp.cmd, a, allowed, max, len(payload), c.Mutation), c)
				return
			}
		}
		key, _ := json.Marshal(c)
		cl := "corrupt/" + kind
		if morphed != "" {
			cl += "/morphed-to-valid-command"
		}
		nt := len(payload) > 0 || kind != "payload-bit"
		vk.Case(cl+"/"+sizeClass(len(payload)), nt && len(payload) > 0, key, func() any { return c })
		vk.Class("corrupt-cmd/" + sp.family + "/" + sp.cmd)
	})
}

// ------------------------------------------------------------------ unit: declared lengths, every command

// TestOversize walks every command of both tables with a fixed list of
// declared lengths around and far above MaxLength, with an empty and with a
// 1 KiB body.
func TestOversize(t *testing.T) {
	const magic = 20170501
	body := bytes.Repeat([]byte{0xab}, 1024)
	for i := range allSpecs {
		sp := &allSpecs[i]
		dmsg.SetPayloadVersion(1)
		max := sp.empty().MaxLength()
		lens := []uint32{max + 1, max + 2, max*2 + 1, 1 << 31, 1<<32 - 1, 32<<20 + 1}
		for _, L := range lens {
			if L <= max {
				continue
			}
			for _, b := range [][]byte{nil, body} {
				stream := refFrame(magic, sp.cmd, nil)
				binary.LittleEndian.PutUint32(stream[16:20], L)
				stream = append(stream, b...)
				c := &frameCase{Family: sp.family, Cmd: sp.cmd, Magic: magic, Mutation: fmt.Sprintf("declared length %d, max %d, body %d", L, max, len(b)), Stream: vk.Hex(stream)}
				r := readOne(sp.family, magic, stream)
				sig := "C35:read:" + sp.family + ":oversize"
				switch {
				case r.panicked:
					vk.Report(t, "C35:read:panic:"+r.frame, fmt.Sprint(r.pval), c)
					return
				case !errors.Is(r.err, p2p.ErrMsgSizeExceeded):
					vk.Report(t, sig+":wrong-error", fmt.Sprintf("%s: got %v", c.Mutation, r.err), c)
					return
				case r.requested > headerSize:
					vk.Report(t, sig+":payload-read-before-rejecting", c.Mutation, c)
					return
				case r.alloc > slack && minAlloc(sp.family, magic, stream, r.alloc) > slack:
					vk.Report(t, "C35:read:oversize:allocates-more-than-limit", fmt.Sprintf("%s: %d bytes", c.Mutation, r.alloc), c)
					return
				}
				vk.Case("oversize/"+sp.family+"/"+sp.cmd, true, []byte(fmt.Sprintf("%s|%s|%d|%d", sp.family, sp.cmd, L, len(b))), func() any { return c })
			}
		}
		// declared length == MaxLength with a short body: allowed to allocate the buffer, must fail on the short read
		if max > 0 {
			stream := refFrame(magic, sp.cmd, nil)
			binary.LittleEndian.PutUint32(stream[16:20], max)
			stream = append(stream, 1, 2, 3)
			c := &frameCase{Family: sp.family, Cmd: sp.cmd, Magic: magic, Mutation: fmt.Sprintf("declared length = MaxLength %d, body 3", max), Stream: vk.Hex(stream)}
			r := readOne(sp.family, magic, stream)
			switch {
			case r.panicked:
				vk.Report(t, "C35:read:panic:"+r.frame, fmt.Sprint(r.pval), c)
				return
			case r.err == nil:
				vk.Report(t, "C35:read:"+sp.family+":length:accepted", c.Mutation, c)
				return
			case !errors.Is(r.err, io.ErrUnexpectedEOF) && !errors.Is(r.err, io.EOF):
				vk.Report(t, "C35:read:"+sp.family+":length:wrong-error", fmt.Sprintf("%s: %v", c.Mutation, r.err), c)
				return
			case r.alloc > uint64(max)+slack && minAlloc(sp.family, magic, stream, r.alloc) > uint64(max)+slack:
				vk.Report(t, "C35:read:short-body:allocates-more-than-limit", fmt.Sprintf("%s: %d bytes", c.Mutation, r.alloc), c)
				return
			}
			vk.Case("length=max/"+sp.family+"/"+sp.cmd, true, []byte("max|"+sp.family+"|"+sp.cmd), func() any { return c })
		}
	}
}

var _ = hex.EncodeToString
