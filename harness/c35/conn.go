// Package c35 decides property C35 (P2P framing rejects anything but
// well-formed authentic messages; write->read round trip; bounded allocation).
package c35

import (
	"bytes"
	"crypto/sha256"
	"encoding/binary"
	"encoding/hex"
	"fmt"
	"io"
	"net"
	"reflect"
	"runtime"
	"sort"
	"time"
)

// fakeConn is an in-memory net.Conn with exact accounting: requested = sum of
// len(p) over all Read calls (what the reader asked for), delivered = bytes
// actually handed out.
type fakeConn struct {
	in        []byte
	pos       int
	out       bytes.Buffer
	requested int64
	delivered int64
	reads     int
	maxAsk    int
}

func newConn(in []byte) *fakeConn { return &fakeConn{in: in} }

func (c *fakeConn) Read(p []byte) (int, error) {
	c.reads++
	c.requested += int64(len(p))
	if len(p) > c.maxAsk {
		c.maxAsk = len(p)
	}
	if c.pos >= len(c.in) {
		return 0, io.EOF
	}
	n := copy(p, c.in[c.pos:])
	c.pos += n
	c.delivered += int64(n)
	return n, nil
}
func (c *fakeConn) Write(p []byte) (int, error)        { return c.out.Write(p) }
func (c *fakeConn) Close() error                       { return nil }
func (c *fakeConn) LocalAddr() net.Addr                { return &net.TCPAddr{IP: net.IPv4(127, 0, 0, 1), Port: 1} }
func (c *fakeConn) RemoteAddr() net.Addr               { return &net.TCPAddr{IP: net.IPv4(127, 0, 0, 1), Port: 2} }
func (c *fakeConn) SetDeadline(t time.Time) error      { return nil }
func (c *fakeConn) SetReadDeadline(t time.Time) error  { return nil }
func (c *fakeConn) SetWriteDeadline(t time.Time) error { return nil }

// ---- reference framing (written from the protocol description)

const headerSize = 24

func sha256d(b []byte) [32]byte {
	a := sha256.Sum256(b)
	return sha256.Sum256(a[:])
}

// refFrame builds magic | 12-byte NUL padded command | length | checksum | payload.
func refFrame(magic uint32, cmd string, payload []byte) []byte {
	f := make([]byte, headerSize, headerSize+len(payload))
	binary.LittleEndian.PutUint32(f[0:4], magic)
	copy(f[4:16], cmd)
	binary.LittleEndian.PutUint32(f[16:20], uint32(len(payload)))
	s := sha256d(payload)
	copy(f[20:24], s[:4])
	return append(f, payload...)
}

type refHeader struct {
	magic    uint32
	cmd      string
	cmdOK    bool // has a NUL terminator and nothing but NULs after it
	length   uint32
	checksum [4]byte
}

func refParseHeader(b []byte) refHeader {
	var h refHeader
	h.magic = binary.LittleEndian.Uint32(b[0:4])
	c := b[4:16]
	i := bytes.IndexByte(c, 0)
	if i >= 0 {
		h.cmd = string(c[:i])
		h.cmdOK = true
		for _, x := range c[i:] {
			if x != 0 {
				h.cmdOK = false // garbage after the terminator: not a command any table knows
			}
		}
	}
	h.length = binary.LittleEndian.Uint32(b[16:20])
	copy(h.checksum[:], b[20:24])
	return h
}

// ---- allocation meter

func totalAlloc() uint64 {
	var m runtime.MemStats
	runtime.ReadMemStats(&m)
	return m.TotalAlloc
}

// ---- canonical dump (nil == empty, pointers followed, times as UnixNano)

var timeType = reflect.TypeOf(time.Time{})

func canon(v reflect.Value, depth int) string {
	var b bytes.Buffer
	canonTo(&b, v, depth)
	return b.String()
}

func canonTo(w *bytes.Buffer, v reflect.Value, depth int) {
	if depth > 12 {
		w.WriteString("<deep>")
		return
	}
	if !v.IsValid() {
		w.WriteString("nil")
		return
	}
	if v.Type() == timeType && v.CanInterface() {
		fmt.Fprintf(w, "t%d", v.Interface().(time.Time).UnixNano())
		return
	}
	switch v.Kind() {
	case reflect.Ptr, reflect.Interface:
		if v.IsNil() {
			w.WriteString("nil")
			return
		}
		canonTo(w, v.Elem(), depth+1)
	case reflect.Struct:
		w.WriteString(v.Type().Name() + "{")
		for i := 0; i < v.NumField(); i++ {
			f := v.Type().Field(i)
			if f.Name == "hash" || f.Name == "txHash" { // memoised digests
				continue
			}
			w.WriteString(f.Name + ":")
			canonTo(w, v.Field(i), depth+1)
			w.WriteByte(',')
		}
		w.WriteByte('}')
	case reflect.Slice, reflect.Array:
		if v.Type().Elem().Kind() == reflect.Uint8 {
			b := make([]byte, v.Len())
			for i := range b {
				b[i] = byte(v.Index(i).Uint())
			}
			w.WriteString("x" + hex.EncodeToString(b))
			return
		}
		w.WriteByte('[')
		for i := 0; i < v.Len(); i++ {
			canonTo(w, v.Index(i), depth+1)
			w.WriteByte(',')
		}
		w.WriteByte(']')
	case reflect.Map:
		var parts []string
		for _, k := range v.MapKeys() {
			parts = append(parts, canon(k, depth+1)+"=>"+canon(v.MapIndex(k), depth+1))
		}
		sort.Strings(parts)
		fmt.Fprint(w, parts)
	case reflect.String:
		fmt.Fprintf(w, "%q", v.String())
	case reflect.Bool:
		fmt.Fprint(w, v.Bool())
	case reflect.Int, reflect.Int8, reflect.Int16, reflect.Int32, reflect.Int64:
		fmt.Fprint(w, v.Int())
	case reflect.Uint, reflect.Uint8, reflect.Uint16, reflect.Uint32, reflect.Uint64, reflect.Uintptr:
		fmt.Fprint(w, v.Uint())
	case reflect.Float32, reflect.Float64:
		fmt.Fprint(w, v.Float())
	default:
		w.WriteString("<" + v.Kind().String() + ">")
	}
}
