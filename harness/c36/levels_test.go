// C36 (service-level half) - methods that mine, submit transactions, change
// node settings or use wallet data refuse to run when the configured service
// level forbids them.
//
// A real in-process regnet node (harness/node) backs the servers package
// globals, requests go through httpjsonrpc.Handle (loopback client), and the
// observable node state (chain tip, mempool, log level) is compared around every
// forbidden call.  The classification method -> class is the harness's own table,
// written from the property statement and docs/jsonrpc_apis.md; which classes a
// level forbids follows the order of config.RPCServiceLevel.
package c36

import (
	"bytes"
	"encoding/hex"
	"encoding/json"
	"fmt"
	"net/http/httptest"
	"sort"
	"strings"
	"testing"

	"github.com/elastos/Elastos.ELA/auxpow"
	"github.com/elastos/Elastos.ELA/common"
	"github.com/elastos/Elastos.ELA/common/config"
	"github.com/elastos/Elastos.ELA/elanet"
	"github.com/elastos/Elastos.ELA/p2p/msg"
	"github.com/elastos/Elastos.ELA/servers"
	"github.com/elastos/Elastos.ELA/servers/httpjsonrpc"
	"pgregory.net/rapid"
	"verifharness/lib/vk"
	"verifharness/node"
)

// class ranks follow config.RPCServiceLevel: a configured level L forbids every
// class whose rank is below L.
const (
	rankSettings = 0 // change node settings        (ConfigurationPermitted)
	rankMining   = 1 // mine                        (MiningPermitted)
	rankTx       = 2 // submit transactions         (TransactionPermitted)
	rankWallet   = 3 // use wallet data             (WalletPermitted)
)

var levels = []config.RPCServiceLevel{config.ConfigurationPermitted, config.MiningPermitted, config.TransactionPermitted, config.WalletPermitted, config.QueryOnly}

// privileged is the statement-derived classification.  A method with several
// classes refuses as soon as one of them is forbidden (lowest rank).
var privileged = map[string]struct {
	rank  int
	class string
}{
	"setloglevel":                {rankSettings, "settings"},
	"togglemining":               {rankSettings, "settings+mine"},
	"createauxblock":             {rankMining, "mine"},
	"submitauxblock":             {rankMining, "mine"},
	"discretemining":             {rankMining, "mine"},
	"sendrawtransaction":         {rankTx, "submit-tx"},
	"submitsidechainillegaldata": {rankTx, "submit-tx"},
	"listunspent":                {rankWallet, "wallet"},
	"getutxosbyamount":           {rankWallet, "wallet"},
	"getamountbyinputs":          {rankWallet, "wallet"},
	"createrawtransaction":       {rankWallet, "wallet"},
	"signrawtransactionwithkey":  {rankWallet, "wallet"},
}

type fakeServer struct{ elanet.Server }

func (fakeServer) RelayInventory(*msg.InvVect, interface{}) {}
func (fakeServer) IsCurrent() bool                          { return true }
func (fakeServer) ConnectedCount() int32                    { return 0 }

var rigReuse = 25 // 100 in the thorough tier

type rig struct {
	n     *node.Node
	coins []node.Coin
	next  int
}

func newRig(t vk.TB) *rig {
	n, err := node.New(node.Opts{})
	if err != nil {
		t.Fatalf("harness: node.New: %v", err)
	}
	r := &rig{n: n}
	for i := 0; i < 3; i++ {
		tip, err := n.Tip()
		if err != nil {
			t.Fatalf("harness: tip: %v", err)
		}
		b, err := n.BuildBlock(node.BlockSpec{Parent: tip})
		if err != nil {
			t.Fatalf("harness: BuildBlock: %v", err)
		}
		if in, _, err := n.Process(b); err != nil || !in {
			t.Fatalf("harness: Process: in=%v err=%v", in, err)
		}
	}
	blocks, err := n.ActiveChain()
	if err != nil {
		t.Fatalf("harness: ActiveChain: %v", err)
	}
	u, err := node.Replay(blocks, n.KeyIndexOf)
	if err != nil {
		t.Fatalf("harness: Replay: %v", err)
	}
	r.coins = u.Spendable(n.Chain.GetHeight()+1, n.Params.PowConfiguration.CoinbaseMaturity)
	if len(r.coins) == 0 {
		t.Fatalf("harness: no spendable coins")
	}
	servers.ChainParams = n.Params
	servers.Chain = n.Chain
	servers.Store = n.Store
	servers.TxMemPool = n.Pool
	servers.Pow = n.Pow
	servers.Server = fakeServer{}
	servers.Arbiter = nil
	servers.Arbiters = n.Arbiters
	n.Params.RpcConfiguration = config.RpcConfiguration{}
	initRPC(t)
	if logger != nil {
		logger.SetLevel(6)
	}
	return r
}

func (r *rig) close() {
	servers.Chain, servers.Store, servers.TxMemPool, servers.Pow = nil, nil, nil, nil
	r.n.Close()
}

// validTx returns the hex of a valid, not yet submitted transfer.
func (r *rig) validTx(t vk.TB) string {
	c := r.coins[r.next%len(r.coins)]
	r.next++
	fee := common.Fixed64(10000 + r.next)
	tx, err := r.n.Transfer([]node.Coin{c}, []node.Out{{To: r.n.Keys[1].ProgramHash, Value: c.Value - fee}}, r.n.Chain.GetHeight()+1)
	if err != nil {
		t.Fatalf("harness: Transfer: %v", err)
	}
	buf := new(bytes.Buffer)
	if err := tx.Serialize(buf); err != nil {
		t.Fatalf("harness: Serialize: %v", err)
	}
	return hex.EncodeToString(buf.Bytes())
}

type nodeState struct {
	Height   uint32 `json:"height"`
	Best     string `json:"best"`
	Pool     string `json:"pool"`
	LogLevel uint8  `json:"log_level"`
}

func (r *rig) state() nodeState {
	s := nodeState{Height: r.n.Chain.GetHeight(), Best: r.n.Chain.GetBestBlockHash().String()}
	var hs []string
	for _, tx := range r.n.Pool.GetTxsInPool() {
		hs = append(hs, tx.Hash().String())
	}
	sort.Strings(hs)
	s.Pool = fmt.Sprintf("%d:%s", len(hs), strings.Join(hs, ","))
	if logger != nil {
		s.LogLevel = uint8(logger.Level())
	}
	return s
}

// plausibleParams builds well-formed parameters for a privileged method (so that a
// missing gate would let the call do its work); named form.
func (r *rig) plausibleParams(t vk.TB, method string, variant int) map[string]any {
	addr := r.n.Keys[0].Address
	switch method {
	case "setloglevel":
		return map[string]any{"level": variant % 6}
	case "togglemining":
		return map[string]any{"mining": variant%2 == 0}
	case "createauxblock":
		return map[string]any{"paytoaddress": addr}
	case "submitauxblock":
		h := r.n.Chain.GetBestBlockHash()
		ap := auxpow.GenerateAuxPow(*h)
		buf := new(bytes.Buffer)
		_ = ap.Serialize(buf)
		return map[string]any{"blockhash": h.String(), "auxpow": hex.EncodeToString(buf.Bytes())}
	case "discretemining":
		return map[string]any{"count": 1 + variant%2}
	case "sendrawtransaction":
		return map[string]any{"data": r.validTx(t)}
	case "submitsidechainillegaldata":
		return map[string]any{"illegaldata": "00"}
	case "listunspent":
		return map[string]any{"addresses": []string{addr}}
	case "getutxosbyamount":
		return map[string]any{"address": addr, "amount": "1"}
	case "getamountbyinputs":
		c := r.coins[variant%len(r.coins)]
		buf := new(bytes.Buffer)
		_ = common.WriteVarUint(buf, 1)
		_ = c.Op.Serialize(buf)
		_ = common.WriteUint32(buf, 0)
		return map[string]any{"inputs": hex.EncodeToString(buf.Bytes())}
	case "createrawtransaction":
		c := r.coins[variant%len(r.coins)]
		in := fmt.Sprintf(`[{"txid":"%s","vout":%d}]`, common.ToReversedString(c.Op.TxID), c.Op.Index)
		out := fmt.Sprintf(`[{"address":"%s","amount":"1"}]`, r.n.Keys[1].Address)
		return map[string]any{"inputs": in, "outputs": out, "locktime": 0}
	case "signrawtransactionwithkey":
		return map[string]any{"data": r.validTx(t), "codes": []string{hex.EncodeToString(r.n.Keys[0].RedeemScript)},
			"privkeys": []string{hex.EncodeToString(r.n.Keys[0].PrivKey())}}
	}
	return map[string]any{}
}

// positional form of the parameters where httpjsonrpc.convertParams supports it
func positional(method string, p map[string]any) (any, bool) {
	order := map[string][]string{"setloglevel": {"level"}, "togglemining": {"mining"}, "discretemining": {"count"}, "sendrawtransaction": {"data"},
		"createauxblock": {"paytoaddress"}, "submitauxblock": {"blockhash", "auxpow"}, "listunspent": {"addresses"}}
	f, ok := order[method]
	if !ok {
		return nil, false
	}
	var arr []any
	for _, k := range f {
		arr = append(arr, p[k])
	}
	return arr, true
}

type rpcReply struct {
	Result any `json:"result"`
	Error  *struct {
		Code    float64 `json:"code"`
		Message any     `json:"message"`
	} `json:"error"`
}

const refusalCode = 42001 // servers/errors.InvalidMethod, only produced by the service-level gate

func (r rpcReply) refused() bool { return r.Error != nil && r.Error.Code == refusalCode }

func (r rpcReply) brief() string {
	if r.Error != nil {
		return fmt.Sprintf("error %v %v", r.Error.Code, r.Error.Message)
	}
	b, _ := json.Marshal(r.Result)
	if len(b) > 120 {
		b = append(b[:120], "..."...)
	}
	return "result " + string(b)
}

// call posts one request (or a batch of one filler + the request) from a loopback client.
func call(method string, params any, batch bool) (rep rpcReply, status int, panicked bool, pval any, frame string) {
	req := map[string]any{"jsonrpc": "2.0", "id": 1, "method": method, "params": params}
	var body []byte
	if batch {
		body, _ = json.Marshal([]any{map[string]any{"jsonrpc": "2.0", "id": 0, "method": "getbestblockhash"}, req})
	} else {
		body, _ = json.Marshal(req)
	}
	hr := httptest.NewRequest("POST", "http://127.0.0.1/", bytes.NewReader(body))
	hr.RemoteAddr = "127.0.0.1:40000"
	hr.Header.Set("Content-Type", "application/json")
	w := httptest.NewRecorder()
	panicked, pval, frame = vk.Catch(func() { httpjsonrpc.Handle(w, hr) })
	status = w.Code
	if panicked {
		return
	}
	if batch {
		var arr []rpcReply
		if json.Unmarshal(w.Body.Bytes(), &arr) == nil && len(arr) == 2 {
			rep = arr[1]
		}
	} else {
		_ = json.Unmarshal(w.Body.Bytes(), &rep)
	}
	return
}

type levelStep struct {
	Method  string `json:"method"`
	Level   string `json:"level"`
	Form    string `json:"form"`
	Params  any    `json:"params"`
	Outcome string `json:"outcome"`
}

// checkCall performs one call at one configured level and applies the oracle.
// Returns false when a verdict was reported.
func (r *rig) checkCall(t vk.TB, method string, level config.RPCServiceLevel, params any, form string, trace *[]levelStep) bool {
	r.n.Params.RPCServiceLevel = level.String()
	pr, isPriv := privileged[method]
	mustRefuse := isPriv && pr.rank < int(level)
	before := r.state()
	rep, status, panicked, pval, frame := call(method, params, form == "batch")
	after := r.state()
	step := levelStep{Method: method, Level: level.String(), Form: form, Params: params}
	switch {
	case panicked:
		step.Outcome = fmt.Sprintf("panic %v at %s", pval, frame)
	default:
		step.Outcome = fmt.Sprintf("HTTP %d %s", status, rep.brief())
	}
	*trace = append(*trace, step)
	// settle anything a wrongly admitted call may have started, and restore quiet logging
	defer func() {
		if logger != nil && uint8(logger.Level()) != 6 {
			logger.SetLevel(6)
		}
	}()
	cls := "unclassified"
	if isPriv {
		cls = pr.class
	}
	if mustRefuse {
		vk.Count("forbidden_calls", 1)
		if panicked {
			return !vk.Report(t, "C36:level:"+method+":panic-instead-of-refusal:"+frame, fmt.Sprintf("level %s: %v", level, pval), *trace)
		}
		if !rep.refused() {
			if method == "togglemining" && servers.Pow != nil {
				servers.Pow.Halt()
			}
			return !vk.Report(t, "C36:level:"+method+":not-refused", fmt.Sprintf("class %s at level %s answered %s", cls, level, step.Outcome), *trace)
		}
		if before != after {
			return !vk.Report(t, "C36:level:"+method+":side-effect-despite-refusal", fmt.Sprintf("level %s: state %+v -> %+v", level, before, after), *trace)
		}
		vk.Class("level/" + cls + "/forbidden-refused")
		return true
	}
	if level == config.QueryOnly && before != after {
		// whatever the table says: a call that changed chain, mempool or log level mines,
		// submits a transaction or changes a setting
		return !vk.Report(t, "C36:level:"+method+":state-changed-under-QueryOnly", fmt.Sprintf("state %+v -> %+v (%s)", before, after, step.Outcome), *trace)
	}
	switch {
	case panicked:
		vk.Class("level/" + cls + "/permitted-panicked(harness node lacks a component)")
	case rep.refused() && isPriv:
		vk.Class("level/" + cls + "/permitted-by-rank-but-refused(stricter gate)")
	case rep.refused():
		vk.Class("level/unclassified/refused(gated by code, not demanded)")
	case before != after:
		vk.Class("level/" + cls + "/permitted-effect-observed")
		if method == "setloglevel" || isPriv {
			vk.Count("permitted_effects", 1)
		}
	default:
		vk.Class("level/" + cls + "/permitted-no-state-change")
	}
	return true
}

func registeredMethods() []string {
	var ms []string
	for m := range httpjsonrpc.VerifMux() {
		if m != probeMethod {
			ms = append(ms, m)
		}
	}
	sort.Strings(ms)
	return ms
}

// TestServiceLevelGrid: every registered method x every configured level, named
// parameters; privileged methods get plausible parameters, the rest empty ones.
func TestServiceLevelGrid(t *testing.T) {
	r := newRig(t)
	defer r.close()
	ms := registeredMethods()
	var unclassified []string
	for _, m := range ms {
		if _, ok := privileged[m]; !ok {
			unclassified = append(unclassified, m)
		}
	}
	for m := range privileged {
		if _, ok := httpjsonrpc.VerifMux()[m]; !ok {
			vk.Note("privileged-not-registered/"+m, "listed in the harness table but not registered")
		}
	}
	vk.Note("registered-methods", fmt.Sprintf("%d registered, %d classified privileged; unclassified (treated as queries): %s", len(ms), len(ms)-len(unclassified), strings.Join(unclassified, " ")))
	for _, m := range ms {
		for _, lv := range levels {
			var trace []levelStep
			params := r.plausibleParams(t, m, int(lv))
			_, isPriv := privileged[m]
			if isPriv && privileged[m].rank >= int(lv) && (m == "togglemining" || m == "discretemining" || m == "submitauxblock") {
				// a permitted mining call would really start mining on the shared node: only probe the gate
				params = map[string]any{}
			}
			ok := r.checkCall(t, m, lv, params, "named", &trace)
			nt := isPriv && privileged[m].rank < int(lv)
			vk.Case("grid/"+map[bool]string{true: "forbidden", false: "permitted-or-query"}[nt], nt, []byte(m+"|"+lv.String()), func() any { return trace })
			if !ok {
				return
			}
		}
	}
}

// TestServiceLevels: generated sequences of calls to privileged methods at
// generated levels with generated parameter forms (named / positional / batch /
// empty / junk); forbidden combinations are drawn three times out of four.
func TestServiceLevels(t *testing.T) {
	// The node is shared by up to rigReuse consecutive cases: every verdict compares the state
	// right before and after one call, so it does not depend on what earlier cases left behind,
	// and a closed mini-node keeps ~4 MB and 8 goroutines alive (goleveldb), which would
	// otherwise grow a thorough shard to many GB.
	var shared *rig
	uses := 0
	if vk.Thorough() {
		rigReuse = 100
	}
	defer func() {
		if shared != nil {
			shared.close()
		}
	}()
	rapid.Check(t, func(t *rapid.T) {
		if shared == nil || uses >= rigReuse {
			if shared != nil {
				shared.close()
			}
			shared, uses = newRig(t), 0
		}
		uses++
		r := shared
		var names []string
		for m := range privileged {
			names = append(names, m)
		}
		sort.Strings(names)
		var trace []levelStep
		forbidden := 0
		n := rapid.IntRange(4, 12).Draw(t, "ncalls")
		for i := 0; i < n; i++ {
			m := rapid.SampledFrom(names).Draw(t, "method")
			pr := privileged[m]
			lv := rapid.SampledFrom(levels).Draw(t, "level")
			if rapid.IntRange(0, 3).Draw(t, "forceForbidden") != 0 && pr.rank < int(config.QueryOnly) {
				lv = config.RPCServiceLevel(rapid.IntRange(pr.rank+1, int(config.QueryOnly)).Draw(t, "forbiddenLevel"))
			}
			form := rapid.SampledFrom([]string{"named", "named", "positional", "batch", "empty", "junk"}).Draw(t, "form")
			var params any = r.plausibleParams(t, m, rapid.IntRange(0, 11).Draw(t, "variant"))
			switch form {
			case "positional":
				if p, ok := positional(m, params.(map[string]any)); ok {
					params = p
				} else {
					form = "named"
				}
			case "empty":
				params = map[string]any{}
			case "junk":
				params = map[string]any{rapid.StringN(1, 6, 12).Draw(t, "junkKey"): rapid.SampledFrom([]any{1, "x", true, nil, []any{}, 1.5, -1}).Draw(t, "junkVal")}
			}
			if pr.rank < int(lv) {
				forbidden++
			} else if m == "togglemining" || m == "discretemining" || m == "submitauxblock" {
				// permitted mining calls would really start mining on the shared node: only probe the gate
				params, form = map[string]any{}, "empty"
			}
			if !r.checkCall(t, m, lv, params, form, &trace) {
				return
			}
		}
		key, _ := json.Marshal(trace)
		vk.Case(fmt.Sprintf("sequence/forbidden-calls-%d", min(forbidden, 6)), forbidden > 0, key, func() any { return trace })
	})
}
