// C36 (access half) - a JSON-RPC request is served only if the client address
// is loopback or whitelisted and, when credentials are configured, its
// Authorization header is exactly the configured Basic credential.
//
// Both servers (servers/httpjsonrpc.Handle driven by config.Parameters, and
// utils/http/jsonrpc.Server) are driven through net/http/httptest requests with
// a generated RemoteAddr; "served" is observed by a probe method's hit counter.
// The reference predicate is written with net/netip and encoding/base64 only.
package c36

import (
	"bytes"
	"encoding/base64"
	"encoding/json"
	"fmt"
	"net/http"
	"net/http/httptest"
	"net/netip"
	"os"
	"strings"
	"sync"
	"testing"

	"github.com/elastos/Elastos.ELA/common/config"
	"github.com/elastos/Elastos.ELA/common/log"
	"github.com/elastos/Elastos.ELA/servers"
	"github.com/elastos/Elastos.ELA/servers/httpjsonrpc"
	htp "github.com/elastos/Elastos.ELA/utils/http"
	"github.com/elastos/Elastos.ELA/utils/http/jsonrpc"
	"pgregory.net/rapid"
	"verifharness/lib/vk"
)

func TestMain(m *testing.M) { vk.Main(m, "C36") }

var (
	rpcOnce   sync.Once
	probeHits int
	logger    *log.Logger
)

const probeMethod = "verifprobe"

// initRPC fills the method table of servers/httpjsonrpc with the node's own
// registration code: StartRPCServer registers every method and then fails to
// listen on the invalid port -1 (log.Fatal only logs), so no socket is opened.
func initRPC(t vk.TB) {
	rpcOnce.Do(func() {
		dir, err := os.MkdirTemp("", "c36log")
		if err != nil {
			t.Fatalf("harness: %v", err)
		}
		logger = log.NewDefault(dir, 6, 0, 0)
		if config.Parameters == nil {
			config.Parameters = &config.Configuration{}
		}
		port := config.Parameters.HttpJsonPort
		config.Parameters.HttpJsonPort = -1
		httpjsonrpc.StartRPCServer()
		config.Parameters.HttpJsonPort = port
		mux := httpjsonrpc.VerifMux()
		if len(mux) < 20 {
			t.Fatalf("harness: method table has %d entries after StartRPCServer", len(mux))
		}
		mux[probeMethod] = func(servers.Params) map[string]interface{} {
			probeHits++
			return servers.ResponsePack(0, "pong")
		}
	})
}

// ---------------------------------------------------------------- reference

// refHost extracts the host part of a RemoteAddr leniently ("[h]:p" or "h:p").
func refHost(remote string) (string, bool) {
	if strings.HasPrefix(remote, "[") {
		i := strings.Index(remote, "]")
		if i < 0 {
			return "", false
		}
		return remote[1:i], true
	}
	i := strings.LastIndex(remote, ":")
	if i < 0 {
		return "", false
	}
	return remote[:i], true
}

func refClientAllowed(remote string, white []string) bool {
	h, ok := refHost(remote)
	if !ok {
		return false
	}
	a, err := netip.ParseAddr(h)
	if err != nil {
		return false
	}
	a = a.Unmap().WithZone("")
	if a.IsLoopback() {
		return true
	}
	for _, e := range white {
		if e == "0.0.0.0" { // documented wildcard
			return true
		}
		if w, err := netip.ParseAddr(e); err == nil && w.Unmap().WithZone("") == a {
			return true
		}
	}
	return false
}

func refExpectedAuth(user, pass string) (string, bool) {
	if user == "" && pass == "" {
		return "", false
	}
	return "Basic " + base64.StdEncoding.EncodeToString([]byte(user+":"+pass)), true
}

func refAuthOK(user, pass string, headers []string) bool {
	exp, configured := refExpectedAuth(user, pass)
	if !configured {
		return true
	}
	for _, h := range headers {
		if h == exp {
			return true
		}
	}
	return false
}

// ---------------------------------------------------------------- generators

type accessCase struct {
	Server      string   `json:"server"`
	Remote      string   `json:"remote_addr"`
	AddrKind    string   `json:"addr_kind"`
	White       []string `json:"whitelist"`
	User        string   `json:"user"`
	Pass        string   `json:"pass"`
	Auth        []string `json:"authorization_headers"`
	AuthKinds   []string `json:"authorization_kinds"`
	Method      string   `json:"http_method"`
	ContentType string   `json:"content_type"`
	Honest      bool     `json:"honest"`
}

func genV4(t *rapid.T, label string) netip.Addr {
	b := [4]byte{}
	copy(b[:], rapid.SliceOfN(rapid.Byte(), 4, 4).Draw(t, label))
	if b[0] == 127 || b[0] == 0 {
		b[0] = 10
	}
	return netip.AddrFrom4(b)
}

func genV6(t *rapid.T, label string) netip.Addr {
	b := [16]byte{}
	copy(b[:], rapid.SliceOfN(rapid.Byte(), 16, 16).Draw(t, label))
	b[0] = 0x20 // global unicast, never loopback / mapped
	if rapid.Bool().Draw(t, label+"Sparse") {
		for i := 2; i < 14; i++ {
			b[i] = 0
		}
	}
	return netip.AddrFrom16(b)
}

func hostPort(host string, port int) string {
	if strings.Contains(host, ":") {
		return fmt.Sprintf("[%s]:%d", host, port)
	}
	return fmt.Sprintf("%s:%d", host, port)
}

func nearMiss(t *rapid.T, s string) string {
	switch rapid.IntRange(0, 5).Draw(t, "nearMiss") {
	case 0:
		return s + "0"
	case 1:
		if len(s) > 1 {
			return s[:len(s)-1]
		}
		return s + "1"
	case 2:
		return " " + s
	case 3:
		return s + " "
	case 4:
		return strings.ToUpper(s) + "."
	default:
		return "1" + s
	}
}

func genAccess(t *rapid.T) *accessCase {
	c := &accessCase{}
	c.Server = rapid.SampledFrom([]string{"servers/httpjsonrpc", "utils/http/jsonrpc"}).Draw(t, "server")
	// the client
	client4, client6 := genV4(t, "client4"), genV6(t, "client6")
	other4 := genV4(t, "other4")
	c.AddrKind = rapid.SampledFrom([]string{"v4", "v4", "v4", "v6", "v6", "loopback4", "loopback4-other", "loopback6", "loopback6-long", "loopback-mapped",
		"mapped-v4", "unspecified", "garbage", "no-port", "zone"}).Draw(t, "addrKind")
	host := ""
	canonicalHost := true
	switch c.AddrKind {
	case "v4":
		host = client4.String()
	case "v6":
		host = client6.String()
	case "loopback4":
		host = "127.0.0.1"
	case "loopback4-other":
		host = fmt.Sprintf("127.%d.%d.%d", rapid.IntRange(0, 255).Draw(t, "l1"), rapid.IntRange(0, 255).Draw(t, "l2"), rapid.IntRange(1, 254).Draw(t, "l3"))
	case "loopback6":
		host = "::1"
	case "loopback6-long":
		host, canonicalHost = "0:0:0:0:0:0:0:1", false
	case "loopback-mapped":
		host, canonicalHost = "::ffff:127.0.0.1", false
	case "mapped-v4":
		host, canonicalHost = "::ffff:"+client4.String(), false
	case "unspecified":
		host = rapid.SampledFrom([]string{"0.0.0.0", "::"}).Draw(t, "unspec")
	case "garbage":
		host, canonicalHost = rapid.SampledFrom([]string{"localhost", "", "127.0.0.1.evil.example", "127.1", "0x7f.0.0.1", "2130706433", "127.0.0.01",
			"127.0.0.1 ", "evil", "::1::", "1.2.3", "0177.0.0.1"}).Draw(t, "garbage"), false
	case "zone":
		host, canonicalHost = "fe80::1%lo", false
	}
	port := rapid.IntRange(1, 65535).Draw(t, "port")
	c.Remote = hostPort(host, port)
	if c.AddrKind == "no-port" {
		c.Remote, canonicalHost = client4.String(), false
	}
	// the white list
	n := rapid.IntRange(0, 4).Draw(t, "nwhite")
	exact := false
	for i := 0; i < n; i++ {
		k := rapid.SampledFrom([]string{"exact", "exact", "near", "near", "other", "other6", "wildcard", "cidr", "garbage", "upper6", "loopback"}).Draw(t, "whiteKind")
		switch k {
		case "exact":
			if host != "" {
				c.White = append(c.White, host)
				exact = true
			}
		case "near":
			c.White = append(c.White, nearMiss(t, host))
		case "other":
			c.White = append(c.White, other4.String())
		case "other6":
			c.White = append(c.White, genV6(t, "white6").String())
		case "wildcard":
			if rapid.IntRange(0, 3).Draw(t, "reallyWildcard") == 0 {
				c.White = append(c.White, "0.0.0.0")
			} else {
				c.White = append(c.White, rapid.SampledFrom([]string{"0.0.0.1", "0.0.0.0/0", "00.0.0.0", "*", "::", "0.0.0.0 "}).Draw(t, "fakeWildcard"))
			}
		case "cidr":
			c.White = append(c.White, client4.String()+"/8")
		case "garbage":
			c.White = append(c.White, rapid.SampledFrom([]string{"", "any", "localhost", ","}).Draw(t, "whiteGarbage"))
		case "upper6":
			c.White = append(c.White, strings.ToUpper(client6.String()))
		case "loopback":
			c.White = append(c.White, "127.0.0.1")
		}
	}
	// credentials
	word := rapid.SampledFrom([]string{"", "", "user", "admin", "p@ss:word", "pässwörd", "x", "Basic", " ", "a b"})
	switch rapid.IntRange(0, 3).Draw(t, "credKind") {
	case 0:
	case 1:
		c.User, c.Pass = word.Draw(t, "user"), word.Draw(t, "pass")
	default:
		c.User = rapid.StringN(1, 8, 24).Draw(t, "userS")
		c.Pass = rapid.StringN(0, 12, 36).Draw(t, "passS")
	}
	exp, configured := refExpectedAuth(c.User, c.Pass)
	if !configured {
		exp = "Basic " + base64.StdEncoding.EncodeToString([]byte(":"))
	}
	raw := base64.StdEncoding.EncodeToString([]byte(c.User + ":" + c.Pass))
	nh := rapid.SampledFrom([]int{0, 1, 1, 1, 1, 2, 3}).Draw(t, "nauth")
	for i := 0; i < nh; i++ {
		k := rapid.SampledFrom([]string{"correct", "correct", "correct", "lower-scheme", "upper-scheme", "two-spaces", "bearer",
			"embedded", "prefix-only", "no-padding", "url-base64", "swapped", "pass-only", "empty", "raw", "other-creds", "truncated", "extended"}).Draw(t, "authKind")
		h := ""
		switch k {
		case "correct":
			h = exp
		case "lower-scheme":
			h = "basic " + raw
		case "upper-scheme":
			h = "BASIC " + raw
		case "two-spaces":
			h = "Basic  " + raw
		case "bearer":
			h = "Bearer " + raw
		case "embedded":
			h = "Digest x, " + exp
		case "prefix-only":
			h = "Basic "
		case "no-padding":
			h = "Basic " + strings.TrimRight(raw, "=")
		case "url-base64":
			h = "Basic " + base64.URLEncoding.EncodeToString([]byte(c.User+":"+c.Pass))
		case "swapped":
			h = "Basic " + base64.StdEncoding.EncodeToString([]byte(c.Pass+":"+c.User))
		case "pass-only":
			h = "Basic " + base64.StdEncoding.EncodeToString([]byte(c.Pass))
		case "empty":
			h = ""
		case "raw":
			h = "Basic " + c.User + ":" + c.Pass
		case "other-creds":
			h = "Basic " + base64.StdEncoding.EncodeToString([]byte(c.User+":"+c.Pass+"x"))
		case "truncated":
			h = exp[:len(exp)-1]
		case "extended":
			h = exp + "A"
		}
		c.Auth = append(c.Auth, h)
		c.AuthKinds = append(c.AuthKinds, k)
	}
	c.Method = rapid.SampledFrom([]string{"POST", "POST", "POST", "POST", "POST", "POST", "GET", "PUT", "OPTIONS"}).Draw(t, "httpMethod")
	c.ContentType = rapid.SampledFrom([]string{"application/json", "application/json", "application/json", "text/plain", "application/json; charset=utf-8",
		"text/html", "", "application/x-www-form-urlencoded"}).Draw(t, "contentType")

	// "honest": a client every reading of the statement admits, in canonical notation
	goodCT := c.ContentType == "application/json" || c.ContentType == "text/plain" || c.ContentType == "application/json; charset=utf-8"
	addrHonest := false
	switch c.AddrKind {
	case "loopback4", "loopback4-other", "loopback6":
		addrHonest = true
	case "v4", "v6", "unspecified":
		addrHonest = canonicalHost && exact
	}
	for _, w := range c.White {
		if w == "0.0.0.0" && canonicalHost && (c.AddrKind == "v4" || c.AddrKind == "v6") {
			addrHonest = true
		}
	}
	authHonest := !configured || (len(c.Auth) == 1 && c.Auth[0] == exp)
	c.Honest = c.Method == "POST" && goodCT && addrHonest && authHonest
	return c
}

// serve sends the request to the selected server and reports whether the probe
// method ran, with the HTTP status.
func serve(c *accessCase) (served bool, status int, body string) {
	reqBody, _ := json.Marshal(map[string]any{"jsonrpc": "2.0", "id": 7, "method": probeMethod, "params": map[string]any{}})
	r := httptest.NewRequest(c.Method, "http://node.example/", bytes.NewReader(reqBody))
	r.RemoteAddr = c.Remote
	if c.ContentType != "" {
		r.Header.Set("Content-Type", c.ContentType)
	}
	for _, h := range c.Auth {
		r.Header.Add("Authorization", h)
	}
	w := httptest.NewRecorder()
	hits := 0
	if c.Server == "servers/httpjsonrpc" {
		config.Parameters.RpcConfiguration = config.RpcConfiguration{User: c.User, Pass: c.Pass, WhiteIPList: append([]string{}, c.White...)}
		before := probeHits
		httpjsonrpc.Handle(w, r)
		hits = probeHits - before
	} else {
		s := jsonrpc.NewServer(&jsonrpc.Config{User: c.User, Pass: c.Pass, WhiteList: append([]string{}, c.White...)})
		s.RegisterAction(probeMethod, func(htp.Params) (interface{}, error) { hits++; return "pong", nil })
		s.ServeHTTP(w, r)
	}
	return hits > 0, w.Code, w.Body.String()
}

func TestAccessControl(t *testing.T) {
	initRPC(t)
	rapid.Check(t, func(t *rapid.T) {
		c := genAccess(t)
		allowed := refClientAllowed(c.Remote, c.White)
		authOK := refAuthOK(c.User, c.Pass, c.Auth)
		_, configured := refExpectedAuth(c.User, c.Pass)
		var served bool
		var status int
		var body string
		p, val, frame := vk.Catch(func() { served, status, body = serve(c) })
		key, _ := json.Marshal(c)
		nonLoop := false
		if h, ok := refHost(c.Remote); ok {
			if a, err := netip.ParseAddr(h); err == nil && !a.Unmap().IsLoopback() {
				nonLoop = true
			}
		}
		cls := fmt.Sprintf("access/%s/allowed=%v/auth=%v/served=%v", c.Server, allowed, authOK, served)
		vk.Class("access-addr/" + c.AddrKind)
		for _, k := range c.AuthKinds {
			vk.Class("access-auth/" + k)
		}
		defer vk.Case(cls, nonLoop && configured, key, func() any { return c })
		if p {
			vk.Report(t, "C36:access:"+c.Server+":panic:"+frame, fmt.Sprint(val), c)
			return
		}
		if served && !allowed {
			vk.Report(t, "C36:access:"+c.Server+":served-client-neither-loopback-nor-whitelisted", fmt.Sprintf("RemoteAddr %q whitelist %q -> HTTP %d %s", c.Remote, c.White, status, body), c)
			return
		}
		if served && !authOK {
			vk.Report(t, "C36:access:"+c.Server+":served-without-exact-basic-credential", fmt.Sprintf("user %q pass %q Authorization %q -> HTTP %d %s", c.User, c.Pass, c.Auth, status, body), c)
			return
		}
		if c.Honest && !served {
			vk.Report(t, "C36:access:"+c.Server+":honest-client-rejected", fmt.Sprintf("RemoteAddr %q whitelist %q user %q pass %q Authorization %q -> HTTP %d %s", c.Remote, c.White, c.User, c.Pass, c.Auth, status, body), c)
			return
		}
		if !served && status == http.StatusOK {
			vk.Class("access/not-served-but-200")
		}
	})
}
