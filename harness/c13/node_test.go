// C13 route (ii): node-level differential through BlockChain.ProcessBlock.
//
// Node A sees P -> M1..Ma and is then reorganised to P -> F1..F(a+1); node B
// sees P -> F1..F(a+1) and receives M1..Ma only as side blocks.  The blocks
// carry signed transfers and honestly authorised side-chain withdrawals of
// every payload version (the origin arbiters are harness keys); the fork
// withdraws the rolled-back side-chain transactions again, in new
// transactions.  Oracle: the fork must be accepted by the reorganising node
// ("a rolled-back withdrawal can be included again") and the normalised
// metadata dumps of A and B are identical.
package c13

import (
	"bytes"
	"encoding/json"
	"errors"
	"fmt"
	"strings"
	"testing"

	"github.com/elastos/Elastos.ELA/common"
	"github.com/elastos/Elastos.ELA/common/config"
	"github.com/elastos/Elastos.ELA/core/contract"
	"github.com/elastos/Elastos.ELA/core/types"
	"github.com/elastos/Elastos.ELA/core/types/interfaces"
	elaerr "github.com/elastos/Elastos.ELA/errors"
	"pgregory.net/rapid"
	"verifharness/gen"
	"verifharness/lib/vk"
	"verifharness/lib/xchain"
	"verifharness/node"
)

type planned struct {
	b     *types.Block
	kinds []string
}

type nodeCase struct {
	Ops        []string
	MemFirst   bool
	A          int
	TipA, TipB uint32
}

func cloneBlock(t *rapid.T, b *types.Block) *types.Block {
	buf := new(bytes.Buffer)
	if err := b.Serialize(buf); err != nil {
		t.Fatalf("harness: serialize: %v", err)
	}
	nb := &types.Block{}
	if err := nb.Deserialize(bytes.NewReader(buf.Bytes())); err != nil {
		t.Fatalf("harness: deserialize: %v", err)
	}
	return nb
}

type builder struct {
	n     *node.Node
	fx    *xchain.Fixture
	keys  []*gen.Key
	fresh uint64
	salt  uint64
}

func (bd *builder) freshHash() common.Uint256 {
	bd.fresh++
	return common.Hash([]byte(fmt.Sprintf("c13-node-%d", bd.fresh)))
}

// genTxs draws 0..3 valid transactions for a block on top of path.
// reuse lists side-chain hashes the block may withdraw again; carry lists
// whole transactions (of a rolled-back block) that may be included unchanged.
func (bd *builder) genTxs(t *rapid.T, path []*types.Block, reuse, taken []common.Uint256, carry []interfaces.Transaction) (txs []interfaces.Transaction, kinds []string, fees common.Fixed64, hashes []common.Uint256) {
	height := path[len(path)-1].Height + 1
	u, err := node.Replay(path, bd.n.KeyIndexOf)
	if err != nil {
		t.Fatalf("harness: replay: %v", err)
	}
	ring := u.Spendable(height, bd.n.Params.PowConfiguration.CoinbaseMaturity)
	var xs []xchain.Coin
	for _, c := range u.Sorted() {
		if c.Owner[0] == byte(contract.PrefixCrossChain) && c.Value > 100000 { // enough for the fee and two targets
			xs = append(xs, xchain.Coin{Op: c.Op, Val: c.Value, Owner: c.Owner, Key: -1})
		}
	}
	used := map[string]bool{}
	opKey := func(tx interfaces.Transaction) (ks []string) {
		for _, in := range tx.Inputs() {
			ks = append(ks, in.ReferKey())
		}
		return
	}
	n := rapid.IntRange(0, 3).Draw(t, "ntx")
	for i := 0; i < n; i++ {
		switch rapid.SampledFrom([]string{"transfer", "withdraw", "withdraw", "carry", "toX"}).Draw(t, "txKind") {
		case "carry":
			if len(carry) == 0 {
				continue
			}
			tx := carry[rapid.IntRange(0, len(carry)-1).Draw(t, "carryIdx")]
			ok := true
			for _, in := range tx.Inputs() {
				cn, have := u[in.Previous]
				if !have || used[in.ReferKey()] {
					ok = false
				}
				if have && cn.IsCoinbase && height < cn.Height+bd.n.Params.PowConfiguration.CoinbaseMaturity+1 {
					ok = false // not mature at the (possibly lower) height of the fork block
				}
			}
			for _, h := range xchain.WithdrawHashes(tx) {
				for _, h2 := range hashes {
					ok = ok && h != h2
				}
				for _, h2 := range taken { // already withdrawn again by an earlier block of this branch
					ok = ok && h != h2
				}
			}
			for _, t2 := range txs {
				ok = ok && t2.Hash() != tx.Hash()
			}
			if !ok {
				continue
			}
			for _, k := range opKey(tx) {
				used[k] = true
			}
			txs = append(txs, tx)
			kinds = append(kinds, "carry")
			fees += feeOf(tx, u)
			hashes = append(hashes, xchain.WithdrawHashes(tx)...)
		case "withdraw":
			var c *xchain.Coin
			for j := range xs {
				if !used[xs[j].Op.ReferKey()] {
					c = &xs[j]
					break
				}
			}
			if c == nil {
				continue
			}
			ver := byte(rapid.IntRange(0, 2).Draw(t, "ver"))
			var h common.Uint256
			again := false
			if len(reuse) > 0 && rapid.IntRange(0, 2).Draw(t, "again") > 0 {
				h = reuse[rapid.IntRange(0, len(reuse)-1).Draw(t, "reuseIdx")]
				again = true
			} else {
				h = bd.freshHash()
			}
			dup := false
			for _, h2 := range hashes {
				dup = dup || h2 == h
			}
			if dup {
				continue
			}
			hs := []common.Uint256{h}
			if ver != 0 && rapid.Bool().Draw(t, "twoTargets") {
				hs = append(hs, h)
			}
			tx, err := bd.fx.HonestWithdraw(xchain.WithdrawSpec{Version: ver, Hashes: hs, Coins: []xchain.Coin{*c}, Height: height,
				Keys: bd.keys, M: xchain.SigsFor(ver), To: bd.n.Keys[rapid.IntRange(1, 3).Draw(t, "to")].ProgramHash})
			if err != nil {
				t.Fatalf("harness: withdraw: %v", err)
			}
			used[c.Op.ReferKey()] = true
			txs = append(txs, tx)
			k := fmt.Sprintf("withdraw%d", ver)
			if again {
				k += "-again"
			}
			kinds = append(kinds, k)
			fees += 100
			hashes = append(hashes, h)
		default: // transfer / toX
			var c *node.Coin
			for j := range ring {
				if !used[ring[j].Op.ReferKey()] && ring[j].Value > 1000000 {
					c = &ring[j]
					if rapid.Bool().Draw(t, "skipCoin") {
						continue
					}
					break
				}
			}
			if c == nil {
				continue
			}
			fee := common.Fixed64(1000)
			part := common.Fixed64(rapid.Int64Range(1, int64(c.Value-fee)/2).Draw(t, "part"))
			to := bd.n.Keys[rapid.IntRange(0, 3).Draw(t, "to")].ProgramHash
			if rapid.IntRange(0, 2).Draw(t, "payX") == 0 {
				to = xchain.XHash(byte(rapid.IntRange(1, 2).Draw(t, "xaddr")))
			}
			outs := []node.Out{{To: to, Value: part}, {To: c.Owner, Value: c.Value - fee - part}}
			if rapid.IntRange(0, 3).Draw(t, "zeroOut") == 0 {
				outs = append(outs, node.Out{To: bd.n.Keys[2].ProgramHash, Value: 0})
			}
			tx, err := bd.n.Transfer([]node.Coin{*c}, outs, height)
			if err != nil {
				t.Fatalf("harness: transfer: %v", err)
			}
			used[c.Op.ReferKey()] = true
			txs = append(txs, tx)
			kinds = append(kinds, "transfer")
			fees += fee
		}
	}
	return
}

func feeOf(tx interfaces.Transaction, u node.UTXOSet) common.Fixed64 {
	var in, out common.Fixed64
	for _, i := range tx.Inputs() {
		in += u[i.Previous].Value
	}
	for _, o := range tx.Outputs() {
		out += o.Value
	}
	return in - out
}

func (bd *builder) block(t *rapid.T, path []*types.Block, reuse, taken []common.Uint256, carry []interfaces.Transaction) (*planned, []common.Uint256) {
	txs, kinds, fees, hashes := bd.genTxs(t, path, reuse, taken, carry)
	bd.salt++
	b, err := bd.n.BuildBlock(node.BlockSpec{Parent: path[len(path)-1], Txs: txs, Fees: fees, Salt: bd.salt,
		MinerKey: rapid.IntRange(0, 2).Draw(t, "miner")})
	if err != nil {
		t.Fatalf("harness: BuildBlock: %v", err)
	}
	return &planned{b, kinds}, hashes
}

func feed(t *rapid.T, n *node.Node, blocks []*planned) (errs []error) {
	for _, p := range blocks {
		_, _, err := n.Process(cloneBlock(t, p.b))
		errs = append(errs, err)
	}
	return
}

func firstErr(errs []error) error {
	for _, e := range errs {
		if e != nil {
			msg := e.Error()
			for x := e; ; {
				ee, ok := x.(elaerr.ELAError)
				if !ok || ee.InnerError() == nil {
					break
				}
				x = ee.InnerError()
				msg += " <- " + x.Error()
			}
			return errors.New(msg)
		}
	}
	return nil
}

func TestNodeReorgDifferential(t *testing.T) {
	rapid.Check(t, func(t *rapid.T) {
		memFirst := rapid.IntRange(0, 3).Draw(t, "memoryFirst") == 0
		tweak := func(p *config.Configuration) { p.MemoryFirst = memFirst }
		nA, keys, err := xchain.NewWithdrawNode(tweak)
		if err != nil {
			t.Fatalf("harness: node A: %v", err)
		}
		closedA := false
		defer func() {
			if !closedA {
				nA.Close()
			}
		}()
		bd := &builder{n: nA, keys: keys, fx: &xchain.Fixture{N: nA, ArbKeys: keys}}
		c := &nodeCase{MemFirst: memFirst}

		// ---- plan every block while node A's services are alive (building does not touch the chain state)
		path := []*types.Block{nA.Genesis}
		var setup []*planned
		b1, err := nA.BuildBlock(node.BlockSpec{Parent: nA.Genesis, Salt: 1})
		if err != nil {
			t.Fatalf("harness: b1: %v", err)
		}
		setup = append(setup, &planned{b1, nil})
		path = append(path, b1)
		u, _ := node.Replay(path, nA.KeyIndexOf)
		coins := u.Spendable(2, nA.Params.PowConfiguration.CoinbaseMaturity)
		if len(coins) == 0 {
			t.Fatalf("harness: no coin")
		}
		g := coins[0]
		var outs []node.Out
		const each = common.Fixed64(10 * 100000000)
		for i := 0; i < 8; i++ {
			outs = append(outs, node.Out{To: xchain.XHash(byte(1 + i%2)), Value: each})
		}
		for i := 0; i < 6; i++ {
			outs = append(outs, node.Out{To: nA.Keys[i%3].ProgramHash, Value: each})
		}
		outs = append(outs, node.Out{To: nA.Keys[0].ProgramHash, Value: g.Value - 14*each - 1000})
		fund, err := nA.Transfer([]node.Coin{g}, outs, 2)
		if err != nil {
			t.Fatalf("harness: fund: %v", err)
		}
		b2, err := nA.BuildBlock(node.BlockSpec{Parent: b1, Txs: []interfaces.Transaction{fund}, Fees: 1000, Salt: 2})
		if err != nil {
			t.Fatalf("harness: b2: %v", err)
		}
		setup = append(setup, &planned{b2, []string{"fund"}})
		path = append(path, b2)
		bd.salt = 10
		np := rapid.IntRange(0, 2).Draw(t, "nP")
		for i := 0; i < np; i++ {
			p, _ := bd.block(t, path, nil, nil, nil)
			setup = append(setup, p)
			path = append(path, p.b)
			c.Ops = append(c.Ops, fmt.Sprintf("P%d %v", i+1, p.kinds))
		}
		a := rapid.IntRange(1, 2).Draw(t, "mainLen")
		c.A = a
		var mainB, forkB []*planned
		mpath := append([]*types.Block{}, path...)
		var lostHashes []common.Uint256
		var lostTxs []interfaces.Transaction
		versionOf := map[common.Uint256]byte{}
		nonTrivial := false
		for i := 0; i < a; i++ {
			p, hs := bd.block(t, mpath, nil, nil, nil)
			mainB = append(mainB, p)
			mpath = append(mpath, p.b)
			lostHashes = append(lostHashes, hs...)
			for _, tx := range p.b.Transactions[1:] {
				lostTxs = append(lostTxs, tx)
				for _, h := range xchain.WithdrawHashes(tx) {
					versionOf[h] = tx.PayloadVersion()
				}
			}
			nonTrivial = nonTrivial || len(p.b.Transactions) > 1
			c.Ops = append(c.Ops, fmt.Sprintf("M%d %v", i+1, p.kinds))
		}
		fpath := append([]*types.Block{}, path...)
		var usedAgain []common.Uint256
		for i := 0; i < a+1; i++ {
			var reuse []common.Uint256
			for _, h := range lostHashes {
				taken := false
				for _, h2 := range usedAgain {
					taken = taken || h == h2
				}
				if !taken {
					reuse = append(reuse, h)
				}
			}
			p, hs := bd.block(t, fpath, reuse, usedAgain, lostTxs)
			usedAgain = append(usedAgain, hs...)
			forkB = append(forkB, p)
			fpath = append(fpath, p.b)
			c.Ops = append(c.Ops, fmt.Sprintf("F%d %v", i+1, p.kinds))
		}
		forkTip := forkB[len(forkB)-1].b.Hash()
		render := func() any { return c }

		// ---- node A: main branch first, then the fork (reorganisation)
		if e := firstErr(feed(t, nA, setup)); e != nil {
			t.Fatalf("harness: setup rejected on A: %v", e)
		}
		if e := firstErr(feed(t, nA, mainB)); e != nil {
			t.Fatalf("harness: main branch rejected on A: %v (%v)", e, c.Ops)
		}
		errsA := feed(t, nA, forkB)
		c.TipA = nA.Chain.GetHeight()
		reorgOK := *nA.Chain.BestChain.Hash == forkTip
		dumpA, err := TakeDump(nA.Store)
		if err != nil {
			t.Fatalf("harness: dump A: %v", err)
		}
		nA.Close()
		closedA = true

		// ---- node B: the fork first, the main branch only as side blocks
		nB, _, err := xchain.NewWithdrawNode(tweak)
		if err != nil {
			t.Fatalf("harness: node B: %v", err)
		}
		defer nB.Close()
		if e := firstErr(feed(t, nB, setup)); e != nil {
			t.Fatalf("harness: setup rejected on B: %v", e)
		}
		errsB := feed(t, nB, forkB)
		if e := firstErr(errsB); e != nil || *nB.Chain.BestChain.Hash != forkTip {
			// the fork itself is not valid on a fresh node: a generator problem, not a verdict
			vk.Class("node/fork-invalid-on-fresh-node/" + short(fmt.Sprint(e)))
			vk.Case("node/fork-invalid", false, nil, nil)
			return
		}
		_ = feed(t, nB, mainB)
		c.TipB = nB.Chain.GetHeight()
		if *nB.Chain.BestChain.Hash != forkTip {
			t.Fatalf("harness: node B left the fork after receiving the shorter branch")
		}
		dumpB, err := TakeDump(nB.Store)
		if err != nil {
			t.Fatalf("harness: dump B: %v", err)
		}

		again := false
		for _, p := range forkB {
			for _, k := range p.kinds {
				again = again || strings.HasSuffix(k, "-again") || k == "carry"
			}
		}
		if !reorgOK {
			if vk.Report(t, "C13:reorg:fork-rejected-after-rollback",
				fmt.Sprintf("a fork that a fresh node accepts was not adopted by the node that had to roll back first: %v", firstErr(errsA)), render()) {
				return
			}
		}
		if diff := Diff(dumpB, dumpA); len(diff) > 0 {
			first := diff[0]
			bucket := TopBucket(first)
			sig := fmt.Sprintf("C13:reorg-differential:%s:%s", bucket, first[:1])
			if bucket == bTx3 {
				key := first[strings.IndexByte(first, '/')+1:]
				for h, v := range versionOf {
					if fmt.Sprintf("%x", h[:]) == key {
						sig = fmt.Sprintf("C13:reorg-differential:%s:withdraw-v%d:%s", bucket, v, first[:1])
					}
				}
			}
			n := len(diff)
			if n > 6 {
				diff = diff[:6]
			}
			if vk.Report(t, sig, fmt.Sprintf("%d entries differ between the reorganised node and the node that never connected the branch: %v", n, diff), render()) {
				return
			}
		}
		class := "node/reorg"
		if again {
			class += "+reinclude"
		}
		key, _ := json.Marshal(c.Ops)
		vk.Case(class, nonTrivial, key, render)
	})
}

func short(s string) string {
	if i := strings.LastIndex(s, ":"); i >= 0 && i+1 < len(s) {
		s = s[i+1:]
	}
	if len(s) > 50 {
		s = s[:50]
	}
	return strings.TrimSpace(s)
}
