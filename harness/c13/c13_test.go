// C13 - disconnecting a block exactly undoes connecting it.
//
// Route (i), store level: a rapid state machine feeds coherent synthetic blocks
// (no signatures; every input references an output of an EARLIER block, hashes
// unique - the preconditions every real caller respects) to the real
// IChainStore.SaveBlock / RollbackBlock of an in-process node, in any LIFO
// order, with re-connection of rolled-back blocks and alternative blocks that
// include rolled-back withdrawals again.
//
// Oracles: (a) the normalised dump of the ffldb metadata after a disconnect
// equals the dump taken before the connect (per stack depth); (b) an
// independent model of the indexes (unspent, per-address utxo, tx location,
// Tx3, return-deposit, drafts) agrees with the store's query API after every
// step; (c) the same block connects again and yields the same normalised dump.
package c13

import (
	"bytes"
	"encoding/binary"
	"encoding/hex"
	"encoding/json"
	"fmt"
	"sort"
	"strings"
	"testing"

	"github.com/elastos/Elastos.ELA/blockchain"
	"github.com/elastos/Elastos.ELA/common"
	"github.com/elastos/Elastos.ELA/common/config"
	"github.com/elastos/Elastos.ELA/core"
	"github.com/elastos/Elastos.ELA/core/contract"
	"github.com/elastos/Elastos.ELA/core/contract/program"
	"github.com/elastos/Elastos.ELA/core/types"
	ctypes "github.com/elastos/Elastos.ELA/core/types/common"
	"github.com/elastos/Elastos.ELA/core/types/functions"
	"github.com/elastos/Elastos.ELA/core/types/interfaces"
	"github.com/elastos/Elastos.ELA/core/types/outputpayload"
	"github.com/elastos/Elastos.ELA/core/types/payload"
	"pgregory.net/rapid"
	"verifharness/gen"
	"verifharness/lib/vk"
	"verifharness/node"
)

func TestMain(m *testing.M) { vk.Main(m, "C13") }

// ---------------------------------------------------------------------------
// model

type coin struct {
	op     ctypes.OutPoint
	val    common.Fixed64
	owner  common.Uint168
	height uint32
}

type draftKV struct {
	key  common.Uint256
	data []byte
}

type tx3Rec struct {
	hash    common.Uint256
	version byte
}

type blk struct {
	b        *types.Block
	node     *blockchain.BlockNode
	spends   []coin
	creates  []coin
	txids    []common.Uint256
	tx3      []tx3Rec
	deposits []common.Uint256
	drafts   []draftKV
	kinds    []string
	nonXfer  bool
	spendOld bool
	shared   bool // contains a draft key shared with an earlier connected block
	after    Dump // normalised dump after the first connect
}

type machine struct {
	n      *node.Node
	stack  []*blk
	dumps  []Dump // dumps[i]: normalised dump with i synthetic blocks connected
	parked []*blk // disconnected blocks (reconnectable when their parent is the tip)

	utxo     map[ctypes.OutPoint]coin
	txHeight map[common.Uint256]uint32
	txBytes  map[common.Uint256][]byte
	txOuts   map[common.Uint256]int
	tx3      map[common.Uint256]int
	deposits map[common.Uint256]int
	drafts   map[common.Uint256][]byte
	draftRef map[common.Uint256]int

	rolledTx3      []tx3Rec
	rolledDeposits []common.Uint256
	addrs          []common.Uint168
	xaddrs         []common.Uint168
	nonce          uint64
	ops            []string
	dead           bool

	// classification
	nDisconnect, nReconnect, nDeep, nReinclude int
	ntDisconnect                               bool
	kindsSeen                                  map[string]bool
	memoryFirst                                bool
	avoidShared                                bool   // steer around the listed shared-draft-key finding
	draftStart                                 uint32 // blocks below carry payload version 0 (no draft data), from here on version 1
}

func (m *machine) log(f string, a ...any) { m.ops = append(m.ops, fmt.Sprintf(f, a...)) }

func (m *machine) render() any {
	return map[string]any{"ops": m.ops, "memoryFirst": m.memoryFirst}
}

func (m *machine) tipNode() *blockchain.BlockNode {
	if len(m.stack) == 0 {
		return m.n.Chain.BestChain // genesis node (the chain object itself is never advanced)
	}
	return m.stack[len(m.stack)-1].node
}

func (m *machine) tipBlock() *types.Block {
	if len(m.stack) == 0 {
		return m.n.Genesis
	}
	return m.stack[len(m.stack)-1].b
}

func newMachine(t *rapid.T) *machine {
	memFirst := rapid.IntRange(0, 3).Draw(t, "memoryFirst") == 0
	n, err := node.New(node.Opts{Tweak: func(p *config.Configuration) { p.MemoryFirst = memFirst }})
	if err != nil {
		t.Fatalf("harness: node.New: %v", err)
	}
	m := &machine{
		n: n, memoryFirst: memFirst, draftStart: uint32(rapid.IntRange(1, 4).Draw(t, "draftStart")),
		utxo: map[ctypes.OutPoint]coin{}, txHeight: map[common.Uint256]uint32{}, txBytes: map[common.Uint256][]byte{},
		txOuts: map[common.Uint256]int{}, tx3: map[common.Uint256]int{}, deposits: map[common.Uint256]int{},
		drafts: map[common.Uint256][]byte{}, draftRef: map[common.Uint256]int{}, kindsSeen: map[string]bool{},
	}
	m.avoidShared = vk.IsKnown("C13:proposaldraftdata:shared-hash-deleted-on-disconnect") && rapid.IntRange(0, 9).Draw(t, "avoidKnownShared") < 7
	for i := 0; i < 4; i++ {
		m.addrs = append(m.addrs, n.Keys[i].ProgramHash)
	}
	for i := 0; i < 2; i++ {
		var x common.Uint168
		x[0] = byte(contract.PrefixCrossChain)
		x[20] = byte(i + 1)
		m.xaddrs = append(m.xaddrs, x)
	}
	// genesis: the coinbase's outputs are the only spendable coins at the start
	for _, tx := range n.Genesis.Transactions {
		h := tx.Hash()
		buf := new(bytes.Buffer)
		_ = tx.Serialize(buf)
		m.txBytes[h] = buf.Bytes()
		m.txHeight[h] = 0
		if tx.TxType() == ctypes.RegisterAsset {
			continue // the unspent index skips RegisterAsset
		}
		m.txOuts[h] = len(tx.Outputs())
		for i, o := range tx.Outputs() {
			m.utxo[ctypes.OutPoint{TxID: h, Index: uint16(i)}] = coin{ctypes.OutPoint{TxID: h, Index: uint16(i)}, o.Value, o.ProgramHash, 0}
		}
	}
	d, err := TakeDump(n.Store)
	if err != nil {
		t.Fatalf("harness: dump: %v", err)
	}
	m.dumps = []Dump{d}
	return m
}

// ---------------------------------------------------------------------------
// transaction synthesis

func (m *machine) nonceAttr() *ctypes.Attribute {
	m.nonce++
	b := make([]byte, 8)
	binary.BigEndian.PutUint64(b, m.nonce)
	a := ctypes.NewAttribute(ctypes.Nonce, b)
	return &a
}

func (m *machine) freshHash(tag string) common.Uint256 {
	m.nonce++
	return common.Hash([]byte(fmt.Sprintf("%s-%d", tag, m.nonce)))
}

func (m *machine) anyAddr(t *rapid.T) common.Uint168 {
	if rapid.IntRange(0, 5).Draw(t, "toX") == 0 {
		return m.xaddrs[rapid.IntRange(0, len(m.xaddrs)-1).Draw(t, "xaddr")]
	}
	return m.addrs[rapid.IntRange(0, len(m.addrs)-1).Draw(t, "addr")]
}

func plainOut(v common.Fixed64, to common.Uint168) *ctypes.Output {
	return &ctypes.Output{AssetID: core.ELAAssetID, Value: v, ProgramHash: to, Type: ctypes.OTNone, Payload: &outputpayload.DefaultOutput{}}
}

// sortedCoins returns the model's coins created below height, deterministically ordered.
func (m *machine) sortedCoins(below uint32, used map[ctypes.OutPoint]bool) []coin {
	var cs []coin
	for _, c := range m.utxo {
		if c.height < below && !used[c.op] {
			cs = append(cs, c)
		}
	}
	sort.Slice(cs, func(i, j int) bool {
		if c := bytes.Compare(cs[i].op.TxID[:], cs[j].op.TxID[:]); c != 0 {
			return c < 0
		}
		return cs[i].op.Index < cs[j].op.Index
	})
	return cs
}

// pickInputs chooses 1..3 unused coins of earlier blocks (sometimes every
// remaining output of one transaction, sometimes the oldest, sometimes X-owned).
func (m *machine) pickInputs(t *rapid.T, height uint32, used map[ctypes.OutPoint]bool, preferX bool) []coin {
	cs := m.sortedCoins(height, used)
	if len(cs) == 0 {
		return nil
	}
	mode := rapid.IntRange(0, 4).Draw(t, "inMode")
	var out []coin
	if preferX {
		var xs []coin
		for _, c := range cs {
			if c.owner[0] == byte(contract.PrefixCrossChain) {
				xs = append(xs, c)
			}
		}
		if len(xs) > 0 {
			k := rapid.IntRange(1, min(2, len(xs))).Draw(t, "nx")
			start := rapid.IntRange(0, len(xs)-k).Draw(t, "xstart")
			out = append(out, xs[start:start+k]...)
			for _, c := range out {
				used[c.op] = true
			}
			return out
		}
	}
	switch mode {
	case 0: // all remaining outputs of one tx (the unspent entry disappears)
		c0 := cs[rapid.IntRange(0, len(cs)-1).Draw(t, "wholeTx")]
		for _, c := range cs {
			if c.op.TxID == c0.op.TxID {
				out = append(out, c)
			}
		}
		if len(out) > 6 {
			out = out[:6]
		}
	case 1: // the oldest coins
		sort.SliceStable(cs, func(i, j int) bool { return cs[i].height < cs[j].height })
		k := rapid.IntRange(1, min(3, len(cs))).Draw(t, "nold")
		out = append(out, cs[:k]...)
	default:
		k := rapid.IntRange(1, min(3, len(cs))).Draw(t, "nin")
		for i := 0; i < k; i++ {
			c := cs[rapid.IntRange(0, len(cs)-1).Draw(t, "coin")]
			if used[c.op] {
				continue
			}
			used[c.op] = true
			out = append(out, c)
		}
	}
	for _, c := range out {
		used[c.op] = true
	}
	return out
}

func inputsOf(cs []coin) []*ctypes.Input {
	ins := make([]*ctypes.Input, 0, len(cs))
	for _, c := range cs {
		ins = append(ins, &ctypes.Input{Previous: c.op, Sequence: 0})
	}
	return ins
}

// splitOutputs makes 1..4 outputs out of the inputs' value; zero-value outputs
// (which the per-address index skips) are frequent.
func (m *machine) splitOutputs(t *rapid.T, total common.Fixed64, minOuts int, x bool) []*ctypes.Output {
	k := rapid.IntRange(minOuts, 4).Draw(t, "nout")
	outs := make([]*ctypes.Output, 0, k)
	rest := total
	for i := 0; i < k; i++ {
		var v common.Fixed64
		switch rapid.IntRange(0, 4).Draw(t, "valKind") {
		case 0:
			v = 0
		case 1:
			v = rest
		default:
			if rest > 0 {
				v = common.Fixed64(rapid.Int64Range(0, int64(rest)).Draw(t, "val"))
			}
		}
		rest -= v
		to := m.anyAddr(t)
		if x && i == 0 {
			to = m.xaddrs[rapid.IntRange(0, len(m.xaddrs)-1).Draw(t, "xto")]
		}
		outs = append(outs, plainOut(v, to))
	}
	return outs
}

var genericTypes = []ctypes.TxType{
	ctypes.Record, ctypes.SideChainPow, ctypes.RegisterProducer, ctypes.CancelProducer, ctypes.UpdateProducer,
	ctypes.ReturnDepositCoin, ctypes.UpdateVersion, ctypes.RegisterCR, ctypes.UnregisterCR, ctypes.UpdateCR,
	ctypes.ReturnCRDepositCoin, ctypes.CRCAppropriation, ctypes.CRCProposalWithdraw, ctypes.CRCProposalRealWithdraw,
	ctypes.CRAssetsRectify, ctypes.CRCouncilMemberClaimNode, ctypes.DposV2ClaimReward, ctypes.DposV2ClaimRewardRealWithdraw,
	ctypes.ExchangeVotes, ctypes.Voting, ctypes.ReturnVotes, ctypes.VotesRealWithdraw, ctypes.RecordSponsor,
	ctypes.CreateNFT, ctypes.NFTDestroyFromSideChain, ctypes.ProposalResult,
}

var noIOTypes = []ctypes.TxType{
	ctypes.ActivateProducer, ctypes.IllegalProposalEvidence, ctypes.IllegalVoteEvidence, ctypes.IllegalBlockEvidence,
	ctypes.IllegalSidechainEvidence, ctypes.InactiveArbitrators, ctypes.NextTurnDPOSInfo, ctypes.RevertToPOW, ctypes.RevertToDPOS,
}

// roundTrips tells whether the node's codec reads the transaction back
// unchanged (the store re-reads transactions from block files).
func roundTrips(tx interfaces.Transaction) bool {
	buf := new(bytes.Buffer)
	if err := tx.Serialize(buf); err != nil {
		return false
	}
	raw := append([]byte{}, buf.Bytes()...)
	r := bytes.NewReader(raw)
	tx2, err := functions.GetTransactionByBytes(r)
	if err != nil {
		return false
	}
	if err := tx2.Deserialize(r); err != nil || r.Len() != 0 {
		return false
	}
	buf2 := new(bytes.Buffer)
	if err := tx2.Serialize(buf2); err != nil {
		return false
	}
	return bytes.Equal(raw, buf2.Bytes()) && tx2.Hash() == tx.Hash()
}

type txPlan struct {
	tx       interfaces.Transaction
	kind     string
	spends   []coin
	tx3      []tx3Rec
	deposits []common.Uint256
	drafts   []draftKV
	shared   bool
}

func (m *machine) data(t *rapid.T, label string) []byte {
	n := rapid.SampledFrom([]int{0, 1, 7, 40, 300}).Draw(t, label+"Len")
	b := make([]byte, n)
	m.nonce++
	seed := common.Hash([]byte(fmt.Sprintf("data-%d", m.nonce)))
	for i := range b {
		b[i] = seed[i%32] ^ byte(i)
	}
	return b
}

// sharedDraft returns the data of a draft key already stored by a connected
// block (reviews and trackings of different members may carry identical text:
// nothing in the node's checks makes opinion/message hashes unique).
func (m *machine) sharedDraft(t *rapid.T) ([]byte, bool) {
	if len(m.drafts) == 0 {
		return nil, false
	}
	keys := make([]common.Uint256, 0, len(m.drafts))
	for k := range m.drafts {
		keys = append(keys, k)
	}
	sort.Slice(keys, func(i, j int) bool { return bytes.Compare(keys[i][:], keys[j][:]) < 0 })
	k := keys[rapid.IntRange(0, len(keys)-1).Draw(t, "sharedKey")]
	return m.drafts[k], true
}

func (m *machine) genTx(t *rapid.T, height uint32, used map[ctypes.OutPoint]bool, blockDrafts map[common.Uint256]bool, allowShared bool) *txPlan {
	kind := rapid.SampledFrom([]string{
		"transfer", "transfer", "transfer9", "crossDeposit", "withdraw0", "withdraw1", "withdraw2", "withdraw2",
		"returnDeposit", "proposal", "review", "tracking", "generic", "noio",
	}).Draw(t, "kind")
	p := &txPlan{kind: kind}
	attrs := []*ctypes.Attribute{m.nonceAttr()}
	progs := []*program.Program{{Code: []byte{1, 2, 3}, Parameter: []byte{4}}}

	if kind == "noio" {
		tt := rapid.SampledFrom(noIOTypes).Draw(t, "noioType")
		spec := gen.SpecOf(tt)
		ver := spec.Versions[rapid.IntRange(0, len(spec.Versions)-1).Draw(t, "noioVer")]
		pl := gen.NewFiller(t, nil).Payload(tt, ver)
		tx := functions.CreateTransaction(ctypes.TxVersion09, tt, ver, pl, attrs, nil, nil, 0, progs)
		if !roundTrips(tx) {
			return nil
		}
		p.kind = "noio/" + spec.Name
		p.tx = tx
		return p
	}

	preferX := strings.HasPrefix(kind, "withdraw")
	p.spends = m.pickInputs(t, height, used, preferX)
	if len(p.spends) == 0 {
		return nil
	}
	var total common.Fixed64
	for _, c := range p.spends {
		total += c.val
	}
	ins := inputsOf(p.spends)
	reuseHash := func(label string, rolled []tx3Rec) (common.Uint256, bool) {
		if len(rolled) > 0 && rapid.IntRange(0, 1).Draw(t, label) == 0 {
			r := rolled[rapid.IntRange(0, len(rolled)-1).Draw(t, label+"Idx")]
			if m.tx3[r.hash] == 0 {
				return r.hash, true
			}
		}
		return common.Uint256{}, false
	}
	blockTx3 := map[common.Uint256]bool{}

	switch kind {
	case "transfer":
		p.tx = functions.CreateTransaction(ctypes.TxVersionDefault, ctypes.TransferAsset, 0, &payload.TransferAsset{}, attrs, ins,
			m.splitOutputs(t, total, 1, false), 0, progs)
	case "transfer9":
		p.tx = functions.CreateTransaction(ctypes.TxVersion09, ctypes.TransferAsset, 0, &payload.TransferAsset{}, attrs, ins,
			m.splitOutputs(t, total, 1, false), 0, progs)
	case "crossDeposit":
		outs := m.splitOutputs(t, total, 1, true)
		ver := byte(rapid.IntRange(0, 1).Draw(t, "xver"))
		if ver == payload.TransferCrossChainVersion {
			pl := &payload.TransferCrossChainAsset{CrossChainAddresses: []string{"Eaddr"}, OutputIndexes: []uint64{0}, CrossChainAmounts: []common.Fixed64{outs[0].Value}}
			p.tx = functions.CreateTransaction(ctypes.TxVersionDefault, ctypes.TransferCrossChainAsset, ver, pl, attrs, ins, outs, 0, progs)
		} else {
			outs[0].Type = ctypes.OTCrossChain
			outs[0].Payload = &outputpayload.CrossChainOutput{Version: outputpayload.CrossChainOutputVersion, TargetAddress: "Eaddr", TargetAmount: outs[0].Value, TargetData: m.data(t, "xdata")}
			p.tx = functions.CreateTransaction(ctypes.TxVersion09, ctypes.TransferCrossChainAsset, ver, &payload.TransferCrossChainAsset{}, attrs, ins, outs, 0, progs)
		}
	case "withdraw0":
		k := rapid.IntRange(1, 3).Draw(t, "nhash")
		pl := &payload.WithdrawFromSideChain{BlockHeight: height, GenesisBlockAddress: "XSide"}
		for i := 0; i < k; i++ {
			h, ok := reuseHash("reuse0", m.rolledTx3)
			if !ok || blockTx3[h] {
				h = m.freshHash("tx3")
			} else {
				m.nReinclude++
			}
			blockTx3[h] = true
			pl.SideChainTransactionHashes = append(pl.SideChainTransactionHashes, h)
			p.tx3 = append(p.tx3, tx3Rec{h, 0})
		}
		p.tx = functions.CreateTransaction(ctypes.TxVersionDefault, ctypes.WithdrawFromSideChain, payload.WithdrawFromSideChainVersion, pl, attrs, ins,
			m.splitOutputs(t, total, 1, false), 0, progs)
	case "withdraw1", "withdraw2":
		ver := byte(payload.WithdrawFromSideChainVersionV1)
		pl := &payload.WithdrawFromSideChain{}
		if kind == "withdraw2" {
			ver = payload.WithdrawFromSideChainVersionV2
			pl.Signers = []uint8{0, 1, 2}
		}
		outs := m.splitOutputs(t, total, 1, false)
		// 1..len(outs) outputs carry a withdraw payload; one side-chain tx may pay several targets (same hash)
		nw := rapid.IntRange(1, len(outs)).Draw(t, "nwithdrawOuts")
		var last common.Uint256
		for i := 0; i < nw; i++ {
			var h common.Uint256
			if i > 0 && rapid.IntRange(0, 2).Draw(t, "sameSideTx") == 0 {
				h = last
			} else if r, ok := reuseHash("reuse12", m.rolledTx3); ok {
				h = r
				m.nReinclude++
			} else {
				h = m.freshHash("tx3")
			}
			last = h
			outs[i].Type = ctypes.OTWithdrawFromSideChain
			outs[i].Payload = &outputpayload.Withdraw{Version: outputpayload.WithdrawOutputVersion, GenesisBlockAddress: "XSide",
				SideChainTransactionHash: h, TargetData: m.data(t, "wdata")}
			p.tx3 = append(p.tx3, tx3Rec{h, ver})
		}
		p.tx = functions.CreateTransaction(ctypes.TxVersion09, ctypes.WithdrawFromSideChain, ver, pl, attrs, ins, outs, 0, progs)
	case "returnDeposit":
		outs := m.splitOutputs(t, total, 1, false)
		nw := rapid.IntRange(1, len(outs)).Draw(t, "nretOuts")
		for i := 0; i < nw; i++ {
			var h common.Uint256
			if len(m.rolledDeposits) > 0 && rapid.IntRange(0, 1).Draw(t, "reuseDep") == 0 {
				h = m.rolledDeposits[rapid.IntRange(0, len(m.rolledDeposits)-1).Draw(t, "reuseDepIdx")]
				if m.deposits[h] > 0 {
					h = m.freshHash("dep")
				} else {
					m.nReinclude++
				}
			} else {
				h = m.freshHash("dep")
			}
			dup := false
			for _, d := range p.deposits {
				dup = dup || d == h
			}
			if dup {
				h = m.freshHash("dep")
			}
			outs[i].Type = ctypes.OTReturnSideChainDepositCoin
			outs[i].Payload = &outputpayload.ReturnSideChainDeposit{Version: 0, GenesisBlockAddress: "XSide", DepositTransactionHash: h}
			p.deposits = append(p.deposits, h)
		}
		ver := byte(rapid.IntRange(0, 1).Draw(t, "retVer"))
		pl := &payload.ReturnSideChainDepositCoin{}
		if ver == 1 {
			pl.Signers = []uint8{0, 1}
		}
		p.tx = functions.CreateTransaction(ctypes.TxVersion09, ctypes.ReturnSideChainDepositCoin, ver, pl, attrs, ins, outs, 0, progs)
	case "proposal", "review", "tracking":
		ver := byte(0)
		if height >= m.draftStart {
			ver = 1
		}
		var tt ctypes.TxType
		switch kind {
		case "proposal":
			tt = ctypes.CRCProposal
		case "review":
			tt = ctypes.CRCProposalReview
		default:
			tt = ctypes.CRCProposalTracking
		}
		pl := gen.NewFiller(t, nil).Payload(tt, ver)
		mk := func(label string, mayShare bool) (common.Uint256, []byte) {
			if ver == 1 && mayShare && allowShared && rapid.IntRange(0, 7).Draw(t, label+"Share") == 0 {
				if d, ok := m.sharedDraft(t); ok && len(d) > 0 {
					p.shared = true
					return common.Hash(d), d
				}
			}
			d := m.data(t, label)
			if ver == 0 {
				// without draft data the hash is free-standing; the codec does not carry the data
				return m.freshHash("draft0"), nil
			}
			return common.Hash(d), d
		}
		switch q := pl.(type) {
		case *payload.CRCProposal:
			q.DraftHash, q.DraftData = mk("draft", false) // proposal draft hashes are unique (ExistDraft)
			p.drafts = append(p.drafts, draftKV{q.DraftHash, q.DraftData})
		case *payload.CRCProposalReview:
			q.OpinionHash, q.OpinionData = mk("opinion", true)
			p.drafts = append(p.drafts, draftKV{q.OpinionHash, q.OpinionData})
		case *payload.CRCProposalTracking:
			q.SecretaryGeneralOpinionHash, q.SecretaryGeneralOpinionData = mk("sgopinion", true)
			q.MessageHash, q.MessageData = mk("message", true)
			p.drafts = append(p.drafts, draftKV{q.SecretaryGeneralOpinionHash, q.SecretaryGeneralOpinionData},
				draftKV{q.MessageHash, q.MessageData})
		}
		p.tx = functions.CreateTransaction(ctypes.TxVersion09, tt, ver, pl, attrs, ins, m.splitOutputs(t, total, 1, false), 0, progs)
		if !roundTrips(p.tx) {
			// an unusual proposal type the codec does not round-trip: use the plain shape
			return nil
		}
		// re-read the keys through the codec (version 0 drops the data)
		p.kind = fmt.Sprintf("%s/v%d", kind, ver)
	case "generic":
		tt := rapid.SampledFrom(genericTypes).Draw(t, "genericType")
		spec := gen.SpecOf(tt)
		ver := spec.Versions[rapid.IntRange(0, len(spec.Versions)-1).Draw(t, "genericVer")]
		pl := gen.NewFiller(t, nil).Payload(tt, ver)
		p.tx = functions.CreateTransaction(ctypes.TxVersion09, tt, ver, pl, attrs, ins, m.splitOutputs(t, total, 1, false), 0, progs)
		if !roundTrips(p.tx) {
			return nil
		}
		p.kind = "generic/" + spec.Name
	}
	if p.tx == nil {
		return nil
	}
	// a key appears once per block (keeps the model simple); a key that a connected block already stores
	// (identical opinion / message text, e.g. the empty text) is the "shared" class
	for _, d := range p.drafts {
		if blockDrafts[d.key] {
			return nil
		}
		if m.draftRef[d.key] > 0 {
			if !allowShared || p.kind == "proposal/v0" || p.kind == "proposal/v1" {
				return nil
			}
			p.shared = true
		}
	}
	for _, d := range p.drafts {
		blockDrafts[d.key] = true
	}
	return p
}

// ---------------------------------------------------------------------------
// block synthesis

func (m *machine) genBlock(t *rapid.T) *blk {
	parent := m.tipBlock()
	height := parent.Height + 1
	cb := m.n.NewCoinbase(height, rapid.IntRange(0, 3).Draw(t, "miner"), m.nonce)
	m.nonce++
	cb.Outputs()[0].Value = common.Fixed64(rapid.SampledFrom([]int64{0, 150000000, 1}).Draw(t, "cb0"))
	cb.Outputs()[1].Value = common.Fixed64(rapid.SampledFrom([]int64{350000000, 0, 7}).Draw(t, "cb1"))
	txs := []interfaces.Transaction{cb}
	bk := &blk{}
	used := map[ctypes.OutPoint]bool{}
	blockDrafts := map[common.Uint256]bool{}
	blockTx3 := map[common.Uint256]bool{}
	blockDeps := map[common.Uint256]bool{}
	ntx := rapid.IntRange(0, 5).Draw(t, "ntx")
	for i := 0; i < ntx; i++ {
		p := m.genTx(t, height, used, blockDrafts, !bk.shared && !m.avoidShared)
		if p == nil {
			continue
		}
		// one side-chain hash is withdrawn by at most one transaction of the active chain
		clash := false
		seenHere := map[common.Uint256]bool{}
		for _, r := range p.tx3 {
			if (blockTx3[r.hash] && !seenHere[r.hash]) || m.tx3[r.hash] > 0 {
				clash = true
			}
			seenHere[r.hash] = true
		}
		for _, d := range p.deposits {
			if blockDeps[d] || m.deposits[d] > 0 {
				clash = true
			}
		}
		if clash {
			for _, c := range p.spends {
				delete(used, c.op)
			}
			continue
		}
		for _, r := range p.tx3 {
			blockTx3[r.hash] = true
		}
		for _, d := range p.deposits {
			blockDeps[d] = true
		}
		txs = append(txs, p.tx)
		bk.spends = append(bk.spends, p.spends...)
		bk.tx3 = append(bk.tx3, p.tx3...)
		bk.deposits = append(bk.deposits, p.deposits...)
		bk.drafts = append(bk.drafts, p.drafts...)
		bk.kinds = append(bk.kinds, p.kind)
		bk.shared = bk.shared || p.shared
		if !strings.HasPrefix(p.kind, "transfer") {
			bk.nonXfer = true
		}
		for _, c := range p.spends {
			if c.height+2 <= height {
				bk.spendOld = true
			}
		}
	}
	raw := &types.Block{
		Header: ctypes.Header{Version: 0, Previous: parent.Hash(), Timestamp: parent.Timestamp + 1,
			Bits: m.n.Params.PowConfiguration.PowLimitBits, Height: height, Nonce: uint32(m.nonce)},
		Transactions: txs,
	}
	if err := m.n.Seal(raw, false); err != nil {
		t.Fatalf("harness: seal: %v", err)
	}
	// the node connects blocks that came off the wire: pass it through the codec
	buf := new(bytes.Buffer)
	if err := raw.Serialize(buf); err != nil {
		t.Fatalf("harness: block serialize: %v", err)
	}
	b := &types.Block{}
	if err := b.Deserialize(bytes.NewReader(buf.Bytes())); err != nil {
		t.Fatalf("harness: block deserialize: %v", err)
	}
	if b.Hash() != raw.Hash() {
		t.Fatalf("harness: block hash changed through the codec")
	}
	bk.b = b
	h := b.Hash()
	bk.node = blockchain.NewBlockNode(&b.Header, &h)
	bk.node.Parent = m.tipNode()
	bk.node.InMainChain = true
	// the draft entries the node will store are those of the transactions as they come out of the codec
	// (payload version 0 and some proposal types do not carry the data)
	bk.drafts = nil
	for _, tx := range b.Transactions {
		bk.drafts = append(bk.drafts, draftsOf(tx)...)
	}
	for _, tx := range b.Transactions {
		th := tx.Hash()
		bk.txids = append(bk.txids, th)
		for i, o := range tx.Outputs() {
			bk.creates = append(bk.creates, coin{ctypes.OutPoint{TxID: th, Index: uint16(i)}, o.Value, o.ProgramHash, height})
		}
	}
	return bk
}

// draftsOf lists the (key, data) pairs the save processor of tx writes.
func draftsOf(tx interfaces.Transaction) []draftKV {
	switch q := tx.Payload().(type) {
	case *payload.CRCProposal:
		if tx.TxType() == ctypes.CRCProposal {
			return []draftKV{{q.DraftHash, q.DraftData}}
		}
	case *payload.CRCProposalReview:
		return []draftKV{{q.OpinionHash, q.OpinionData}}
	case *payload.CRCProposalTracking:
		return []draftKV{{q.SecretaryGeneralOpinionHash, q.SecretaryGeneralOpinionData}, {q.MessageHash, q.MessageData}}
	}
	return nil
}

// ---------------------------------------------------------------------------
// model updates

func (m *machine) applyConnect(bk *blk) {
	for _, c := range bk.spends {
		delete(m.utxo, c.op)
	}
	for _, c := range bk.creates {
		m.utxo[c.op] = c
	}
	for _, tx := range bk.b.Transactions {
		h := tx.Hash()
		m.txHeight[h] = bk.b.Height
		buf := new(bytes.Buffer)
		_ = tx.Serialize(buf)
		m.txBytes[h] = buf.Bytes()
		m.txOuts[h] = len(tx.Outputs())
	}
	for _, r := range bk.tx3 {
		m.tx3[r.hash]++
	}
	for _, d := range bk.deposits {
		m.deposits[d]++
	}
	for _, d := range bk.drafts {
		m.draftRef[d.key]++
		m.drafts[d.key] = d.data
	}
}

func (m *machine) applyDisconnect(bk *blk) {
	for _, c := range bk.creates {
		delete(m.utxo, c.op)
	}
	for _, c := range bk.spends {
		m.utxo[c.op] = c
	}
	for _, h := range bk.txids {
		delete(m.txHeight, h)
		delete(m.txOuts, h)
	}
	for _, r := range bk.tx3 {
		if m.tx3[r.hash]--; m.tx3[r.hash] <= 0 {
			delete(m.tx3, r.hash)
		}
	}
	for _, d := range bk.deposits {
		if m.deposits[d]--; m.deposits[d] <= 0 {
			delete(m.deposits, d)
		}
	}
	for _, d := range bk.drafts {
		if m.draftRef[d.key]--; m.draftRef[d.key] <= 0 {
			delete(m.draftRef, d.key)
			delete(m.drafts, d.key)
		}
	}
}

// ---------------------------------------------------------------------------
// oracle (b): the store's query API against the model, on everything a block touches

func (m *machine) checkQueries(t *rapid.T, bk *blk, when string) bool {
	ffl := m.n.Store.GetFFLDB()
	txids := map[common.Uint256]bool{}
	owners := map[common.Uint168]bool{}
	for _, h := range bk.txids {
		txids[h] = true
	}
	for _, c := range bk.spends {
		txids[c.op.TxID] = true
		owners[c.owner] = true
	}
	for _, c := range bk.creates {
		owners[c.owner] = true
	}
	ids := make([]common.Uint256, 0, len(txids))
	for h := range txids {
		ids = append(ids, h)
	}
	sort.Slice(ids, func(i, j int) bool { return bytes.Compare(ids[i][:], ids[j][:]) < 0 })
	for _, h := range ids {
		// unspent outputs
		var want []int
		if _, active := m.txHeight[h]; active {
			for i := 0; i < m.txOuts[h]; i++ {
				if _, ok := m.utxo[ctypes.OutPoint{TxID: h, Index: uint16(i)}]; ok {
					want = append(want, i)
				}
			}
		}
		got16, err := ffl.GetUnspent(h)
		if err != nil {
			return vk.Report(t, "C13:query:GetUnspent:error", fmt.Sprintf("%s: %v (%s)", h, err, when), m.render())
		}
		got := make([]int, 0, len(got16))
		for _, x := range got16 {
			got = append(got, int(x))
		}
		sort.Ints(got)
		if fmt.Sprint(got) != fmt.Sprint(want) && !(len(got) == 0 && len(want) == 0) {
			return vk.Report(t, "C13:query:GetUnspent:"+when, fmt.Sprintf("tx %s unspent %v want %v", h, got, want), m.render())
		}
		// transaction location
		tx, height, err := ffl.GetTransaction(h)
		if wantH, active := m.txHeight[h]; active {
			if err != nil {
				return vk.Report(t, "C13:query:GetTransaction:missing:"+when, fmt.Sprintf("tx %s: %v", h, err), m.render())
			}
			buf := new(bytes.Buffer)
			_ = tx.Serialize(buf)
			if height != wantH || !bytes.Equal(buf.Bytes(), m.txBytes[h]) {
				return vk.Report(t, "C13:query:GetTransaction:content:"+when, fmt.Sprintf("tx %s height %d want %d", h, height, wantH), m.render())
			}
		} else if err == nil {
			return vk.Report(t, "C13:query:GetTransaction:stale:"+when, fmt.Sprintf("tx %s still found at height %d", h, height), m.render())
		}
	}
	os := make([]common.Uint168, 0, len(owners))
	for o := range owners {
		os = append(os, o)
	}
	sort.Slice(os, func(i, j int) bool { return bytes.Compare(os[i][:], os[j][:]) < 0 })
	for _, o := range os {
		var want []string
		for _, c := range m.utxo {
			if c.owner == o && c.val != 0 {
				want = append(want, fmt.Sprintf("%s:%d=%d", hex.EncodeToString(c.op.TxID[:]), c.op.Index, int64(c.val)))
			}
		}
		sort.Strings(want)
		oo := o
		us, err := ffl.GetUTXO(&oo)
		if err != nil {
			return vk.Report(t, "C13:query:GetUTXO:error", err.Error(), m.render())
		}
		var got []string
		for _, u := range us {
			got = append(got, fmt.Sprintf("%s:%d=%d", hex.EncodeToString(u.TxID[:]), u.Index, int64(u.Value)))
		}
		sort.Strings(got)
		if strings.Join(got, ";") != strings.Join(want, ";") {
			return vk.Report(t, "C13:query:GetUTXO:"+when, fmt.Sprintf("address %x: got %v want %v", o[:], got, want), m.render())
		}
	}
	for _, r := range bk.tx3 {
		h := r.hash
		if got, want := ffl.IsTx3Exist(&h), m.tx3[h] > 0; got != want {
			return vk.Report(t, fmt.Sprintf("C13:query:IsTx3Exist:withdraw-v%d:%s", r.version, when),
				fmt.Sprintf("side-chain tx %s recorded=%v want %v", h, got, want), m.render())
		}
	}
	for _, d := range bk.deposits {
		h := d
		if got, want := ffl.IsSideChainReturnDepositExist(&h), m.deposits[h] > 0; got != want {
			return vk.Report(t, "C13:query:IsSideChainReturnDepositExist:"+when, fmt.Sprintf("deposit %s recorded=%v want %v", h, got, want), m.render())
		}
	}
	for _, d := range bk.drafts {
		h := d.key
		data, err := ffl.GetProposalDraftDataByDraftHash(&h)
		want, exists := m.drafts[h]
		switch {
		case exists && len(want) > 0 && (err != nil || !bytes.Equal(data, want)):
			sig := "C13:query:GetProposalDraftData:lost:" + when
			if bk.shared && when == "disconnect" {
				sig = "C13:proposaldraftdata:shared-hash-deleted-on-disconnect"
			}
			return vk.Report(t, sig, fmt.Sprintf("draft %s: err=%v len=%d want len=%d", h, err, len(data), len(want)), m.render())
		case !exists && err == nil && len(data) > 0:
			return vk.Report(t, "C13:query:GetProposalDraftData:stale:"+when, fmt.Sprintf("draft %s still stored (%d bytes)", h, len(data)), m.render())
		}
	}
	return false
}

// reportDiff turns a dump difference into a verdict whose signature names the
// first differing bucket and, where attributable, the cause.
func (m *machine) reportDiff(t *rapid.T, bk *blk, diff []string, when string) bool {
	first := diff[0]
	bucket := TopBucket(first)
	sig := fmt.Sprintf("C13:%s:%s:%s", when, bucket, first[:1])
	switch bucket {
	case bTx3:
		key := first[strings.IndexByte(first, '/')+1:]
		for _, r := range bk.tx3 {
			if hex.EncodeToString(r.hash[:]) == key {
				sig = fmt.Sprintf("C13:%s:%s:withdraw-v%d:%s", when, bucket, r.version, first[:1])
			}
		}
	case bDraft:
		if bk.shared && first[0] == '-' {
			sig = "C13:proposaldraftdata:shared-hash-deleted-on-disconnect"
		}
	}
	n := len(diff)
	if n > 6 {
		diff = diff[:6]
	}
	return vk.Report(t, sig, fmt.Sprintf("%d differing entries, first: %v (block kinds %v)", n, diff, bk.kinds), m.render())
}

// ---------------------------------------------------------------------------
// actions

func (m *machine) connect(t *rapid.T, bk *blk, re bool) {
	before := m.dumps[len(m.stack)]
	_ = before
	mt := blockchain.CalcPastMedianTime(m.tipNode())
	if err := m.n.Store.SaveBlock(bk.b, bk.node, nil, mt); err != nil {
		t.Fatalf("harness: SaveBlock(%v): %v", bk.kinds, err)
	}
	m.applyConnect(bk)
	m.stack = append(m.stack, bk)
	d, err := TakeDump(m.n.Store)
	if err != nil {
		t.Fatalf("harness: dump: %v", err)
	}
	m.dumps = append(m.dumps, d)
	for _, k := range bk.kinds {
		m.kindsSeen[k] = true
	}
	if m.checkQueries(t, bk, "connect") {
		m.dead = true
		return
	}
	if re {
		if diff := Diff(bk.after, d); len(diff) > 0 {
			if m.reportDiff(t, bk, diff, "reconnect") {
				m.dead = true
			}
			return
		}
	} else {
		bk.after = d
	}
}

func (m *machine) disconnect(t *rapid.T) {
	bk := m.stack[len(m.stack)-1]
	// the node rolls back the block it re-reads from the block store
	stored, err := m.n.Store.GetFFLDB().GetBlock(bk.b.Hash())
	if err != nil {
		t.Fatalf("harness: GetBlock: %v", err)
	}
	if err := m.n.Store.RollbackBlock(stored.Block, bk.node, nil, blockchain.CalcPastMedianTime(bk.node.Parent)); err != nil {
		// an error from the real rollback of a block the store accepted is a failure to undo
		if vk.Report(t, "C13:RollbackBlock:error", fmt.Sprintf("%v (block kinds %v)", err, bk.kinds), m.render()) {
			m.dead = true
		}
		return
	}
	m.stack = m.stack[:len(m.stack)-1]
	m.dumps = m.dumps[:len(m.dumps)-1]
	m.applyDisconnect(bk)
	already := false
	for _, p := range m.parked {
		already = already || p == bk
	}
	if !already {
		m.parked = append(m.parked, bk)
	}
	m.rolledTx3 = append(m.rolledTx3, bk.tx3...)
	m.rolledDeposits = append(m.rolledDeposits, bk.deposits...)
	m.nDisconnect++
	if bk.nonXfer || bk.spendOld {
		m.ntDisconnect = true
	}
	d, err := TakeDump(m.n.Store)
	if err != nil {
		t.Fatalf("harness: dump: %v", err)
	}
	if diff := Diff(m.dumps[len(m.stack)], d); len(diff) > 0 {
		if m.reportDiff(t, bk, diff, "disconnect") {
			m.dead = true
		}
		return
	}
	if m.checkQueries(t, bk, "disconnect") {
		m.dead = true
	}
}

func (m *machine) run(t *rapid.T) {
	defer m.n.Close()
	maxDepth := 6
	actions := map[string]func(*rapid.T){
		"": func(t *rapid.T) {},
		"connect": func(t *rapid.T) {
			if m.dead {
				return
			}
			if len(m.stack) >= maxDepth {
				t.Skip()
			}
			bk := m.genBlock(t)
			m.log("connect h=%d %v", bk.b.Height, bk.kinds)
			m.connect(t, bk, false)
		},
		"disconnect": func(t *rapid.T) {
			if m.dead {
				return
			}
			if len(m.stack) == 0 {
				t.Skip()
			}
			m.log("disconnect h=%d", m.stack[len(m.stack)-1].b.Height)
			m.disconnect(t)
		},
		"disconnectMany": func(t *rapid.T) {
			if m.dead {
				return
			}
			if len(m.stack) < 2 {
				t.Skip()
			}
			k := rapid.IntRange(2, len(m.stack)).Draw(t, "depth")
			m.log("disconnect x%d from h=%d", k, m.stack[len(m.stack)-1].b.Height)
			for i := 0; i < k && !m.dead; i++ {
				m.disconnect(t)
			}
			m.nDeep++
		},
		"reconnect": func(t *rapid.T) {
			if m.dead {
				return
			}
			if len(m.stack) >= maxDepth {
				t.Skip()
			}
			tip := m.tipBlock().Hash()
			var cands []*blk
			for _, p := range m.parked {
				if p.b.Header.Previous == tip {
					cands = append(cands, p)
				}
			}
			if len(cands) == 0 {
				t.Skip()
			}
			bk := cands[rapid.IntRange(0, len(cands)-1).Draw(t, "parked")]
			// same parent => same pre-state => every input is available again; hashes it records must be free
			for _, r := range bk.tx3 {
				if m.tx3[r.hash] > 0 {
					t.Skip()
				}
			}
			for _, d := range bk.deposits {
				if m.deposits[d] > 0 {
					t.Skip()
				}
			}
			m.log("reconnect h=%d %v", bk.b.Height, bk.kinds)
			m.nReconnect++
			m.connect(t, bk, true)
		},
	}
	t.Repeat(actions)
	// drain: unwind everything that is still connected (every block gets disconnected once more)
	for len(m.stack) > 0 && !m.dead {
		m.log("drain h=%d", m.stack[len(m.stack)-1].b.Height)
		m.disconnect(t)
	}
}

func (m *machine) class() string {
	c := "plain"
	switch {
	case m.nDisconnect == 0:
		c = "no-disconnect"
	case m.nReconnect > 0 && m.nDeep > 0:
		c = "reconnect+deep"
	case m.nReconnect > 0:
		c = "reconnect"
	case m.nDeep > 0:
		c = "deep"
	}
	return c
}

func TestStoreConnectDisconnect(t *testing.T) {
	rapid.Check(t, func(t *rapid.T) {
		m := newMachine(t)
		m.run(t)
		key, _ := json.Marshal(m.ops)
		for k := range m.kindsSeen {
			if i := strings.IndexByte(k, '/'); i >= 0 && strings.HasPrefix(k, "generic") {
				k = "generic"
			} else if i >= 0 && strings.HasPrefix(k, "noio") {
				k = "noio"
			}
			vk.Class("kind/" + k)
		}
		if m.nReinclude > 0 {
			vk.Class("reinclude-rolled-back-hash")
		}
		if m.memoryFirst {
			vk.Class("txcache-off")
		}
		vk.Count("disconnects", int64(m.nDisconnect))
		vk.Count("reconnects", int64(m.nReconnect))
		vk.Case("store/"+m.class(), m.ntDisconnect, key, m.render)
	})
}
