package c13

// Normalised dump of the ffldb metadata buckets (the persistent indexes the
// property names).  "Normalised" = what an index means, not its bytes:
//
//   - unspent index (txid -> list of output indexes): the list is a set, the
//     code removes by swap-and-pop and re-adds by append => sorted; an empty
//     list == absent key.
//   - per-address utxo index (programhash -> height -> list of utxos): each
//     list sorted; an empty list == absent key; an empty address bucket ==
//     absent bucket.
//   - every other bucket (tx locations, block ids, block-hash/height index,
//     index tips, Tx3, return deposit, proposal drafts): byte-exact.
//   - excluded: the best-state row ("chainstate": carries a work sum and a
//     median time, not an index of the statement) and the block-header node
//     index ("blockheaderidx": written by BlockChain, keeps side blocks on purpose).
//
// An empty top-level bucket is the same as an absent one (TryCreateBucket
// creates the Tx3 / draft buckets lazily and nothing removes them).

import (
	"bytes"
	"encoding/hex"
	"fmt"
	"sort"
	"strings"

	"github.com/elastos/Elastos.ELA/blockchain"
	"github.com/elastos/Elastos.ELA/common"
	ctypes "github.com/elastos/Elastos.ELA/core/types/common"
	"github.com/elastos/Elastos.ELA/database"
)

// Dump maps "bucket/sub/.../hexkey" to a normalised hex value.
type Dump map[string]string

const (
	bUnspent  = "unspentbyhashidx"
	bUtxo     = "utxobyhashidx"
	bTx       = "txbyhashidx"
	bTx3      = "tx3hash"
	bDeposit  = "returnDeposithash"
	bDraft    = "proposaldraftdata"
	bIdByHash = "idbyhashidx"
	bHashByID = "hashbyididx"
	bHashIdx  = "hashidx"
	bHeightIx = "heightidx"
	bTips     = "idxtips"
)

// "ffldb-blockidx"/"ffldb-writeloc" belong to the raw block store (blocks are kept after a rollback on purpose).
var excludedTop = map[string]bool{"blockheaderidx": true, "ffldb-blockidx": true}
var excludedRootKeys = map[string]bool{"chainstate": true, "ffldb-writeloc": true}

func normUnspent(v []byte) (string, bool) {
	if len(v) == 0 {
		return "", false
	}
	if len(v)%2 != 0 {
		return "odd:" + hex.EncodeToString(v), true
	}
	idx := make([]int, 0, len(v)/2)
	for i := 0; i+1 < len(v); i += 2 {
		idx = append(idx, int(v[i])+int(v[i+1])*256)
	}
	sort.Ints(idx)
	var sb strings.Builder
	for i, x := range idx {
		if i > 0 {
			sb.WriteByte(',')
		}
		fmt.Fprintf(&sb, "%d", x)
	}
	return sb.String(), true
}

func normUtxoList(v []byte) (string, bool) {
	if len(v) == 0 {
		return "", false
	}
	r := bytes.NewReader(v)
	count, err := common.ReadVarUint(r, 0)
	if err != nil {
		return "bad:" + hex.EncodeToString(v), true
	}
	if count == 0 && r.Len() == 0 {
		return "", false
	}
	items := make([]string, 0, count)
	for i := uint64(0); i < count; i++ {
		var u ctypes.UTXO
		if err := u.Deserialize(r); err != nil {
			return "bad:" + hex.EncodeToString(v), true
		}
		items = append(items, fmt.Sprintf("%s:%d=%d", hex.EncodeToString(u.TxID[:]), u.Index, int64(u.Value)))
	}
	if r.Len() != 0 {
		return "trail:" + hex.EncodeToString(v), true
	}
	sort.Strings(items)
	return strings.Join(items, ";"), true
}

func walk(b database.Bucket, path []string, out Dump) error {
	top := ""
	if len(path) > 0 {
		top = path[0]
	}
	err := b.ForEach(func(k, v []byte) error {
		if len(path) == 0 && excludedRootKeys[string(k)] {
			return nil
		}
		key := strings.Join(append(append([]string{}, path...), hex.EncodeToString(k)), "/")
		switch {
		case top == bUnspent && len(path) == 1:
			if s, ok := normUnspent(v); ok {
				out[key] = s
			}
		case top == bUtxo && len(path) == 2:
			if s, ok := normUtxoList(v); ok {
				out[key] = s
			}
		default:
			out[key] = "x" + hex.EncodeToString(v)
		}
		return nil
	})
	if err != nil {
		return err
	}
	return b.ForEachBucket(func(k []byte) error {
		name := string(k)
		if len(path) == 0 {
			if excludedTop[name] {
				return nil
			}
		} else {
			name = hex.EncodeToString(k)
		}
		sub := b.Bucket(k)
		if sub == nil {
			return fmt.Errorf("bucket %q listed but not found", k)
		}
		return walk(sub, append(append([]string{}, path...), name), out)
	})
}

// TakeDump reads the whole metadata tree in one read transaction.
func TakeDump(store blockchain.IChainStore) (Dump, error) {
	out := Dump{}
	err := store.GetFFLDB().View(func(tx database.Tx) error {
		return walk(tx.Metadata(), nil, out)
	})
	return out, err
}

// Diff returns the sorted list of differing paths ("-path" only in a, "+path"
// only in b, "~path" different values).
func Diff(a, b Dump) []string {
	var d []string
	for k, va := range a {
		vb, ok := b[k]
		if !ok {
			d = append(d, "-"+k)
		} else if va != vb {
			d = append(d, "~"+k)
		}
	}
	for k := range b {
		if _, ok := a[k]; !ok {
			d = append(d, "+"+k)
		}
	}
	sort.Slice(d, func(i, j int) bool { return d[i][1:] < d[j][1:] || (d[i][1:] == d[j][1:] && d[i] < d[j]) })
	return d
}

// TopBucket of a diff entry ("~tx3hash/ab.." -> "tx3hash"; root keys -> "<root>").
func TopBucket(entry string) string {
	p := entry[1:]
	if i := strings.IndexByte(p, '/'); i >= 0 {
		return p[:i]
	}
	return "<root>"
}

func (d Dump) CountTop() map[string]int {
	m := map[string]int{}
	for k := range d {
		m[TopBucket(" "+k)]++
	}
	return m
}
