package c26

import (
	"fmt"
	"testing"
	"time"

	"verifharness/lib/vk"
)

// TestRegressions replays the shrunk inputs of the two defects this check found
// (and /repo fixed) as plain cases, independent of the random search.
func TestRegressions(t *testing.T) {
	sec := int64(time.Second)
	// (1) n=2, offset 0: one evaluation at 3805 s versus polling on every view boundary
	{
		keys := arbiterKeys(2)
		mock := newMock(keys)
		a := newArbiter(keys, 0, mock, 5*time.Second, 0)
		var now int64
		for v := int64(0); now < 3805*sec; v++ {
			now += refIntervalV1(v, 2) * sec
			if now > 3805*sec {
				now = 3805 * sec
			}
			a.w.ChangeViewV1(&a.off, at(now))
		}
		one := newArbiter(keys, 0, mock, 5*time.Second, 0)
		one.w.ChangeViewV1(&one.off, at(3805*sec))
		ao, ar := a.stateAt(3805 * sec)
		oo, or := one.stateAt(3805 * sec)
		info := map[string]any{"case": "n=2 offset=0 t=3805s", "incremental": []int64{int64(ao), ar}, "oneshot": []int64{int64(oo), or}}
		if ao != oo || ar != or {
			vk.Report(t, "C26:ChangeViewV1:incremental-vs-oneshot", fmt.Sprint(info), info)
			return
		}
		vk.Case("regression/v1-loop-interval", true, []byte("r1"), func() any { return info })
	}
	// (2) V0, tolerance 5 s: gated polls at 25 s and 30 s versus one gated evaluation at 30 s (both sides TryChangeView*)
	for _, v1mode := range []bool{false, true} {
		keys := arbiterKeys(3)
		mock := newMock(keys)
		a := newArbiter(keys, 0, mock, 5*time.Second, 0)
		one := newArbiter(keys, 0, mock, 5*time.Second, 0)
		sig := "C26:ChangeView:incremental-vs-oneshot"
		if v1mode {
			sig = "C26:ChangeViewV1:incremental-vs-oneshot"
			a.w.TryChangeViewV1(&a.off, at(5*sec))
			a.w.TryChangeViewV1(&a.off, at(10*sec))
			one.w.TryChangeViewV1(&one.off, at(10*sec))
		} else {
			a.w.TryChangeView(&a.off, at(25*sec))
			a.w.TryChangeView(&a.off, at(30*sec))
			one.w.TryChangeView(&one.off, at(30*sec))
		}
		info := map[string]any{"case": "gated polls exactly on boundaries", "v1": v1mode, "incremental": a.off, "oneshot": one.off}
		if a.off != one.off || !a.w.GetViewStartTime().Equal(one.w.GetViewStartTime()) {
			vk.Report(t, sig, fmt.Sprint(info), info)
			return
		}
		vk.Case("regression/gate-on-boundary", true, []byte(fmt.Sprint("r2", v1mode)), func() any { return info })
	}
}
