// C26 - the view-change schedule does not depend on how often it is evaluated.
//
// The real dpos/manager view (ChangeView / ChangeViewV1 / TryChangeView*) is
// driven through the verif-tagged shim VerifC26View with a mock arbiter set.
// Oracles:
//
//	(1) incremental == one-shot (metamorphic): polling at t1<...<tk and carrying
//	    (offset, viewStartTime) gives the state a fresh view polled once at tk has;
//	(2) reference schedule: an independent integer model of the documented
//	    interval table (5 s in the first round, 5+(1+v-n)*3*20^(v/n) s afterwards;
//	    V0: fixed sign tolerance);
//	(3) monotone in time; (4) two arbiters polling on different schedules agree
//	    at common instants (offset, on-duty arbiter).
package c26

import (
	"bytes"
	"encoding/json"
	"fmt"
	"io"
	"os"
	"path/filepath"
	"testing"
	"time"

	"github.com/elastos/Elastos.ELA/common"
	dlog "github.com/elastos/Elastos.ELA/dpos/log"
	"github.com/elastos/Elastos.ELA/dpos/manager"
	"github.com/elastos/Elastos.ELA/dpos/state"
	"pgregory.net/rapid"
	"verifharness/lib/vk"
)

func TestMain(m *testing.M) {
	// level above fatal: nothing is ever written, the directory is never created
	dlog.Init(filepath.Join(os.TempDir(), "c26-unused-log"), 255, 0, 0)
	vk.Main(m, "C26")
}

var base = time.Unix(1_700_000_000, 0)

// ---------------------------------------------------------------- mock cast

type listener struct{ calls []bool }

func (l *listener) OnViewChanged(onDuty bool) { l.calls = append(l.calls, onDuty) }

func arbiterKeys(n int) [][]byte {
	ks := make([][]byte, n)
	for i := range ks {
		k := make([]byte, 33)
		k[0] = 2
		k[1] = byte(i >> 8)
		k[2] = byte(i)
		ks[i] = k
	}
	return ks
}

// ---------------------------------------------------------------- reference

const maxU32 = int64(1<<32 - 1)

// refIntervalV1 is the documented length (seconds) of view v with n arbiters.
func refIntervalV1(v, n int64) int64 {
	if v < n {
		return 5
	}
	p := int64(1)
	for i := int64(0); i < v/n; i++ {
		p *= 20
		if p > maxU32 {
			return -1
		}
	}
	s := 5 + (1+v-n)*3*p
	if s > maxU32 {
		return -1 // outside the uint32 arithmetic of the node: not generated
	}
	return s
}

// refV1 returns offset and remainder after d nanoseconds starting at the
// beginning of view o.
func refV1(o, n int64, d int64) (int64, int64, bool) {
	for {
		iv := refIntervalV1(o, n)
		if iv < 0 {
			return 0, 0, false
		}
		ivn := iv * int64(time.Second)
		if d < ivn {
			return o, d, true
		}
		d -= ivn
		o++
	}
}

func refV0(o int64, tol int64, d int64) (int64, int64) {
	return o + d/tol, d % tol
}

// ---------------------------------------------------------------- generator

type poll struct {
	T      int64  `json:"t_ns"` // nanoseconds after the view start
	Mode   string `json:"mode"`
	Direct bool   `json:"direct"` // ChangeView* called directly (as countRejectedVote does) instead of TryChangeView*
}

type caseV struct {
	Kind   string `json:"kind"`
	N      int    `json:"n"`
	Offset uint32 `json:"offset"`
	TolS   int64  `json:"tolerance_s,omitempty"`
	Self   int    `json:"self"`
	Polls  []poll `json:"polls"`
	Second []int  `json:"second_arbiter_poll_indexes"`

	boundaryHits int
}

func (c *caseV) render() any { return c }

// genSchedule draws 1..30 non-decreasing instants.  next(state) gives the
// model's distance to the next k-th boundary so that gaps can be aimed at
// boundaries (exactly on, one nanosecond before/after) as well as at arbitrary
// nanoseconds and whole seconds.
func genSchedule(t *rapid.T, maxDur int64, toBoundary func(elapsed int64, k int) int64) ([]poll, int) {
	k := rapid.IntRange(1, 30).Draw(t, "npolls")
	var ps []poll
	var now int64
	hits := 0
	scale := []int64{int64(time.Second) * 3, int64(time.Second) * 50, int64(time.Second) * 2000, maxDur}
	for i := 0; i < k; i++ {
		var gap int64
		mode := rapid.SampledFrom([]string{"boundary", "boundary", "near", "seconds", "ns", "ns", "same"}).Draw(t, "mode")
		switch mode {
		case "boundary", "near":
			nb := rapid.IntRange(1, 4).Draw(t, "nboundaries")
			if rapid.IntRange(0, 9).Draw(t, "far") == 0 {
				nb = rapid.IntRange(5, 150).Draw(t, "nboundariesFar")
			}
			gap = toBoundary(now, nb)
			if gap < 0 {
				gap = 0
				mode = "same"
				break
			}
			if mode == "near" {
				gap += rapid.SampledFrom([]int64{-1, 1, -int64(time.Second), int64(time.Second), int64(time.Millisecond)}).Draw(t, "delta")
				if gap < 0 {
					gap = 0
				}
			} else {
				hits++
			}
		case "seconds":
			gap = int64(rapid.IntRange(0, 4000).Draw(t, "gapS")) * int64(time.Second)
		case "ns":
			gap = rapid.Int64Range(0, rapid.SampledFrom(scale).Draw(t, "scale")).Draw(t, "gapNs")
		case "same":
			gap = 0
		}
		if now+gap > maxDur {
			gap = maxDur - now
			mode = "clamped"
		}
		now += gap
		ps = append(ps, poll{T: now, Mode: mode})
	}
	return ps, hits
}

func maxDuration() int64 {
	if vk.Thorough() {
		return 100_000_000 * int64(time.Second)
	}
	return 1_000_000 * int64(time.Second)
}

func genN(t *rapid.T) int {
	if rapid.IntRange(0, 3).Draw(t, "nkind") == 0 {
		return rapid.SampledFrom([]int{1, 2, 3, 5, 12, 18, 24, 36, 72, 108}).Draw(t, "nCommon")
	}
	return rapid.IntRange(1, 108).Draw(t, "n")
}

func genOffset(t *rapid.T, n int) uint32 {
	switch rapid.IntRange(0, 5).Draw(t, "okind") {
	case 0:
		return 0
	case 1:
		return uint32(rapid.IntRange(0, n).Draw(t, "oFirst"))
	case 2: // around the end of a round
		r := rapid.IntRange(1, 5).Draw(t, "round")
		d := rapid.IntRange(-2, 2).Draw(t, "dround")
		v := r*n + d
		if v < 0 {
			v = 0
		}
		if v > 5*n {
			v = 5 * n
		}
		return uint32(v)
	default:
		return uint32(rapid.IntRange(0, 5*n).Draw(t, "o"))
	}
}

func subSchedule(t *rapid.T, k int) []int {
	var idx []int
	for i := 0; i < k-1; i++ {
		if rapid.IntRange(0, 2).Draw(t, "pick") == 0 {
			idx = append(idx, i)
		}
	}
	return append(idx, k-1)
}

// ---------------------------------------------------------------- drivers

type arbiterView struct {
	w   *manager.VerifC26View
	l   *listener
	off uint32
	pk  []byte
}

func newArbiter(keys [][]byte, self int, mock state.Arbitrators, tol time.Duration, off uint32) *arbiterView {
	l := &listener{}
	return &arbiterView{w: manager.VerifC26NewView(keys[self], tol, base, mock, l), l: l, off: off, pk: keys[self]}
}

func newMock(keys [][]byte) *state.ArbitratorsMock {
	ms := make([]state.ArbiterMember, len(keys))
	for i, k := range keys {
		ms[i] = &mockMember{pk: k}
	}
	return state.NewArbitratorsMock(ms, 0, len(keys)*2/3)
}

type mockMember struct{ pk []byte }

func (m *mockMember) GetType() state.ArbiterType          { return state.Origin }
func (m *mockMember) GetOwnerPublicKey() []byte           { return m.pk }
func (m *mockMember) GetOwnerProgramHash() common.Uint168 { return common.Uint168{} }
func (m *mockMember) GetNodePublicKey() []byte            { return m.pk }
func (m *mockMember) Clone() state.ArbiterMember          { return &mockMember{pk: m.pk} }
func (m *mockMember) IsNormal() bool                      { return true }
func (m *mockMember) Serialize(w io.Writer) error         { return nil }
func (m *mockMember) Deserialize(r io.Reader) error       { return nil }

func at(ns int64) time.Time { return base.Add(time.Duration(ns)) }

// stateOf returns (offset, elapsed-in-view) of an arbiter at instant ns.
func (a *arbiterView) stateAt(ns int64) (uint32, int64) {
	return a.off, int64(at(ns).Sub(a.w.GetViewStartTime()))
}

// ---------------------------------------------------------------- runner

type version struct {
	name     string
	fn       string // name used in signatures
	ref      func(o, n, tol, d int64) (int64, int64, bool)
	boundary func(o, n, tol, elapsed int64, k int, maxDur int64) int64
	step     func(v *arbiterView, ns int64, direct bool) bool
}

var v1 = version{
	name: "V1", fn: "ChangeViewV1",
	ref: func(o, n, tol, d int64) (int64, int64, bool) { return refV1(o, n, d) },
	boundary: func(o, n, tol, elapsed int64, k int, maxDur int64) int64 {
		off, rem, ok := refV1(o, n, elapsed)
		if !ok {
			return -1
		}
		var gap int64 = -rem
		for i := 0; i < k; i++ {
			iv := refIntervalV1(off+int64(i), n)
			if iv < 0 {
				return -1
			}
			gap += iv * int64(time.Second)
			if gap > maxDur {
				return -1
			}
		}
		return gap
	},
	step: func(v *arbiterView, ns int64, direct bool) bool {
		if direct {
			return v.w.ChangeViewV1(&v.off, at(ns))
		}
		return v.w.TryChangeViewV1(&v.off, at(ns))
	},
}

var v0 = version{
	name: "V0", fn: "ChangeView",
	ref: func(o, n, tol, d int64) (int64, int64, bool) {
		a, b := refV0(o, tol, d)
		return a, b, true
	},
	boundary: func(o, n, tol, elapsed int64, k int, maxDur int64) int64 {
		return tol*int64(k) - elapsed%tol
	},
	step: func(v *arbiterView, ns int64, direct bool) bool {
		before := v.off
		if direct {
			v.w.ChangeView(&v.off, at(ns))
		} else {
			v.w.TryChangeView(&v.off, at(ns))
		}
		return v.off != before
	},
}

func TestViewV1(t *testing.T)      { rapid.Check(t, func(t *rapid.T) { run(t, v1, false) }) }
func TestViewV1Gated(t *testing.T) { rapid.Check(t, func(t *rapid.T) { run(t, v1, true) }) }
func TestViewV0(t *testing.T)      { rapid.Check(t, func(t *rapid.T) { run(t, v0, false) }) }
func TestViewV0Gated(t *testing.T) { rapid.Check(t, func(t *rapid.T) { run(t, v0, true) }) }

func run(t *rapid.T, ver version, gated bool) {
	n := genN(t)
	o := genOffset(t, n)
	tolS := int64(5)
	// V1 hard-codes 5 s views; the gate in TryChangeViewV1 uses the configured
	// tolerance, so other tolerances only matter for the gated V1 unit and for V0.
	if (ver.name == "V0" || gated) && rapid.IntRange(0, 3).Draw(t, "otherTol") == 0 {
		tolS = int64(rapid.IntRange(1, 120).Draw(t, "tolS"))
	}
	tol := time.Duration(tolS) * time.Second
	c := &caseV{Kind: ver.name, N: n, Offset: o, TolS: tolS, Self: rapid.IntRange(0, n-1).Draw(t, "self")}
	if gated {
		c.Kind += "-gated"
	}
	maxDur := maxDuration()
	if ver.name == "V0" {
		// a few rounds past 5n: uint32 offsets never wrap
		maxDur = int64(tol) * int64(6*n+40)
	}
	c.Polls, c.boundaryHits = genSchedule(t, maxDur, func(elapsed int64, k int) int64 {
		return ver.boundary(int64(o), int64(n), int64(tol), elapsed, k, maxDur)
	})
	for i := range c.Polls {
		c.Polls[i].Direct = !gated || rapid.IntRange(0, 3).Draw(t, "direct") == 0
	}
	c.Second = subSchedule(t, len(c.Polls))

	keys := arbiterKeys(n)
	mock := newMock(keys)
	a := newArbiter(keys, c.Self, mock, tol, o)
	b := newArbiter(keys, (c.Self+1)%n, mock, tol, o)

	// reference of the evaluation discipline: a gated poll evaluates only once a
	// full tolerance has elapsed in the current view, a direct poll always does
	gOff, gStart := int64(o), int64(0)
	gateDesign := ver.name == "V1" && gated && tolS > 5
	stop := false
	report := func(sig, detail string) {
		stop = true
		vk.Report(t, sig, detail, c.render())
	}
	mismatch := func(detail string, realMatchesDiscipline bool) {
		if gateDesign && realMatchesDiscipline {
			// V1 views last 5 s in the first round but TryChangeViewV1 waits for the
			// configured tolerance: a config-dependent design inconsistency, kept apart
			report("C26:TryChangeViewV1:tolerance-longer-than-view", detail)
			return
		}
		report("C26:"+ver.fn+":incremental-vs-oneshot", detail)
	}

	prevOne, prevStart := int64(o), int64(0)
	sec := 0
	for i, p := range c.Polls {
		beforeOff, beforeStart, beforeCalls, beforeDuty := a.off, a.w.GetViewStartTime(), len(a.l.calls), a.w.IsOnDuty()
		changed := ver.step(a, p.T, p.Direct)
		gotOff, gotRem := a.stateAt(p.T)

		// model of the evaluation discipline: a gated poll evaluates once a full
		// tolerance has elapsed in the current view, a direct poll always does
		if p.Direct || p.T-gStart >= int64(tol) {
			off, rem, ok := ver.ref(gOff, int64(n), int64(tol), p.T-gStart)
			if !ok {
				t.Fatalf("harness: generated case leaves the uint32 domain")
			}
			gOff, gStart = off, p.T-rem
		}
		disciplined := int64(gotOff) == gOff && gotRem == p.T-gStart

		// (1) incremental == one-shot on the real code: a fresh view evaluated once
		// at this instant through the SAME entry point as this poll (gated polls
		// are compared with a gated single evaluation, direct with direct)
		one := newArbiter(keys, c.Self, mock, tol, o)
		ver.step(one, p.T, p.Direct)
		if sOff, sRem := one.stateAt(p.T); gotOff != sOff || gotRem != sRem {
			mismatch(fmt.Sprintf("after polls[0..%d] offset %d elapsed-in-view %dns; a single evaluation (direct=%v) at %dns gives offset %d elapsed %dns", i, gotOff, gotRem, p.Direct, p.T, sOff, sRem), disciplined)
			break
		}
		// (2) reference schedule under the evaluation discipline
		if !disciplined {
			sig := "C26:calculateOffsetTime" + ver.name + ":reference-schedule"
			if gated {
				sig = "C26:Try" + ver.fn + ":reference-gated"
			}
			report(sig, fmt.Sprintf("poll %d at %dns: offset %d elapsed-in-view %dns, reference gives offset %d elapsed %dns", i, p.T, gotOff, gotRem, gOff, p.T-gStart))
			break
		}
		// ... and a direct single evaluation equals the plain reference
		plain := newArbiter(keys, c.Self, mock, tol, o)
		ver.step(plain, p.T, true)
		oneOff, oneRem := plain.stateAt(p.T)
		if wOff, wRem, _ := ver.ref(int64(o), int64(n), int64(tol), p.T); int64(oneOff) != wOff || oneRem != wRem {
			report("C26:calculateOffsetTime"+ver.name+":reference-schedule",
				fmt.Sprintf("single evaluation at %dns: offset %d remainder %dns, documented schedule gives offset %d remainder %dns", p.T, oneOff, oneRem, wOff, wRem))
			break
		}

		// (3) monotone in time (one-shot results as a function of now)
		oneStart := p.T - oneRem
		if int64(oneOff) < prevOne || oneStart < prevStart {
			report("C26:calculateOffsetTime"+ver.name+":non-monotone",
				fmt.Sprintf("evaluation at %dns gives offset %d view start %dns, earlier evaluation gave offset %d start %dns", p.T, oneOff, oneStart, prevOne, prevStart))
			break
		}
		prevOne, prevStart = int64(oneOff), oneStart

		// wrapper behaviour: return value, start time, on-duty flag, listener
		if changed != (gotOff != beforeOff) {
			report("C26:"+ver.fn+":return-value", fmt.Sprintf("returned %v, offset %d -> %d", changed, beforeOff, gotOff))
			break
		}
		if !changed && (!a.w.GetViewStartTime().Equal(beforeStart) || len(a.l.calls) != beforeCalls || a.w.IsOnDuty() != beforeDuty) {
			report("C26:"+ver.fn+":state-touched-without-change", "view start / on-duty / listener changed although the offset did not")
			break
		}
		if changed {
			wantDuty := bytes.Equal(keys[int(gotOff)%n], a.pk)
			if a.w.IsOnDuty() != wantDuty || len(a.l.calls) != beforeCalls+1 || a.l.calls[len(a.l.calls)-1] != wantDuty {
				report("C26:"+ver.fn+":onduty-flag", fmt.Sprintf("offset %d on duty %v want %v, listener calls %d->%d", gotOff, a.w.IsOnDuty(), wantDuty, beforeCalls, len(a.l.calls)))
				break
			}
		}

		// (4) a second arbiter polling only a sub-schedule agrees at common instants
		if sec < len(c.Second) && c.Second[sec] == i {
			sec++
			ver.step(b, p.T, p.Direct)
			bOff, bRem := b.stateAt(p.T)
			if bOff != gotOff || bRem != gotRem ||
				!bytes.Equal(mock.GetNextOnDutyArbitrator(bOff), mock.GetNextOnDutyArbitrator(gotOff)) {
				mismatch(fmt.Sprintf("two arbiters disagree at %dns: offset %d elapsed %dns vs offset %d elapsed %dns", p.T, gotOff, gotRem, bOff, bRem), disciplined)
				break
			}
		}
	}
	finish(c, int64(a.off), int64(n), stop)
}

func finish(c *caseV, finalOff, n int64, stopped bool) {
	distinct := map[int64]bool{}
	for _, p := range c.Polls {
		distinct[p.T] = true
	}
	past := finalOff >= n
	multi := len(distinct) >= 2
	cl := c.Kind + "/"
	switch {
	case stopped:
		cl += "stopped-at-known-finding"
	case past && multi && int64(c.Offset) < n:
		cl += "crosses-first-round,multi-poll"
	case past && multi:
		cl += "starts-past-first-round,multi-poll"
	case past:
		cl += "past-first-round,single-instant"
	case multi:
		cl += "first-round,multi-poll"
	default:
		cl += "first-round,single-instant"
	}
	if c.boundaryHits > 0 {
		vk.Class(c.Kind + "/has-exact-boundary-poll")
	}
	if finalOff > int64(c.Offset) {
		vk.Class(c.Kind + "/offset-advanced")
	}
	if finalOff >= 2*n {
		vk.Class(c.Kind + "/reached-third-round-or-later")
	}
	if c.TolS != 5 {
		vk.Class(c.Kind + "/tolerance-not-5s")
	}
	key, _ := json.Marshal(c)
	vk.Case(cl, past && multi && !stopped, key, c.render)
}
