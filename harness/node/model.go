package node

import (
	"fmt"
	"sort"

	"github.com/elastos/Elastos.ELA/common"
	"github.com/elastos/Elastos.ELA/core/types"
	ctypes "github.com/elastos/Elastos.ELA/core/types/common"
	"github.com/elastos/Elastos.ELA/core/types/interfaces"
)

// UTXOSet is the reference ledger: outpoint -> coin.
type UTXOSet map[ctypes.OutPoint]Coin

// SpendViolation describes why a block cannot be applied to a UTXO set.
type SpendViolation struct {
	Kind string // "missing" (never created or already spent) | "double-in-block"
	Op   ctypes.OutPoint
	Tx   common.Uint256
}

func (v *SpendViolation) Error() string {
	return fmt.Sprintf("%s outpoint %s:%d in tx %s", v.Kind, v.Op.TxID.String(), v.Op.Index, v.Tx.String())
}

// Clone copies the set.
func (u UTXOSet) Clone() UTXOSet {
	c := make(UTXOSet, len(u))
	for k, v := range u {
		c[k] = v
	}
	return c
}

// Apply connects a block in the model. keyOf maps owners to ring indexes (may be nil).
func (u UTXOSet) Apply(b *types.Block, keyOf func(common.Uint168) int) error {
	spentHere := map[ctypes.OutPoint]bool{}
	// the node validates every transaction of a block against the chain state
	// BEFORE the block (no in-block chaining), so check inputs first.
	for _, tx := range b.Transactions {
		if tx.IsCoinBaseTx() {
			continue
		}
		for _, in := range tx.Inputs() {
			if spentHere[in.Previous] {
				return &SpendViolation{"double-in-block", in.Previous, tx.Hash()}
			}
			if _, ok := u[in.Previous]; !ok {
				return &SpendViolation{"missing", in.Previous, tx.Hash()}
			}
			spentHere[in.Previous] = true
		}
	}
	for op := range spentHere {
		delete(u, op)
	}
	for _, tx := range b.Transactions {
		u.addOutputs(tx, b.Height, keyOf)
	}
	return nil
}

func (u UTXOSet) addOutputs(tx interfaces.Transaction, height uint32, keyOf func(common.Uint168) int) {
	h := tx.Hash()
	for i, o := range tx.Outputs() {
		ki := -1
		if keyOf != nil {
			ki = keyOf(o.ProgramHash)
		}
		u[ctypes.OutPoint{TxID: h, Index: uint16(i)}] = Coin{
			Op: ctypes.OutPoint{TxID: h, Index: uint16(i)}, Value: o.Value, Owner: o.ProgramHash,
			KeyIdx: ki, Height: height, IsCoinbase: tx.IsCoinBaseTx(),
		}
	}
}

// Replay applies blocks[0..] from an empty set.
func Replay(blocks []*types.Block, keyOf func(common.Uint168) int) (UTXOSet, error) {
	u := UTXOSet{}
	for _, b := range blocks {
		if err := u.Apply(b, keyOf); err != nil {
			return u, fmt.Errorf("height %d: %w", b.Height, err)
		}
	}
	return u, nil
}

// Sorted returns the coins in a deterministic order (by txid, index).
func (u UTXOSet) Sorted() []Coin {
	out := make([]Coin, 0, len(u))
	for _, c := range u {
		out = append(out, c)
	}
	sort.Slice(out, func(i, j int) bool {
		if c := out[i].Op.TxID.Compare(out[j].Op.TxID); c != 0 {
			return c < 0
		}
		return out[i].Op.Index < out[j].Op.Index
	})
	return out
}

// Spendable returns ring-owned coins with value>0 that are mature at spendHeight.
func (u UTXOSet) Spendable(spendHeight uint32, maturity uint32) []Coin {
	var out []Coin
	for _, c := range u.Sorted() {
		if c.KeyIdx < 0 || c.Value <= 0 {
			continue
		}
		// node rule (checkInvalidUTXO): tipHeight - coinbaseHeight >= maturity, tip = spendHeight-1
		if c.IsCoinbase && spendHeight < c.Height+maturity+1 {
			continue
		}
		out = append(out, c)
	}
	return out
}

// Total sums all values (supply).
func (u UTXOSet) Total() common.Fixed64 {
	var t common.Fixed64
	for _, c := range u {
		t += c.Value
	}
	return t
}

// ---------------------------------------------------------------------------
// block tree model

// TreeNode is a block the harness built, with what the model knows about it.
type TreeNode struct {
	Block     *types.Block
	Hash      common.Uint256
	Parent    *TreeNode
	Height    uint32
	Valid     bool // valid in isolation given a valid parent chain (model's belief)
	Delivered bool
	Note      string
}

// Tree is the set of all blocks built in a case.
type Tree struct {
	Nodes  []*TreeNode
	ByHash map[common.Uint256]*TreeNode
}

// NewTree starts from the genesis block.
func NewTree(genesis *types.Block) *Tree {
	t := &Tree{ByHash: map[common.Uint256]*TreeNode{}}
	g := &TreeNode{Block: genesis, Hash: genesis.Hash(), Valid: true, Delivered: true}
	t.Nodes = append(t.Nodes, g)
	t.ByHash[g.Hash] = g
	return t
}

// Add registers a built block.
func (t *Tree) Add(b *types.Block, valid bool, note string) *TreeNode {
	n := &TreeNode{Block: b, Hash: b.Hash(), Height: b.Height, Valid: valid, Note: note}
	n.Parent = t.ByHash[b.Previous]
	t.Nodes = append(t.Nodes, n)
	t.ByHash[n.Hash] = n
	return n
}

// Path returns genesis..n.
func (n *TreeNode) Path() []*TreeNode {
	var p []*TreeNode
	for x := n; x != nil; x = x.Parent {
		p = append(p, x)
	}
	for i, j := 0, len(p)-1; i < j; i, j = i+1, j-1 {
		p[i], p[j] = p[j], p[i]
	}
	return p
}

// Connected: delivered with all ancestors delivered.
func (n *TreeNode) Connected() bool {
	for x := n; x != nil; x = x.Parent {
		if !x.Delivered {
			return false
		}
	}
	return true
}

// ChainValid: every block on the path is valid.
func (n *TreeNode) ChainValid() bool {
	for x := n; x != nil; x = x.Parent {
		if !x.Valid {
			return false
		}
	}
	return true
}

// Blocks returns the blocks along the path.
func (n *TreeNode) Blocks() []*types.Block {
	var bs []*types.Block
	for _, x := range n.Path() {
		bs = append(bs, x.Block)
	}
	return bs
}
