package node

import (
	"sync"

	"github.com/elastos/Elastos.ELA/core/types"
	"github.com/elastos/Elastos.ELA/events"
)

// The events package keeps a process-global callback list without unsubscribe;
// one dispatcher is registered once and forwards to the node of the current case.

var (
	evOnce sync.Once
	evMu   sync.Mutex
	evCur  *Node
)

// ChainEvent is a connect/disconnect notification recorded for oracles.
type ChainEvent struct {
	Connected bool
	Height    uint32
	Hash      [32]byte
}

func subscribeOnce() {
	evOnce.Do(func() {
		events.Subscribe(func(e *events.Event) {
			evMu.Lock()
			n := evCur
			evMu.Unlock()
			if n == nil {
				return
			}
			n.onEvent(e)
		})
	})
}

func (n *Node) activateEvents() {
	subscribeOnce()
	evMu.Lock()
	evCur = n
	evMu.Unlock()
}

func (n *Node) deactivateEvents() {
	evMu.Lock()
	if evCur == n {
		evCur = nil
	}
	evMu.Unlock()
}

// onEvent mirrors elanet/netsync/manager.go handleBlockchainEvents for the
// parts that touch the mempool and caches.
func (n *Node) onEvent(e *events.Event) {
	switch e.Type {
	case events.ETBlockProcessed:
		if n.AutoPoolCleanup {
			n.Pool.CheckAndCleanAllTransactions()
		}
	case events.ETBlockConnected:
		b, ok := e.Data.(*types.Block)
		if !ok {
			return
		}
		n.evMu.Lock()
		n.Events = append(n.Events, ChainEvent{true, b.Height, b.Hash()})
		n.evMu.Unlock()
		if n.AutoPoolCleanup {
			n.Pool.CleanSubmittedTransactions(b)
			n.Chain.UTXOCache.CleanTxCache()
		}
	case events.ETBlockDisconnected:
		b, ok := e.Data.(*types.Block)
		if !ok {
			return
		}
		n.evMu.Lock()
		n.Events = append(n.Events, ChainEvent{false, b.Height, b.Hash()})
		n.evMu.Unlock()
	}
}

// DrainEvents returns and clears the recorded connect/disconnect events.
func (n *Node) DrainEvents() []ChainEvent {
	n.evMu.Lock()
	defer n.evMu.Unlock()
	ev := n.Events
	n.Events = nil
	return ev
}
