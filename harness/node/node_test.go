package node

import (
	"testing"

	"github.com/elastos/Elastos.ELA/common"
	"github.com/elastos/Elastos.ELA/core/types/interfaces"
)

func TestSmoke(t *testing.T) {
	n, err := New(Opts{})
	if err != nil {
		t.Fatal(err)
	}
	defer n.Close()
	tree := NewTree(n.Genesis)
	tip := tree.Nodes[0]
	for i := 0; i < 5; i++ {
		b, err := n.BuildBlock(BlockSpec{Parent: tip.Block})
		if err != nil {
			t.Fatal(err)
		}
		in, orphan, err := n.Process(b)
		if err != nil || !in || orphan {
			t.Fatalf("block %d: in=%v orphan=%v err=%v", i, in, orphan, err)
		}
		tip = tree.Add(b, true, "")
		tip.Delivered = true
	}
	blocks, err := n.ActiveChain()
	if err != nil {
		t.Fatal(err)
	}
	u, err := Replay(blocks, n.KeyIndexOf)
	if err != nil {
		t.Fatal(err)
	}
	coins := u.Spendable(n.Chain.GetHeight()+1, n.Params.PowConfiguration.CoinbaseMaturity)
	t.Logf("height=%d coins=%d total=%v", n.Chain.GetHeight(), len(coins), u.Total())
	if len(coins) == 0 {
		t.Fatal("no spendable coins")
	}
	c := coins[0]
	fee := common.Fixed64(10000)
	tx, err := n.Transfer([]Coin{c}, []Out{{n.Keys[1].ProgramHash, c.Value / 2}, {n.Keys[0].ProgramHash, c.Value - c.Value/2 - fee}}, n.Chain.GetHeight()+1)
	if err != nil {
		t.Fatal(err)
	}
	if e := n.Pool.AppendToTxPool(tx); e != nil {
		t.Fatalf("mempool: %v", e)
	}
	b, err := n.BuildBlock(BlockSpec{Parent: tip.Block, Txs: []interfaces.Transaction{tx}, Fees: fee})
	if err != nil {
		t.Fatal(err)
	}
	in, _, err := n.Process(b)
	if err != nil || !in {
		t.Fatalf("tx block: %v %v", in, err)
	}
	t.Logf("pool after block: %d", n.Pool.GetTransactionCount())
}

func TestManyNodesWithReorg(t *testing.T) {
	for k := 0; k < 100; k++ {
		n, err := New(Opts{})
		if err != nil {
			t.Fatal(err)
		}
		g := n.Genesis
		// main: g-a1-a2 ; fork: g-b1-b2-b3
		prev := g
		for i := 0; i < 2; i++ {
			b, _ := n.BuildBlock(BlockSpec{Parent: prev, Salt: 1})
			if in, _, err := n.Process(b); err != nil || !in {
				t.Fatalf("a%d: %v %v", i, in, err)
			}
			prev = b
		}
		prev = g
		for i := 0; i < 3; i++ {
			b, _ := n.BuildBlock(BlockSpec{Parent: prev, Salt: 2, MinerKey: 1})
			_, _, err := n.Process(b)
			if err != nil {
				t.Fatalf("b%d: %v", i, err)
			}
			prev = b
		}
		if n.Chain.GetHeight() != 3 || *n.Chain.BestChain.Hash != prev.Hash() {
			t.Fatalf("no reorg: height %d", n.Chain.GetHeight())
		}
		ev := n.DrainEvents()
		if k == 0 {
			t.Logf("events: %d", len(ev))
		}
		n.Close()
	}
}

func TestNoGoroutineLeak(t *testing.T) {
	base := runtimeNumGoroutine()
	for k := 0; k < 20; k++ {
		n, err := New(Opts{})
		if err != nil {
			t.Fatal(err)
		}
		n.Close()
	}
	after := runtimeNumGoroutine()
	t.Logf("goroutines before %d after %d", base, after)
	if after > base+20 {
		t.Fatalf("goroutine leak: %d -> %d", base, after)
	}
}
