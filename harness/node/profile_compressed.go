package node

import (
	"math"

	"github.com/elastos/Elastos.ELA/common/config"
)

// Compressed-parameter profile: the regnet activation heights are pulled down
// into [2, 60] so that DPoS-era rules (arbiter rewards in the coinbase, the
// DPOS consensus mode, irreversibility bookkeeping, DPoS-v2 coinbase split)
// are reachable within tens of blocks.  Blocks are still delivered WITHOUT
// confirms: BlockChain.connectBlock only validates a confirm when one is
// given (`confirm != nil`), so Process(b) keeps working at every height.
//
// Use:  node.New(node.Opts{Tweak: node.Compressed(node.DefaultHeights())})
//       node.New(node.Opts{Tweak: node.CompressedDefault})
//
// Constraints learnt from the code (keep them when drawing heights):
//   * VoteStartHeight >= 1 (Committee.RollbackTo(0) never terminates);
//   * VoteStartHeight < CRCOnlyDPOSHeight < PublicDPOSHeight (arbiter hand-over
//     order: origin arbiters -> CRC only -> CRC + elected producers);
//   * RevertToPOWStartHeight >= 7: State.tryUpdateLastIrreversibleHeight
//     initialises LastIrreversibleHeight = height - 6 in uint32 arithmetic;
//   * heights of features that need extra actors (CR committee, DPoS v2,
//     record-sponsor, NFT ...) stay far away unless asked for explicitly.

// Heights is the subset of activation heights the compressed profile sets.
// A zero field keeps regnet's value (except where noted).
type Heights struct {
	VoteStart        uint32 // p.VoteStartHeight
	CRCOnlyDPOS      uint32 // p.CRCOnlyDPOSHeight (H1)
	PublicDPOS       uint32 // p.PublicDPOSHeight (H2)
	CRVotingStart    uint32 // p.CRConfiguration.CRVotingStartHeight
	CRCommitteeStart uint32 // p.CRConfiguration.CRCommitteeStartHeight
	RevertToPOWStart uint32 // p.DPoSConfiguration.RevertToPOWStartHeight
	DPoSV2Start      uint32 // p.DPoSV2StartHeight
	// EnableActivateIllegal, CheckVoteCRCount ... follow VoteStart/CRVotingStart.
}

// DefaultHeights is the parameter set the probes were run with: DPOS mode with
// the 12 regnet CRC arbiters from height 10, public DPoS from 20, the
// irreversible height live from 30 (last irreversible height = tip-6 from
// height 31 on while the node is in DPOS mode).
func DefaultHeights() Heights {
	return Heights{
		VoteStart:        2,
		CRCOnlyDPOS:      10,
		PublicDPOS:       20,
		RevertToPOWStart: 30,
	}
}

// Compressed returns an Opts.Tweak applying h.
func Compressed(h Heights) func(p *config.Configuration) {
	return func(p *config.Configuration) {
		if h.VoteStart != 0 {
			p.VoteStartHeight = h.VoteStart
			p.EnableActivateIllegalHeight = h.VoteStart
		}
		if h.CRCOnlyDPOS != 0 {
			p.CRCOnlyDPOSHeight = h.CRCOnlyDPOS
		}
		if h.PublicDPOS != 0 {
			p.PublicDPOSHeight = h.PublicDPOS
		}
		if h.CRVotingStart != 0 {
			p.CRConfiguration.CRVotingStartHeight = h.CRVotingStart
			p.CRConfiguration.RegisterCRByDIDHeight = h.CRVotingStart
			p.CRConfiguration.CheckVoteCRCountHeight = h.CRVotingStart
		}
		if h.CRCommitteeStart != 0 {
			p.CRConfiguration.CRCommitteeStartHeight = h.CRCommitteeStart
		}
		if h.RevertToPOWStart != 0 {
			p.DPoSConfiguration.RevertToPOWStartHeight = h.RevertToPOWStart
		}
		if h.DPoSV2Start != 0 {
			p.DPoSV2StartHeight = h.DPoSV2Start
		}
		// never reached by accident
		p.DPoSConfiguration.RecordSponsorStartHeight = math.MaxUint32
	}
}

// CompressedDefault is Compressed(DefaultHeights()).
func CompressedDefault(p *config.Configuration) { Compressed(DefaultHeights())(p) }
