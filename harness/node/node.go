// Package node is the in-process "mini-node": a real blockchain.BlockChain +
// ChainStore (ffldb/leveldb on tmpfs) + Arbiters + Committee + TxPool + pow
// service on regnet parameters with instant blocks, plus a harness-side block
// and transaction builder able to extend ANY known block (forks), and a UTXO
// replay model.  Nothing here draws randomness: every choice is a parameter.
package node

import (
	"bytes"
	"crypto/sha256"
	"encoding/binary"
	"errors"
	"fmt"
	"math"
	"os"
	"path/filepath"
	"sync"

	"github.com/elastos/Elastos.ELA/account"
	"github.com/elastos/Elastos.ELA/auxpow"
	"github.com/elastos/Elastos.ELA/blockchain"
	"github.com/elastos/Elastos.ELA/common"
	"github.com/elastos/Elastos.ELA/common/config"
	"github.com/elastos/Elastos.ELA/common/log"
	"github.com/elastos/Elastos.ELA/core"
	"github.com/elastos/Elastos.ELA/core/checkpoint"
	"github.com/elastos/Elastos.ELA/core/contract/program"
	"github.com/elastos/Elastos.ELA/core/transaction"
	"github.com/elastos/Elastos.ELA/core/types"
	ctypes "github.com/elastos/Elastos.ELA/core/types/common"
	"github.com/elastos/Elastos.ELA/core/types/functions"
	"github.com/elastos/Elastos.ELA/core/types/interfaces"
	"github.com/elastos/Elastos.ELA/core/types/outputpayload"
	"github.com/elastos/Elastos.ELA/core/types/payload"
	crstate "github.com/elastos/Elastos.ELA/cr/state"
	"github.com/elastos/Elastos.ELA/crypto"
	"github.com/elastos/Elastos.ELA/dpos/state"
	elaerr "github.com/elastos/Elastos.ELA/errors"
	"github.com/elastos/Elastos.ELA/mempool"
	"github.com/elastos/Elastos.ELA/p2p"
	"github.com/elastos/Elastos.ELA/pow"
)

// Opts selects the parameter profile of a node.
type Opts struct {
	// CoinbaseMaturity of the chain (regnet default is 100; harness default 1).
	CoinbaseMaturity uint32
	// NKeys is the size of the deterministic key ring (default 6). Keys[0] owns
	// the genesis coin and is the default miner.
	NKeys int
	// Tweak may adjust parameters before the node is built (activation heights...).
	Tweak func(p *config.Configuration)
	// KeepCheckRewardHeight keeps regnet's CheckRewardHeight (280000) instead of 0.
	KeepCheckRewardHeight bool
}

// Key is one deterministic standard account.
type Key struct {
	*account.Account
	Index int
}

// Node bundles the real components.
type Node struct {
	Params    *config.Configuration
	Chain     *blockchain.BlockChain
	Store     blockchain.IChainStore
	Arbiters  *state.Arbiters
	Committee *crstate.Committee
	Ckp       *checkpoint.Manager
	Pool      *mempool.TxPool
	Pow       *pow.Service
	Dir       string
	Keys      []*Key
	Genesis   *types.Block

	// AutoPoolCleanup makes block events clean the mempool/caches like netsync does (default true).
	AutoPoolCleanup bool
	Events          []ChainEvent
	evMu            sync.Mutex

	nonceCtr uint64
	closed   bool
}

var logInit bool

// DeterministicKey derives account i of the key ring (never from crypto/rand).
func DeterministicKey(i int) *Key {
	for ctr := 0; ; ctr++ {
		h := sha256.Sum256([]byte(fmt.Sprintf("verif-harness-key-%d-%d", i, ctr)))
		// valid P-256 scalar with overwhelming probability; NewAccountWithPrivateKey does not validate,
		// so make sure the scalar is non-zero and below the group order's top byte pattern.
		if h[0] == 0xff || bytes.Equal(h[:], make([]byte, 32)) {
			continue
		}
		ac, err := account.NewAccountWithPrivateKey(h[:])
		if err != nil {
			continue
		}
		return &Key{Account: ac, Index: i}
	}
}

func wireFunctions() {
	functions.GetTransactionByTxType = transaction.GetTransaction
	functions.GetTransactionByBytes = transaction.GetTransactionByBytes
	functions.CreateTransaction = transaction.CreateTransaction
	functions.GetTransactionParameters = transaction.GetTransactionparameters
}

// New builds a fresh node in a new temp directory.
func New(o Opts) (*Node, error) {
	wireFunctions()
	if !logInit {
		// a high level keeps the node quiet; the logger is process-global
		dir, _ := os.MkdirTemp("", "verif-nodelog")
		log.NewDefault(dir, 6, 0, 0)
		logInit = true
	}
	if o.NKeys <= 0 {
		o.NKeys = 6
	}
	if o.CoinbaseMaturity == 0 {
		o.CoinbaseMaturity = 1
	}
	n := &Node{}
	for i := 0; i < o.NKeys; i++ {
		n.Keys = append(n.Keys, DeterministicKey(i))
	}
	dir, err := os.MkdirTemp("", "verif-node")
	if err != nil {
		return nil, err
	}
	n.Dir = dir

	p := config.GetDefaultParams().RegNet().InstantBlock()
	p.DataDir = dir
	p.FoundationAddress = n.Keys[0].Address
	p.PowConfiguration.CoinbaseMaturity = o.CoinbaseMaturity
	if !o.KeepCheckRewardHeight {
		p.CheckRewardHeight = 0
	}
	p.MaxLogsSize = 0
	if o.Tweak != nil {
		o.Tweak(p)
	}
	p.Sterilize()
	n.Params = p
	n.Genesis = p.GenesisBlock
	config.DefaultParams = *p
	config.Parameters = p

	ckp := checkpoint.NewManager(p)
	ckp.SetDataPath(filepath.Join(dir, "checkpoints"))
	n.Ckp = ckp
	committee := crstate.NewCommittee(p, ckp)
	arbiters, err := state.NewArbitrators(p, committee, nil, nil, nil, nil, nil, nil, nil, ckp)
	if err != nil {
		return nil, fmt.Errorf("NewArbitrators: %w", err)
	}
	store, err := blockchain.NewChainStore(filepath.Join(dir, "data"), p)
	if err != nil {
		return nil, fmt.Errorf("NewChainStore: %w", err)
	}
	chain, err := blockchain.New(store, p, arbiters.State, committee, ckp)
	if err != nil {
		return nil, fmt.Errorf("blockchain.New: %w", err)
	}
	if err = chain.Init(nil); err != nil {
		return nil, fmt.Errorf("chain.Init: %w", err)
	}
	arbiters.RegisterFunction(chain.GetHeight,
		func() *common.Uint256 { return chain.GetBestBlockHash() },
		func(height uint32) (*types.Block, error) {
			hash, err := chain.GetBlockHash(height)
			if err != nil {
				return nil, err
			}
			block, err := store.GetFFLDB().GetBlock(hash)
			if err != nil {
				return nil, err
			}
			blockchain.CalculateTxsFee(block.Block)
			return block.Block, nil
		}, chain.UTXOCache.GetTxReference)
	committee.RegisterFuncitons(&crstate.CommitteeFuncsConfig{
		GetTxReference:                   chain.UTXOCache.GetTxReference,
		GetUTXO:                          store.GetFFLDB().GetUTXO,
		GetHeight:                        chain.GetHeight,
		CreateCRAppropriationTransaction: chain.CreateCRCAppropriationTransaction,
		CreateCRAssetsRectifyTransaction: chain.CreateCRAssetsRectifyTransaction,
		CreateCRRealWithdrawTransaction:  chain.CreateCRRealWithdrawTransaction,
		IsCurrent:                        func() bool { return true },
		Broadcast:                        func(msg p2p.Message) {},
		AppendToTxpool:                   func(tx interfaces.Transaction) elaerr.ELAError { return nil },
		GetCurrentArbiters:               arbiters.GetCurrentArbitratorKeys,
	})
	blockchain.DefaultLedger = &blockchain.Ledger{
		Blockchain:  chain,
		Store:       store,
		Arbitrators: arbiters,
		Committee:   committee,
	}
	n.Chain, n.Store, n.Arbiters, n.Committee = chain, store, arbiters, committee
	arbiters.State.RegisterFuncitons(&state.StateFuncsConfig{
		GetHeight:                           chain.GetHeight,
		IsCurrent:                           func() bool { return true },
		Broadcast:                           func(msg p2p.Message) {},
		AppendToTxpool:                      func(tx interfaces.Transaction) elaerr.ELAError { return nil },
		CreateDposV2RealWithdrawTransaction: chain.CreateDposV2RealWithdrawTransaction,
		CreateVotesRealWithdrawTransaction:  chain.CreateVotesRealWithdrawTransaction,
	})
	n.Pool = mempool.NewTxPool(p, ckp)
	n.Pow = pow.NewService(&pow.Config{
		PayToAddr:   n.Keys[0].Address,
		MinerInfo:   "verif",
		Chain:       chain,
		ChainParams: p,
		TxMemPool:   n.Pool,
		Arbitrators: arbiters,
	})
	n.AutoPoolCleanup = true
	n.activateEvents()
	return n, nil
}

// Close releases the database and removes the directory.
func (n *Node) Close() {
	if n.closed {
		return
	}
	n.closed = true
	n.deactivateEvents()
	func() {
		defer func() { _ = recover() }()
		n.Ckp.Close() // stops the checkpoint file-channel goroutines
	}()
	func() {
		defer func() { _ = recover() }()
		n.Store.Close()
	}()
	func() {
		// the legacy-format LevelDB handle is separate (ChainStore.CloseLeveldb); leaving it
		// open leaks ~4 MB and several goleveldb goroutines per node
		defer func() { _ = recover() }()
		if c, ok := n.Store.(interface{ CloseLeveldb() }); ok {
			c.CloseLeveldb()
		}
	}()
	_ = os.RemoveAll(n.Dir)
}

// ---------------------------------------------------------------------------
// block building

// BlockSpec describes a block to build on an arbitrary parent.
type BlockSpec struct {
	Parent    *types.Block // required
	Txs       []interfaces.Transaction
	Fees      common.Fixed64 // total fee of Txs (the caller knows the inputs)
	TimeDelta uint32         // seconds after the parent's timestamp (default 1)
	MinerKey  int            // index into Keys (default 0)
	// MutateCoinbase, if set, is applied after the honest rewards were assigned
	// (used to build blocks that must fail on connect).
	MutateCoinbase func(cb interfaces.Transaction)
	// NoSolve leaves the proof of work unsolved.
	NoSolve bool
	// Salt diversifies the coinbase nonce attribute so that two otherwise
	// identical blocks on the same parent get different hashes.
	Salt uint64
}

// NewCoinbase mirrors pow.Service.CreateCoinbaseTx with a deterministic nonce.
func (n *Node) NewCoinbase(height uint32, minerKey int, salt uint64) interfaces.Transaction {
	crRewardAddr := n.Params.FoundationProgramHash
	if height >= n.Params.CRConfiguration.CRCommitteeStartHeight {
		crRewardAddr = n.Params.CRConfiguration.CRAssetsProgramHash
	}
	n.nonceCtr++
	nonce := make([]byte, 8)
	binary.BigEndian.PutUint64(nonce, salt^(n.nonceCtr*0x9E3779B97F4A7C15))
	attr := ctypes.NewAttribute(ctypes.Nonce, nonce)
	return functions.CreateTransaction(
		n.Pow.GetDefaultTxVersion(height),
		ctypes.CoinBase,
		payload.CoinBaseVersion,
		&payload.CoinBase{Content: []byte("verif")},
		[]*ctypes.Attribute{&attr},
		[]*ctypes.Input{{Previous: ctypes.OutPoint{TxID: common.EmptyHash, Index: math.MaxUint16}, Sequence: math.MaxUint32}},
		[]*ctypes.Output{
			{AssetID: core.ELAAssetID, Value: 0, ProgramHash: *crRewardAddr, Type: ctypes.OTNone, Payload: &outputpayload.DefaultOutput{}},
			{AssetID: core.ELAAssetID, Value: 0, ProgramHash: n.Keys[minerKey].ProgramHash, Type: ctypes.OTNone, Payload: &outputpayload.DefaultOutput{}},
		},
		height,
		[]*program.Program{},
	)
}

// BuildBlock assembles, rewards and solves a block on spec.Parent.
func (n *Node) BuildBlock(spec BlockSpec) (*types.Block, error) {
	if spec.Parent == nil {
		return nil, errors.New("harness: BuildBlock without parent")
	}
	height := spec.Parent.Height + 1
	td := spec.TimeDelta
	if td == 0 {
		td = 1
	}
	parentHash := spec.Parent.Hash()
	cb := n.NewCoinbase(height, spec.MinerKey, spec.Salt)
	b := &types.Block{
		Header: ctypes.Header{
			Version:   0,
			Previous:  parentHash,
			Timestamp: spec.Parent.Timestamp + td,
			Bits:      n.Params.PowConfiguration.PowLimitBits,
			Height:    height,
		},
		Transactions: append([]interfaces.Transaction{cb}, spec.Txs...),
	}
	total := spec.Fees + n.Params.GetBlockReward(height)
	if err := n.Pow.AssignCoinbaseTxRewards(b, total); err != nil {
		return nil, fmt.Errorf("harness: AssignCoinbaseTxRewards: %w", err)
	}
	if spec.MutateCoinbase != nil {
		spec.MutateCoinbase(b.Transactions[0])
	}
	if err := n.Seal(b, !spec.NoSolve); err != nil {
		return nil, err
	}
	return b, nil
}

// Seal recomputes the merkle root and (optionally) solves the proof of work.
func (n *Node) Seal(b *types.Block, solve bool) error {
	hashes := make([]common.Uint256, 0, len(b.Transactions))
	for _, tx := range b.Transactions {
		hashes = append(hashes, tx.Hash())
	}
	root, err := crypto.ComputeRoot(hashes)
	if err != nil {
		return fmt.Errorf("harness: ComputeRoot: %w", err)
	}
	b.Header.MerkleRoot = root
	if solve {
		Solve(b, n.Params)
	}
	return nil
}

// Solve attaches a merged-mining proof whose parent header meets the target.
func Solve(b *types.Block, p *config.Configuration) {
	ap := auxpow.GenerateAuxPow(b.Header.Hash())
	ap.ParBlockHeader.Timestamp = b.Header.Timestamp // not the wall clock
	target := blockchain.CompactToBig(b.Header.Bits)
	for i := uint32(0); ; i++ {
		ap.ParBlockHeader.Nonce = i
		h := ap.ParBlockHeader.Hash()
		if blockchain.HashToBig(&h).Cmp(target) <= 0 {
			break
		}
	}
	b.Header.AuxPow = *ap
}

// Process hands a block to the node exactly as a peer/miner would.
func (n *Node) Process(b *types.Block) (inMain, orphan bool, err error) {
	return n.Chain.ProcessBlock(b, nil)
}

// Tip returns the active tip block.
func (n *Node) Tip() (*types.Block, error) {
	return n.Chain.GetBlockByHash(*n.Chain.BestChain.Hash)
}

// ActiveChain returns blocks 0..tip of the node's reported active chain.
func (n *Node) ActiveChain() ([]*types.Block, error) {
	h := n.Chain.GetHeight()
	out := make([]*types.Block, 0, h+1)
	for i := uint32(0); i <= h; i++ {
		hash, err := n.Chain.GetBlockHash(i)
		if err != nil {
			return nil, fmt.Errorf("GetBlockHash(%d): %w", i, err)
		}
		b, err := n.Chain.GetBlockByHash(hash)
		if err != nil {
			return nil, fmt.Errorf("GetBlockByHash(%d): %w", i, err)
		}
		out = append(out, b)
	}
	return out, nil
}

// ---------------------------------------------------------------------------
// transactions

// Coin is an unspent output the harness knows about.
type Coin struct {
	Op     ctypes.OutPoint
	Value  common.Fixed64
	Owner  common.Uint168
	KeyIdx int // index into Keys, -1 if not a ring key
	Height uint32
	IsCoinbase bool
}

// Out is a payment target.
type Out struct {
	To    common.Uint168
	Value common.Fixed64
}

// TxVersionAt mirrors the node's default tx version for a height.
func (n *Node) TxVersionAt(height uint32) ctypes.TransactionVersion {
	return n.Pow.GetDefaultTxVersion(height)
}

// Transfer builds and signs a TransferAsset spending coins (all owned by ring keys).
func (n *Node) Transfer(coins []Coin, outs []Out, atHeight uint32) (interfaces.Transaction, error) {
	ins := make([]*ctypes.Input, 0, len(coins))
	for _, c := range coins {
		ins = append(ins, &ctypes.Input{Previous: c.Op, Sequence: 0})
	}
	os := make([]*ctypes.Output, 0, len(outs))
	for _, o := range outs {
		os = append(os, &ctypes.Output{AssetID: core.ELAAssetID, Value: o.Value, ProgramHash: o.To,
			Type: ctypes.OTNone, Payload: &outputpayload.DefaultOutput{}})
	}
	tx := functions.CreateTransaction(n.TxVersionAt(atHeight), ctypes.TransferAsset, 0, &payload.TransferAsset{},
		[]*ctypes.Attribute{}, ins, os, 0, []*program.Program{})
	if err := n.SignStandard(tx, coins); err != nil {
		return nil, err
	}
	return tx, nil
}

// SignStandard attaches one standard program per distinct owner of coins.
func (n *Node) SignStandard(tx interfaces.Transaction, coins []Coin) error {
	buf := new(bytes.Buffer)
	if err := tx.SerializeUnsigned(buf); err != nil {
		return err
	}
	seen := map[int]bool{}
	var progs []*program.Program
	for _, c := range coins {
		if c.KeyIdx < 0 {
			return fmt.Errorf("harness: coin %v not owned by a ring key", c.Op)
		}
		if seen[c.KeyIdx] {
			continue
		}
		seen[c.KeyIdx] = true
		k := n.Keys[c.KeyIdx]
		sig, err := crypto.Sign(k.PrivKey(), buf.Bytes())
		if err != nil {
			return err
		}
		param := append([]byte{byte(len(sig))}, sig...)
		progs = append(progs, &program.Program{Code: k.RedeemScript, Parameter: param})
	}
	tx.SetPrograms(progs)
	return nil
}

// KeyIndexOf returns the ring index owning a program hash, or -1.
func (n *Node) KeyIndexOf(h common.Uint168) int {
	for i, k := range n.Keys {
		if k.ProgramHash.IsEqual(h) {
			return i
		}
	}
	return -1
}
