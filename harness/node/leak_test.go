package node

import (
	"runtime"
	"time"
)

func runtimeNumGoroutine() int {
	time.Sleep(200 * time.Millisecond)
	return runtime.NumGoroutine()
}
