package c24

import (
	"bytes"
	"encoding/hex"
	"encoding/json"
	"fmt"
	"math/rand"
	"sort"
	"sync"
	"sync/atomic"
	"testing"

	"github.com/elastos/Elastos.ELA/common"
	"github.com/elastos/Elastos.ELA/core/types"
	"pgregory.net/rapid"
	"verifharness/lib/vk"
)

// nextTurn drives the real UpdateNextArbitrators (CRC arbiters from the
// configuration, DPoS v1 producers with the random candidate) on one instance
// and returns the next arbiters / candidates / CRC arbiters as hex node keys.
func nextTurn(in *instance, height uint32) (arb, cand, crc []string, err error) {
	if err = in.a.UpdateNextArbitrators(height, height); err != nil {
		return
	}
	in.a.History.Commit(height)
	a, c, r := in.a.VerifC24NextTurn()
	h := func(bs [][]byte) []string {
		out := make([]string, len(bs))
		for i, b := range bs {
			out[i] = hex.EncodeToString(b)
		}
		return out
	}
	return h(a), h(c), h(r), nil
}

func prepareNext(in *instance) {
	p := in.params
	p.PublicDPOSHeight = 1
	p.CRCOnlyDPOSHeight = 1
	p.CRConfiguration.CRCommitteeStartHeight = 1
	p.CRConfiguration.CRClaimDPOSNodeStartHeight = 3_000_000_000
	p.CRConfiguration.ChangeCommitteeNewCRHeight = 3_000_000_000
}

// refNext: CRC node keys from the configuration plus the first N producers of
// the order with the random candidate, sorted by node key; candidates are the
// following CandidatesCount producers in order.
func refNext(w *worldSpec, order []int) (arb, cand []string) {
	var keys [][]byte
	for _, k := range w.CRC {
		keys = append(keys, pk(k))
	}
	for _, x := range order[:w.Normal] {
		keys = append(keys, pk(w.Producers[x].Node))
	}
	sort.Slice(keys, func(i, j int) bool { return bytes.Compare(keys[i], keys[j]) < 0 })
	for _, k := range keys {
		arb = append(arb, hex.EncodeToString(k))
	}
	for i := w.Normal; i < len(order) && i < w.Normal+w.Candidates; i++ {
		cand = append(cand, hex.EncodeToString(pk(w.Producers[order[i]].Node)))
	}
	return
}

func TestNextTurn(t *testing.T) {
	rapid.Check(t, func(t *rapid.T) {
		w := genWorld(t, false, 40)
		w.Unclaimed = 0
		in := build(t, w, seq(len(w.Producers)))
		in2 := build(t, w, w.InsertOrder)
		prepareNext(in)
		prepareNext(in2)
		st := &randState{}
		order, ok := refWithRandom(w, st, w.Height, in.prev.Hash(), in.params.DPoSConfiguration.RandomCandidatePeriod)

		var arb1, cand1, crc1, arb2, cand2, crc2 []string
		var err1, err2 error
		d1 := guarded(w.GlobalSeed, func() { arb1, cand1, crc1, err1 = nextTurn(in, w.Height) })
		d2 := guarded(^w.GlobalSeed, func() { arb2, cand2, crc2, err2 = nextTurn(in2, w.Height) })
		if d1 || d2 {
			if !vk.Report(t, "C24:UpdateNextArbitrators"+sigGlobal, "the process-global math/rand source was reseeded or drawn from", w) {
				return
			}
		}
		if (err1 == nil) != (err2 == nil) || !equal(arb1, arb2) || !equal(cand1, cand2) || !equal(crc1, crc2) {
			if !vk.Report(t, "C24:UpdateNextArbitrators:not-a-function-of-chain-data",
				fmt.Sprintf("two instances built from the same data differ: arbiters %v / %v candidates %v / %v errors %v / %v",
					short(arb1), short(arb2), short(cand1), short(cand2), err1, err2), w) {
				return
			}
		}
		cl := "next/"
		nt := false
		switch {
		case err1 != nil:
			cl += "error"
		case !ok || len(order) < w.Normal:
			cl += "insufficient-producers"
		default:
			cl += "elected"
			wantArb, wantCand := refNext(w, order)
			if !equal(arb1, wantArb) || !equal(cand1, wantCand) {
				if !vk.Report(t, "C24:UpdateNextArbitrators:differs-from-local-prng-reference",
					fmt.Sprintf("arbiters %v want %v; candidates %v want %v", short(arb1), short(wantArb), short(cand1), short(wantCand)), w) {
					return
				}
			}
			nt = len(order)-(w.Normal-1) >= 2 && w.Candidates >= 1
		}
		key, _ := json.Marshal(w)
		vk.Case(cl, nt, key, func() any { return w })
	})
}

// TestStress repeats the candidate draw and the producer order with the random
// candidate while other goroutines hammer the process-global source (as
// treap.Put, addrmgr and the p2p server do in the node).
func TestStress(t *testing.T) {
	rapid.Check(t, func(t *rapid.T) {
		w := genWorld(t, false, 24)
		w.Unclaimed = 0
		voted := refSorted(w)
		in := build(t, w, seq(len(w.Producers)))
		want, wantOK := refCandidateIndex(w, in.prev.Hash(), 0, len(voted))
		stRef := &randState{}
		wantOrder, okOrder := refWithRandom(w, stRef, w.Height, in.prev.Hash(), in.params.DPoSConfiguration.RandomCandidatePeriod)

		var stop atomic.Bool
		var wg sync.WaitGroup
		for g := 0; g < 15; g++ {
			wg.Add(1)
			go func() {
				defer wg.Done()
				for !stop.Load() {
					rand.Int()
				}
			}()
		}
		bad := ""
		for i := 0; i < 40 && bad == ""; i++ {
			got, err := in.a.VerifC24CandidateIndexAtRandom(w.Height, 0, len(voted))
			if (err == nil) != wantOK || (wantOK && got != want) {
				bad = fmt.Sprintf("iteration %d: candidate index %d (err %v), chain data alone give %d", i, got, err, want)
				break
			}
			fresh := build(t, w, w.InsertOrder)
			fresh.a.RegisterFunction(func() uint32 { return w.Height - 1 }, func() *common.Uint256 { h := in.prev.Hash(); return &h },
				func(uint32) (*types.Block, error) { return in.prev, nil }, nil)
			ps, err := fresh.a.VerifC24SortedProducersWithRandom(w.Height, 0)
			if (err == nil) != okOrder || (okOrder && !equal(owners(ps), ownersOf(w, wantOrder))) {
				bad = fmt.Sprintf("iteration %d: producer order %v, chain data alone give %v", i, short(owners(ps)), short(ownersOf(w, wantOrder)))
			}
		}
		stop.Store(true)
		wg.Wait()
		if bad != "" {
			if !vk.Report(t, "C24:stress:result-changes-under-concurrent-global-draws", "15 goroutines drawing from the global source: "+bad, w) {
				return
			}
		}
		count := len(voted) - (w.Normal - 1)
		key, _ := json.Marshal(w)
		vk.Case("stress/concurrent-global-draws", wantOK && count >= 2 && w.Candidates >= 1, key, func() any { return w })
	})
}
