// C24 - consensus decisions do not depend on scheduling or process-local randomness.
//
// Entry points (through verif-tagged shims of dpos/state): getCandidateIndexAtRandom,
// getSortedProducers, getSortedProducersDposV2, getSortedProducersWithRandom,
// getRandomDposV2Producers and UpdateNextArbitrators on real state.Arbiters
// populated with generated producers.
//
// Oracles (all deterministic):
//
//	(1) reference: an independent re-implementation that draws from a LOCAL
//	    rand.New(rand.NewSource(seed)) with the seed taken from the previous
//	    block's hash, and sorts with a total order;
//	(2) global PRNG untouched: the harness seeds the process-global source with
//	    K, calls the function, then checks that the next global draw is the first
//	    value of rand.New(rand.NewSource(K)) - any reseed of / draw from the
//	    process-global source is detected without needing a lucky interleaving;
//	(3) purity: repeated calls and a second instance built from the same chain
//	    data (maps filled in another order) give the same result;
//	(4) (stress unit) the same call while other goroutines hammer the global source.
package c24

import (
	"bytes"
	"encoding/hex"
	"encoding/json"
	"fmt"
	"math"
	"math/rand"
	"os"
	"path/filepath"
	"sort"
	"testing"

	"github.com/elastos/Elastos.ELA/common"
	"github.com/elastos/Elastos.ELA/common/config"
	elalog "github.com/elastos/Elastos.ELA/common/log"
	"github.com/elastos/Elastos.ELA/core/checkpoint"
	"github.com/elastos/Elastos.ELA/core/types"
	ctypes "github.com/elastos/Elastos.ELA/core/types/common"
	"github.com/elastos/Elastos.ELA/core/types/payload"
	crstate "github.com/elastos/Elastos.ELA/cr/state"
	"github.com/elastos/Elastos.ELA/dpos/state"
	"pgregory.net/rapid"
	"verifharness/gen"
	"verifharness/lib/vk"
)

func TestMain(m *testing.M) {
	// level above fatal: nothing is ever written, no file is created
	elalog.NewDefault(filepath.Join(os.TempDir(), "c24-unused-log"), 255, 0, 0)
	vk.Main(m, "C24")
}

// ---------------------------------------------------------------- world

type producerSpec struct {
	Key    int    `json:"key"`   // owner key seed
	Node   int    `json:"node"`  // node key seed
	Votes  int64  `json:"votes"` // DPoS v1 votes
	State  string `json:"state"`
	V2     []v2   `json:"v2_votes,omitempty"`
	rights float64
}

type v2 struct {
	Staker int    `json:"staker"`
	Votes  int64  `json:"votes"`
	Lock   uint32 `json:"lock_blocks"`
}

type worldSpec struct {
	Normal      int            `json:"normal_arbitrators_count"`
	Candidates  int            `json:"candidates_count"`
	CRC         []int          `json:"crc_arbiter_keys"`
	Producers   []producerSpec `json:"producers"`
	HeaderNonce uint32         `json:"prev_block_nonce"`
	HeaderTime  uint32         `json:"prev_block_time"`
	Height      uint32         `json:"height"`
	Unclaimed   int            `json:"unclaimed"`
	InsertOrder []int          `json:"second_instance_insert_order"`
	GlobalSeed  int64          `json:"global_seed_K"`
}

const keyBase = 5000

func pk(seed int) []byte { return gen.KeyFromSeed(uint64(keyBase + seed)).PK }

func ownerHash(t fataler, ownerPK []byte) common.Uint168 {
	h, err := state.GetOwnerKeyStandardProgramHash(ownerPK)
	if err != nil {
		t.Fatalf("harness: owner hash: %v", err)
	}
	return *h
}

type fataler interface {
	Fatalf(string, ...any)
}

func genVotes(t *rapid.T, label string) int64 {
	switch rapid.IntRange(0, 3).Draw(t, label+"kind") {
	case 0: // ties
		return rapid.SampledFrom([]int64{1, 2, 3, 100000000, 500000000000}).Draw(t, label+"tie")
	case 1:
		return rapid.Int64Range(1, 50).Draw(t, label+"small")
	}
	return rapid.Int64Range(1, 3_000_000_00000000).Draw(t, label+"any")
}

func genWorld(t *rapid.T, v2mode bool, maxProducers int) *worldSpec {
	w := &worldSpec{}
	w.Normal = rapid.IntRange(1, 8).Draw(t, "normal")
	if rapid.IntRange(0, 4).Draw(t, "normalBig") == 0 {
		w.Normal = rapid.IntRange(9, 24).Draw(t, "normalN")
	}
	w.Candidates = rapid.SampledFrom([]int{0, 1, 2, 5, 72}).Draw(t, "candidates")
	ncrc := rapid.IntRange(0, 4).Draw(t, "ncrc")
	for i := 0; i < ncrc; i++ {
		w.CRC = append(w.CRC, 900+i)
	}
	np := rapid.IntRange(2, maxProducers).Draw(t, "nproducers")
	if rapid.IntRange(0, 2).Draw(t, "enough") != 0 && np < w.Normal+2 {
		np = w.Normal + 2 + rapid.IntRange(0, 6).Draw(t, "extra")
		if np > maxProducers {
			np = maxProducers
		}
	}
	for i := 0; i < np; i++ {
		p := producerSpec{Key: i, Node: 300 + i, State: "Active"}
		p.Votes = genVotes(t, "v.")
		if rapid.IntRange(0, 11).Draw(t, "zeroVotes") == 0 {
			p.Votes = 0
		}
		if v2mode {
			nv := rapid.SampledFrom([]int{1, 1, 2, 3, 0}).Draw(t, "nv2")
			for j := 0; j < nv; j++ {
				p.V2 = append(p.V2, v2{
					Staker: rapid.IntRange(0, 5).Draw(t, "staker"),
					Votes:  genVotes(t, "v2."),
					Lock:   rapid.SampledFrom([]uint32{7200, 7201, 72000, 720000, 100000}).Draw(t, "lock"),
				})
			}
		}
		w.Producers = append(w.Producers, p)
	}
	w.HeaderNonce = rapid.Uint32().Draw(t, "nonce")
	w.HeaderTime = rapid.Uint32().Draw(t, "time")
	w.Height = uint32(rapid.IntRange(2, 2_000_000).Draw(t, "height"))
	w.InsertOrder = rapid.Permutation(seq(np)).Draw(t, "order")
	w.GlobalSeed = rapid.Int64().Draw(t, "K")
	return w
}

func seq(n int) []int {
	s := make([]int, n)
	for i := range s {
		s[i] = i
	}
	return s
}

func v2Rights(p *producerSpec) float64 {
	// sum over stakers of sum over votes of Fixed64(votes*log10(lock/7200*10))
	var total float64
	for _, v := range p.V2 {
		w := math.Log10(float64(v.Lock) / 7200 * 10)
		total += float64(common.Fixed64(float64(v.Votes) * w))
	}
	return total
}

type instance struct {
	a      *state.Arbiters
	params *config.Configuration
	prev   *types.Block
}

// build creates a real Arbiters with the generated producers inserted in the
// given order.
func build(t fataler, w *worldSpec, order []int) *instance {
	params := config.GetDefaultParams()
	params.DPoSConfiguration.NormalArbitratorsCount = w.Normal
	params.DPoSConfiguration.CandidatesCount = w.Candidates
	params.DPoSConfiguration.CRCArbiters = nil
	for _, k := range w.CRC {
		params.DPoSConfiguration.CRCArbiters = append(params.DPoSConfiguration.CRCArbiters, hex.EncodeToString(pk(k)))
	}
	params.DPoSConfiguration.OriginArbiters = nil
	params.DPoSConfiguration.SponsorsFilePath = filepath.Join(os.TempDir(), "c24-no-such-file")
	params.DPoSConfiguration.NoCRCDPOSNodeHeight = 1
	params.DPoSV2EffectiveVotes = 1000
	ckp := checkpoint.NewManager(params)
	committee := crstate.NewCommittee(params, ckp)
	a, err := state.NewArbitrators(params, committee, nil, nil, nil, nil, nil, nil, nil, ckp)
	if err != nil {
		t.Fatalf("harness: NewArbitrators: %v", err)
	}
	prev := &types.Block{Header: ctypes.Header{Version: 1, Height: w.Height - 1, Nonce: w.HeaderNonce, Timestamp: w.HeaderTime}}
	a.RegisterFunction(func() uint32 { return w.Height - 1 }, func() *common.Uint256 { h := prev.Hash(); return &h },
		func(h uint32) (*types.Block, error) {
			if h == w.Height-1 {
				return prev, nil
			}
			return nil, fmt.Errorf("no block %d", h)
		}, nil)
	for _, i := range order {
		p := &w.Producers[i]
		info := payload.ProducerInfo{OwnerKey: pk(p.Key), NodePublicKey: pk(p.Node), NickName: fmt.Sprintf("p%d", i)}
		var detailed map[common.Uint168]map[common.Uint256]payload.DetailedVoteInfo
		if len(p.V2) > 0 {
			info.StakeUntil = 1_000_000
			detailed = map[common.Uint168]map[common.Uint256]payload.DetailedVoteInfo{}
			for j, v := range p.V2 {
				st := ownerHash(t, pk(700+v.Staker))
				if detailed[st] == nil {
					detailed[st] = map[common.Uint256]payload.DetailedVoteInfo{}
				}
				d := payload.DetailedVoteInfo{StakeProgramHash: st, BlockHeight: 10,
					Info: []payload.VotesWithLockTime{{Candidate: info.OwnerKey, Votes: common.Fixed64(v.Votes), LockTime: 10 + v.Lock}}}
				d.TransactionHash[0], d.TransactionHash[1], d.TransactionHash[2] = byte(i), byte(j), byte(v.Staker)
				detailed[st][d.ReferKey()] = d
			}
		}
		a.State.ActivityProducers[hex.EncodeToString(info.OwnerKey)] =
			state.VerifC24NewProducer(info, state.Active, common.Fixed64(p.Votes), detailed)
	}
	return &instance{a: a, params: params, prev: prev}
}

// ---------------------------------------------------------------- reference

func seedOf(h common.Uint256) int64 {
	var s int64
	for i := 0; i < 8; i++ {
		s |= int64(h[24+i]) << (8 * uint(i))
	}
	return s
}

// refSorted: descending votes, ties by ascending node public key.
func refSorted(w *worldSpec) []int {
	var idx []int
	for i, p := range w.Producers {
		if p.Votes > 0 {
			idx = append(idx, i)
		}
	}
	sort.SliceStable(idx, func(x, y int) bool {
		a, b := &w.Producers[idx[x]], &w.Producers[idx[y]]
		if a.Votes != b.Votes {
			return a.Votes > b.Votes
		}
		return bytes.Compare(pk(a.Node), pk(b.Node)) < 0
	})
	return idx
}

func refSortedV2(w *worldSpec, effective float64) []int {
	var idx []int
	for i := range w.Producers {
		p := &w.Producers[i]
		p.rights = v2Rights(p)
		if p.rights > effective {
			idx = append(idx, i)
		}
	}
	sort.SliceStable(idx, func(x, y int) bool {
		a, b := &w.Producers[idx[x]], &w.Producers[idx[y]]
		if a.rights != b.rights {
			return a.rights > b.rights
		}
		return bytes.Compare(pk(a.Node), pk(b.Node)) < 0
	})
	return idx
}

func refCandidateIndex(w *worldSpec, prevHash common.Uint256, unclaimed, voted int) (int, bool) {
	count := voted - unclaimed - (w.Normal - 1)
	if count < 1 {
		return 0, false
	}
	cc := count
	if w.Candidates+1 < cc {
		cc = w.Candidates + 1
	}
	return rand.New(rand.NewSource(seedOf(prevHash))).Intn(cc), true
}

func owners(ps []*state.Producer) []string {
	out := make([]string, len(ps))
	for i, p := range ps {
		out[i] = hex.EncodeToString(p.OwnerPublicKey())
	}
	return out
}

func ownersOf(w *worldSpec, idx []int) []string {
	out := make([]string, len(idx))
	for i, x := range idx {
		out[i] = hex.EncodeToString(pk(w.Producers[x].Key))
	}
	return out
}

// globalGuard seeds the process-global source with K and returns a function
// that reports whether the global source was touched since.
func globalGuard(k int64) func() bool {
	rand.Seed(k)
	return func() bool {
		return rand.Int63() != rand.New(rand.NewSource(k)).Int63()
	}
}

const sigGlobal = ":uses-process-global-prng"

// guarded runs f with the global source seeded to k and reports whether f
// touched the global source.
func guarded(k int64, f func()) bool {
	touched := globalGuard(k)
	f()
	return touched()
}

// ---------------------------------------------------------------- candidate index

func TestCandidateIndex(t *testing.T) {
	rapid.Check(t, func(t *rapid.T) {
		w := genWorld(t, false, 40)
		voted := refSorted(w)
		w.Unclaimed = rapid.IntRange(0, 3).Draw(t, "unclaimed")
		in := build(t, w, seq(len(w.Producers)))
		want, wantOK := refCandidateIndex(w, in.prev.Hash(), w.Unclaimed, len(voted))

		touched := globalGuard(w.GlobalSeed)
		got, err := in.a.VerifC24CandidateIndexAtRandom(w.Height, w.Unclaimed, len(voted))
		dirty := touched()
		render := func() any { return w }
		cl := "candidate/"
		switch {
		case !wantOK:
			cl += "not-enough-producers"
			if err == nil {
				vk.Report(t, "C24:getCandidateIndexAtRandom:no-error-without-candidates", fmt.Sprintf("got %d", got), w)
				return
			}
		default:
			cl += "drawn"
			if err != nil {
				vk.Report(t, "C24:getCandidateIndexAtRandom:unexpected-error", err.Error(), w)
				return
			}
		}
		if dirty {
			if !vk.Report(t, "C24:getCandidateIndexAtRandom"+sigGlobal,
				"the process-global math/rand source was reseeded or drawn from", w) {
				return
			}
		}
		if wantOK && got != want {
			if !vk.Report(t, "C24:getCandidateIndexAtRandom:differs-from-local-prng-reference",
				fmt.Sprintf("got %d want %d", got, want), w) {
				return
			}
		}
		// purity: again, after the global source moved on, and on a second instance
		rand.Seed(w.GlobalSeed + 1)
		rand.Int63()
		got2, err2 := in.a.VerifC24CandidateIndexAtRandom(w.Height, w.Unclaimed, len(voted))
		in2 := build(t, w, w.InsertOrder)
		got3, err3 := in2.a.VerifC24CandidateIndexAtRandom(w.Height, w.Unclaimed, len(voted))
		if got2 != got || got3 != got || (err2 == nil) != (err == nil) || (err3 == nil) != (err == nil) {
			vk.Report(t, "C24:getCandidateIndexAtRandom:not-a-function-of-chain-data",
				fmt.Sprintf("results %d %d %d", got, got2, got3), w)
			return
		}
		count := len(voted) - w.Unclaimed - (w.Normal - 1)
		key, _ := json.Marshal(w)
		vk.Case(cl, wantOK && count >= 2 && w.Candidates >= 1, key, render)
	})
}

// ---------------------------------------------------------------- sorted producers (+ random candidate)

// refWithRandom models getSortedProducersWithRandom.
type randState struct {
	lastHeight uint32
	lastOwner  string
}

func refWithRandom(w *worldSpec, st *randState, height uint32, prevHash common.Uint256, period uint32) ([]int, bool) {
	voted := refSorted(w)
	normal := w.Normal - 1
	move := func(sel int) []int {
		out := append([]int{}, voted[:w.Unclaimed+normal]...)
		out = append(out, voted[sel])
		out = append(out, voted[w.Unclaimed+normal:sel]...)
		return append(out, voted[sel+1:]...)
	}
	if st.lastHeight != 0 && height-st.lastHeight < period {
		for i, x := range voted {
			if hex.EncodeToString(pk(w.Producers[x].Key)) == st.lastOwner {
				if i < w.Unclaimed+w.Normal-1 {
					break
				}
				return move(i), true
			}
		}
	}
	ci, ok := refCandidateIndex(w, prevHash, w.Unclaimed, len(voted))
	if !ok {
		return nil, false
	}
	sel := w.Unclaimed + normal + ci
	st.lastHeight = height
	st.lastOwner = hex.EncodeToString(pk(w.Producers[voted[sel]].Key))
	return move(sel), true
}

func TestSortedProducers(t *testing.T) {
	rapid.Check(t, func(t *rapid.T) {
		w := genWorld(t, true, 40)
		w.Unclaimed = rapid.IntRange(0, 2).Draw(t, "unclaimed")
		in := build(t, w, seq(len(w.Producers)))
		in2 := build(t, w, w.InsertOrder)
		ties := false
		seen := map[int64]bool{}
		for _, p := range w.Producers {
			if p.Votes > 0 && seen[p.Votes] {
				ties = true
			}
			seen[p.Votes] = true
		}

		// (a) plain orders, several calls (every call iterates the maps in a fresh random order)
		want := ownersOf(w, refSorted(w))
		wantV2 := ownersOf(w, refSortedV2(w, float64(in.params.DPoSV2EffectiveVotes)))
		for rep := 0; rep < 3; rep++ {
			for _, x := range []*instance{in, in2} {
				if got := owners(x.a.VerifC24SortedProducers()); !equal(got, want) {
					vk.Report(t, "C24:getSortedProducers:order", fmt.Sprintf("got %v want %v", short(got), short(want)), w)
					return
				}
				if got := owners(x.a.VerifC24SortedProducersDposV2()); !equal(got, wantV2) {
					vk.Report(t, "C24:getSortedProducersDposV2:order", fmt.Sprintf("got %v want %v", short(got), short(wantV2)), w)
					return
				}
			}
		}
		// (b) with the random candidate, over a few heights on both instances (the
		// second one sees another global PRNG state between calls)
		st := &randState{}
		period := in.params.DPoSConfiguration.RandomCandidatePeriod
		heights := []uint32{w.Height, w.Height, w.Height + 1, w.Height + period - 1, w.Height + period, w.Height + 2*period + 5}
		drew := 0
		for _, h := range heights {
			// the previous block of every height: same header, other height
			blk := &types.Block{Header: in.prev.Header}
			blk.Header.Height = h - 1
			for _, x := range []*instance{in, in2} {
				x := x
				x.a.RegisterFunction(func() uint32 { return h - 1 }, func() *common.Uint256 { hh := blk.Hash(); return &hh },
					func(uint32) (*types.Block, error) { return blk, nil }, nil)
			}
			before := *st
			wantIdx, ok := refWithRandom(w, st, h, blk.Hash(), period)
			if st.lastHeight != before.lastHeight {
				drew++
			}
			var got1, got2 []*state.Producer
			var err1, err2 error
			d1 := guarded(w.GlobalSeed, func() { got1, err1 = in.a.VerifC24SortedProducersWithRandom(h, w.Unclaimed) })
			// the second instance runs against another state of the global source
			d2 := guarded(w.GlobalSeed+int64(h), func() { got2, err2 = in2.a.VerifC24SortedProducersWithRandom(h, w.Unclaimed) })
			if d1 || d2 {
				if !vk.Report(t, "C24:getCandidateIndexAtRandom"+sigGlobal,
					fmt.Sprintf("height %d: getSortedProducersWithRandom reseeded or drew from the process-global math/rand source", h), w) {
					return
				}
			}
			if (err1 == nil) != ok || (err2 == nil) != ok {
				vk.Report(t, "C24:getSortedProducersWithRandom:error-mismatch", fmt.Sprintf("height %d: errors %v / %v, reference ok=%v", h, err1, err2, ok), w)
				return
			}
			if !ok {
				break
			}
			if !equal(owners(got1), owners(got2)) {
				if !vk.Report(t, "C24:getSortedProducersWithRandom:not-a-function-of-chain-data",
					fmt.Sprintf("height %d: two instances differ: %v vs %v", h, short(owners(got1)), short(owners(got2))), w) {
					return
				}
			}
			if !equal(owners(got1), ownersOf(w, wantIdx)) {
				if !vk.Report(t, "C24:getSortedProducersWithRandom:differs-from-local-prng-reference",
					fmt.Sprintf("height %d: got %v want %v", h, short(owners(got1)), short(ownersOf(w, wantIdx))), w) {
					return
				}
			}
		}
		key, _ := json.Marshal(w)
		cl := "sorted/"
		switch {
		case drew >= 2:
			cl += "redrawn-after-period"
		case drew == 1:
			cl += "drawn-once"
		default:
			cl += "no-draw"
		}
		if ties {
			vk.Class("sorted/has-vote-ties")
		}
		vk.Case(cl, drew >= 1 && len(want) >= 2, key, func() any { return w })
	})
}

func equal(a, b []string) bool {
	if len(a) != len(b) {
		return false
	}
	for i := range a {
		if a[i] != b[i] {
			return false
		}
	}
	return true
}

func short(a []string) []string {
	out := make([]string, len(a))
	for i, s := range a {
		if len(s) > 8 {
			s = s[:8]
		}
		out[i] = s
	}
	return out
}

// ---------------------------------------------------------------- DPoS v2 random producers

func TestRandomDposV2(t *testing.T) {
	rapid.Check(t, func(t *rapid.T) {
		w := genWorld(t, true, 40)
		in := build(t, w, seq(len(w.Producers)))
		in2 := build(t, w, w.InsertOrder)
		sorted := refSortedV2(w, float64(in.params.DPoSV2EffectiveVotes))
		w.Unclaimed = 0
		if len(sorted) > 0 {
			w.Unclaimed = rapid.IntRange(0, min(3, len(sorted))).Draw(t, "unclaimed")
		}
		// choosing CR arbiters: CR members with claimed nodes, some abnormal
		ncr := rapid.IntRange(0, 6).Draw(t, "ncr")
		crNormal := rapid.SliceOfN(rapid.Bool(), ncr, ncr).Draw(t, "crNormal")
		choose := func() map[common.Uint168]state.ArbiterMember {
			m := map[common.Uint168]state.ArbiterMember{}
			for i := 0; i < ncr; i++ {
				ar, err := state.NewCRCArbiter(pk(800+i), pk(820+i), &crstate.CRMember{Info: payload.CRInfo{Code: stdCode(pk(820 + i))}, DPOSPublicKey: pk(800 + i)}, crNormal[i])
				if err != nil {
					t.Fatalf("harness: %v", err)
				}
				m[ar.GetOwnerProgramHash()] = ar
			}
			return m
		}
		// reference
		var keys []string
		for i := 0; i < ncr; i++ {
			if crNormal[i] {
				keys = append(keys, hex.EncodeToString(pk(820+i)))
			}
		}
		sort.Strings(keys)
		for _, x := range sorted[w.Unclaimed:] {
			keys = append(keys, hex.EncodeToString(pk(w.Producers[x].Key)))
		}
		count := w.Normal + len(w.CRC)
		r := rand.New(rand.NewSource(seedOf(in.prev.HashWithAux())))
		var want []string
		drawn := false
		if len(keys) > count {
			drawn = count > 0
			for i := 0; i < count; i++ {
				s := r.Intn(len(keys))
				want = append(want, keys[s])
				keys = append(append([]string{}, keys[:s]...), keys[s+1:]...)
			}
		}
		want = append(want, keys...)

		touched := globalGuard(w.GlobalSeed)
		got, err := in.a.VerifC24RandomDposV2Producers(w.Height, w.Unclaimed, choose())
		if touched() {
			if !vk.Report(t, "C24:getRandomDposV2Producers"+sigGlobal, "the process-global math/rand source was reseeded or drawn from", w) {
				return
			}
		}
		if err != nil {
			vk.Report(t, "C24:getRandomDposV2Producers:unexpected-error", err.Error(), w)
			return
		}
		if !equal(got, want) {
			if !vk.Report(t, "C24:getRandomDposV2Producers:differs-from-local-prng-reference",
				fmt.Sprintf("got %v want %v", short(got), short(want)), w) {
				return
			}
		}
		for rep := 0; rep < 2; rep++ {
			rand.Int63()
			got2, _ := in.a.VerifC24RandomDposV2Producers(w.Height, w.Unclaimed, choose())
			got3, _ := in2.a.VerifC24RandomDposV2Producers(w.Height, w.Unclaimed, choose())
			if !equal(got2, got) || !equal(got3, got) {
				vk.Report(t, "C24:getRandomDposV2Producers:not-a-function-of-chain-data",
					fmt.Sprintf("%v / %v / %v", short(got), short(got2), short(got3)), w)
				return
			}
		}
		key, _ := json.Marshal(struct {
			W  *worldSpec
			CR []bool
		}{w, crNormal})
		cl := "v2random/all-kept-in-order"
		if drawn {
			cl = "v2random/drawn"
		}
		vk.Case(cl, drawn && len(want) >= 2, key, func() any { return w })
	})
}

// stdCode is the standard single-signature redeem script of a public key.
func stdCode(pub []byte) []byte {
	return append(append([]byte{byte(len(pub))}, pub...), 0xac)
}

func min(a, b int) int {
	if a < b {
		return a
	}
	return b
}

// ---------------------------------------------------------------- PRNG value compatibility

// TestLocalSourceValueCompatible pins the fact the reference (and the repair in
// /repo) relies on: with this Go toolchain rand.Seed(s) followed by top-level
// draws yields exactly the values of rand.New(rand.NewSource(s)).
func TestLocalSourceValueCompatible(t *testing.T) {
	n := vk.Scale(20000)
	shard, _ := vk.Shard()
	g := rand.New(rand.NewSource(int64(vk.Seed()) + int64(shard)))
	for i := 0; i < n; i++ {
		s := int64(g.Uint64())
		switch i % 5 {
		case 0:
			s = int64(i) - 2
		case 1:
			s = math.MaxInt64 - int64(i)
		case 2:
			s = math.MinInt64 + int64(i)
		}
		bound := 1 + g.Intn(200)
		rand.Seed(s)
		a1, a2 := rand.Intn(bound), rand.Intn(bound)
		l := rand.New(rand.NewSource(s))
		b1, b2 := l.Intn(bound), l.Intn(bound)
		if a1 != b1 || a2 != b2 {
			vk.Report(t, "C24:harness:local-source-not-value-compatible",
				fmt.Sprintf("seed %d bound %d: global %d,%d local %d,%d", s, bound, a1, a2, b1, b2), nil)
			return
		}
		vk.Case("prng-compat", true, []byte(fmt.Sprintf("%d/%d", s, bound)), func() any {
			return map[string]any{"seed": s, "bound": bound, "draws": []int{a1, a2}}
		})
	}
}
