package c24

import (
	"fmt"
	"go/ast"
	"go/parser"
	"go/token"
	"os"
	"path/filepath"
	"strings"
	"testing"

	"verifharness/lib/vk"
)

// consensusPackages are the directories whose code decides arbiter sets, duty
// order, confirmations and chain state.
var consensusPackages = []string{"dpos/state", "dpos/manager", "cr/state", "blockchain", "core/checkpoint",
	"core/transaction", "core/types", "core/types/payload", "utils"}

// TestStaticRandomSources walks the sources of the consensus packages: math/rand
// may only be used through a locally constructed generator (rand.New /
// rand.NewSource) and never be seeded from the clock.
func TestStaticRandomSources(t *testing.T) {
	root := os.Getenv("VERIF_REPO_DIR")
	if root == "" {
		root = "/repo"
	}
	allowed := map[string]bool{"New": true, "NewSource": true, "Rand": true, "Source": true, "Source64": true}
	for _, pkg := range consensusPackages {
		files, err := filepath.Glob(filepath.Join(root, pkg, "*.go"))
		if err != nil || len(files) == 0 {
			t.Fatalf("harness: no sources in %s", pkg)
		}
		for _, f := range files {
			if strings.HasSuffix(f, "_test.go") || strings.HasSuffix(f, "_verif.go") {
				continue
			}
			fset := token.NewFileSet()
			af, err := parser.ParseFile(fset, f, nil, 0)
			if err != nil {
				t.Fatalf("harness: parse %s: %v", f, err)
			}
			randName, timeName := "", ""
			for _, im := range af.Imports {
				path := strings.Trim(im.Path.Value, `"`)
				name := filepath.Base(path)
				if im.Name != nil {
					name = im.Name.Name
				}
				switch path {
				case "math/rand", "math/rand/v2":
					randName = name
				case "time":
					timeName = name
				}
			}
			rel, _ := filepath.Rel(root, f)
			uses := 0
			if randName != "" {
				var fn string
				ast.Inspect(af, func(n ast.Node) bool {
					switch x := n.(type) {
					case *ast.FuncDecl:
						fn = x.Name.Name
					case *ast.SelectorExpr:
						if id, ok := x.X.(*ast.Ident); ok && id.Name == randName && id.Obj == nil {
							uses++
							if !allowed[x.Sel.Name] {
								vk.Report(t, "C24:static:"+rel+":"+fn+":process-global-math-rand",
									fmt.Sprintf("%s uses %s.%s (process-global source)", fset.Position(x.Pos()), randName, x.Sel.Name), nil)
							}
						}
					case *ast.CallExpr:
						if sel, ok := x.Fun.(*ast.SelectorExpr); ok && timeName != "" {
							if id, ok := sel.X.(*ast.Ident); ok && id.Name == randName && (sel.Sel.Name == "NewSource" || sel.Sel.Name == "Seed") {
								clock := false
								for _, a := range x.Args {
									ast.Inspect(a, func(m ast.Node) bool {
										if s, ok := m.(*ast.SelectorExpr); ok {
											if i, ok := s.X.(*ast.Ident); ok && i.Name == timeName {
												clock = true
											}
										}
										return true
									})
								}
								if clock {
									vk.Report(t, "C24:static:"+rel+":"+fn+":time-seeded-source",
										fmt.Sprintf("%s seeds a random source from the clock", fset.Position(x.Pos())), nil)
								}
							}
						}
					}
					return true
				})
			}
			cl := "static/no-math-rand"
			if randName != "" {
				cl = "static/local-generator-only"
			}
			vk.Case(cl, true, []byte(rel), func() any { return map[string]any{"file": rel, "math_rand_uses": uses} })
		}
	}
}
