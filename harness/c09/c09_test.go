// C09 - proof-of-work target encoding, PoW check and retargeting.
//
//	(a) compact <-> big: sweep over compact values (exhaustive in the thorough
//	    tier), rapid over targets up to 2^256;
//	(b) CheckProofOfWork / CalcWork against big-int references;
//	(c) CalcNextRequiredDifficulty on a BlockChain made by blockchain.New with
//	    generated PowConfiguration and a synthetic BlockNode chain.
package c09

import (
	"fmt"
	"math/big"
	"os"
	"path/filepath"
	"runtime"
	"runtime/debug"
	"strconv"
	"testing"
	"time"

	"github.com/elastos/Elastos.ELA/auxpow"
	"github.com/elastos/Elastos.ELA/blockchain"
	"github.com/elastos/Elastos.ELA/common"
	"github.com/elastos/Elastos.ELA/common/config"
	"github.com/elastos/Elastos.ELA/common/log"
	"github.com/elastos/Elastos.ELA/core/types"
	ctypes "github.com/elastos/Elastos.ELA/core/types/common"
	"github.com/elastos/Elastos.ELA/database"
	"pgregory.net/rapid"
	"verifharness/lib/vk"
)

func TestMain(m *testing.M) {
	// the live heap is tiny and every call allocates big.Int words: with the default
	// GC target a collection would run every few thousand cases
	gc := 400
	if v, err := strconv.Atoi(os.Getenv("C09_GOGC")); err == nil {
		gc = v
	}
	debug.SetGCPercent(gc)
	runtime.MemProfileRate = 0
	// CalcNextRequiredDifficulty logs through the package logger, which must exist
	log.NewDefault(filepath.Join(os.TempDir(), "c09-log"), 6, 0, 0)
	vk.Main(m, "C09")
}

// ------------------------------------------------------------------ (a) sweep

// checkCompact states every claim about one compact value; returns its class.
// fast=true uses allocation-free forms of the reference (the sweep); the
// sampled test runs both forms and compares them with each other.
func checkCompact(t vk.TB, c uint32, fast bool) (class string, canonical bool) {
	got := blockchain.CompactToBig(c)
	render := func() any { return map[string]any{"compact": fmt.Sprintf("%08x", c)} }
	var wantEnc uint32
	if fast {
		if !sameAsCompactValue(got, c) {
			vk.Report(t, "C09:CompactToBig:value", fmt.Sprintf("compact %08x decodes to %x, reference %x", c, got, refDec(c)), render())
			return "bad", false
		}
		wantEnc = refReencode(c)
	} else {
		want := refDec(c)
		if got.Cmp(want) != 0 {
			vk.Report(t, "C09:CompactToBig:value", fmt.Sprintf("compact %08x decodes to %x, reference %x", c, got, want), render())
			return "bad", false
		}
		wantEnc = refEnc(want)
		if wantEnc != refReencode(c) || !sameAsCompactValue(want, c) {
			t.Fatalf("harness: fast and big-int forms of the reference disagree on %08x", c)
		}
	}
	back := blockchain.BigToCompact(got)
	if fast && !sameAsCompactValue(got, c) || !fast && got.Cmp(refDec(c)) != 0 {
		vk.Report(t, "C09:BigToCompact:mutates-argument", fmt.Sprintf("compact %08x", c), render())
		return "bad", false
	}
	canonical = isCanonical(c)
	if canonical != (wantEnc == c) {
		t.Fatalf("harness: structural canonical predicate and reference encoder disagree on %08x", c)
	}
	if canonical && back != c {
		vk.Report(t, "C09:BigToCompact:not-identity-on-canonical", fmt.Sprintf("canonical %08x re-encodes to %08x", c, back), render())
		return "bad", canonical
	}
	if !canonical && back == c {
		vk.Report(t, "C09:BigToCompact:keeps-non-canonical", fmt.Sprintf("non-canonical %08x re-encodes to itself", c), render())
		return "bad", canonical
	}
	if back != wantEnc {
		vk.Report(t, "C09:BigToCompact:differs-from-reference", fmt.Sprintf("%08x -> %x -> %08x, reference %08x", c, got, back, wantEnc), render())
		return "bad", canonical
	}
	// decode(encode(decode(c))) == decode(c): re-encoding never changes the value
	// (when back == c this is the call already made above)
	if again := got; back != c && blockchain.CompactToBig(back).Cmp(again) != 0 {
		again = blockchain.CompactToBig(back)
		vk.Report(t, "C09:BigToCompact:re-encoding-changes-value", fmt.Sprintf("%08x -> %x -> %08x -> %x", c, got, back, again), render())
		return "bad", canonical
	}
	k := 0
	switch {
	case got.Sign() == 0:
		k = 0
	case got.Sign() < 0:
		k = 2
	case got.BitLen() > 256:
		k = 4
	default:
		k = 6
	}
	if canonical {
		k++
	}
	return sweepClasses[k], canonical
}

var sweepClasses = [8]string{
	"sweep/zero-value/non-canonical", "sweep/zero-value/canonical",
	"sweep/negative/non-canonical", "sweep/negative/canonical",
	"sweep/positive>2^256/non-canonical", "sweep/positive>2^256/canonical",
	"sweep/positive<=2^256/non-canonical", "sweep/positive<=2^256/canonical",
}

// lowRegion: compact values whose exponent byte is <= 35, i.e. every compact
// value (both signs) that denotes a number below 2^280.  Every target the PoW
// check can accept (<= limit < 2^256) is encoded in this region.
const lowRegion = uint64(0x24000000)

type sweepSpan struct{ first, count, step uint64 }

// TestCompactSweep visits compact values in a fixed order.
//
//	C09_SWEEP=full   every 32-bit value
//	C09_SWEEP=low    every value of lowRegion, and every C09_HIGH_STRIDE-th value above it
//	(default)        VERIF_N values per shard, evenly strided over the 32-bit range
//
// Offsets of strided parts depend on the seed; the shards partition each span.
func TestCompactSweep(t *testing.T) {
	shard, nsh := vk.Shard()
	const total = uint64(1) << 32
	var spans []sweepSpan
	switch os.Getenv("C09_SWEEP") {
	case "full":
		spans = []sweepSpan{{0, total, 1}}
		vk.Note("sweep", "exhaustive: every 32-bit compact value")
	case "low":
		stride := uint64(8)
		if v, err := strconv.Atoi(os.Getenv("C09_HIGH_STRIDE")); err == nil && v > 0 {
			stride = uint64(v)
		}
		base, _ := strconv.ParseUint(os.Getenv("VERIF_BASE_SEED"), 10, 64)
		spans = []sweepSpan{{0, lowRegion, 1}, {lowRegion + base%stride, (total - lowRegion - base%stride + stride - 1) / stride, stride}}
		vk.Note("sweep", fmt.Sprintf("exhaustive for compact values below %08x (exponent byte <= 35, both signs); every %d-th value above", lowRegion, stride))
	default:
		per := uint64(vk.Scale(1 << 20))
		step := (total / (per * uint64(nsh))) | 1
		base, _ := strconv.ParseUint(os.Getenv("VERIF_BASE_SEED"), 10, 64)
		spans = []sweepSpan{{base % step, total / step, step}}
		vk.Note("sweep", fmt.Sprintf("strided sample, step %d", step))
	}
	// one OS thread is enough and keeps the collector from fighting 15 sibling processes
	defer runtime.GOMAXPROCS(runtime.GOMAXPROCS(1))
	var key [4]byte
	var nCanonical, nTotal int64
	for _, sp := range spans {
		lo, hi := sp.count*uint64(shard)/uint64(nsh), sp.count*uint64(shard+1)/uint64(nsh)
		for i := lo; i < hi; i++ {
			c := uint32(sp.first + i*sp.step)
			class, canonical := checkCompact(t, c, true)
			nTotal++
			if canonical {
				nCanonical++
			}
			// Every value is an evaluation.  Non-trivial = canonical encoding (the identity
			// claim applies); hashing each of them for the distinct set would double the run
			// time, so only every 1021st value goes there - counters.sweep_canonical is the
			// full count, and sweep values are distinct by construction.
			if canonical && c%1021 == 0 {
				key[0], key[1], key[2], key[3] = byte(c>>24), byte(c>>16), byte(c>>8), byte(c)
				vk.Case(class, true, key[:], func() any {
					return map[string]any{"compact": fmt.Sprintf("%08x", c), "value": fmt.Sprintf("%x", refDec(c))}
				})
			} else {
				vk.Case(class, false, nil, nil)
			}
		}
	}
	vk.Count("sweep_canonical", nCanonical)
	vk.Count("compact_values_swept", nTotal)
}

// ------------------------------------------------------------------ generators

// genCompact: structured 32-bit compact values (exponent and mantissa drawn
// separately so that small exponents, the sign bit and mantissa edges are common).
func genCompact() *rapid.Generator[uint32] {
	return rapid.Custom(func(t *rapid.T) uint32 {
		if rapid.IntRange(0, 3).Draw(t, "raw") == 0 {
			return rapid.Uint32().Draw(t, "compact")
		}
		exp := rapid.OneOf(rapid.Uint32Range(0, 5), rapid.Uint32Range(3, 34), rapid.Uint32Range(3, 34), rapid.Uint32Range(0, 255)).Draw(t, "exp")
		mant := rapid.OneOf(
			rapid.SampledFrom([]uint32{0, 1, 0x7f, 0x80, 0xff, 0x100, 0x7fff, 0x8000, 0xffff, 0x10000, 0x7fffff, 0x7ffffe, 0x400000, 0x008001}),
			rapid.Uint32Range(0, 0x7fffff),
		).Draw(t, "mant")
		c := exp<<24 | mant
		if rapid.IntRange(0, 7).Draw(t, "neg") == 0 {
			c |= 0x00800000
		}
		return c
	})
}

// genTarget: positive integers up to 2^256 with every bit length equally
// likely and edge patterns (2^k, 2^k-1, 2^k+1, mantissa edges shifted by bytes).
func genTarget() *rapid.Generator[*big.Int] {
	return rapid.Custom(func(t *rapid.T) *big.Int {
		bits := rapid.IntRange(1, 256).Draw(t, "bitlen")
		switch rapid.IntRange(0, 5).Draw(t, "shape") {
		case 0:
			return new(big.Int).Lsh(one, uint(bits)) // up to 2^256 itself
		case 1:
			n := new(big.Int).Lsh(one, uint(bits))
			return n.Sub(n, one)
		case 2:
			n := new(big.Int).Lsh(one, uint(bits-1))
			return n.Add(n, one)
		case 3:
			m := rapid.SampledFrom([]int64{0x7fffff, 0x800000, 0x800001, 0x7fff, 0x8000, 0xffffff, 0x1000000, 0x80, 0xff}).Draw(t, "edge")
			n := new(big.Int).Lsh(big.NewInt(m), uint(8*rapid.IntRange(0, 28).Draw(t, "byteShift")))
			if rapid.Bool().Draw(t, "plusLow") {
				n.Add(n, big.NewInt(int64(rapid.IntRange(1, 255).Draw(t, "low"))))
			}
			return n
		}
		raw := rapid.SliceOfN(rapid.Byte(), 32, 32).Draw(t, "raw")
		n := new(big.Int).SetBytes(raw)
		n.Rsh(n, uint(256-bits))
		n.SetBit(n, bits-1, 1)
		return n
	})
}

// ------------------------------------------------------------------ (a) rapid

func TestCompactSampled(t *testing.T) {
	rapid.Check(t, func(t *rapid.T) {
		c := genCompact().Draw(t, "c")
		class, canonical := checkCompact(t, c, false)
		class = class[len("sweep/"):]
		w, ref := blockchain.CalcWork(c), refWork(c)
		if w.Cmp(ref) != 0 {
			vk.Report(t, "C09:CalcWork:value", fmt.Sprintf("CalcWork(%08x)=%x reference %x", c, w, ref), map[string]any{"compact": fmt.Sprintf("%08x", c)})
		}
		vk.Case("sampled/"+class, canonical, []byte{byte(c >> 24), byte(c >> 16), byte(c >> 8), byte(c)}, func() any {
			return map[string]any{"compact": fmt.Sprintf("%08x", c), "value": fmt.Sprintf("%x", refDec(c))}
		})
	})
}

// TestEncodeTarget: encoding a positive target never yields a larger target,
// loses less than one unit of the last mantissa byte, gives a canonical value,
// is monotone, and CalcWork does not increase with the target.
func TestEncodeTarget(t *testing.T) {
	rapid.Check(t, func(t *rapid.T) {
		n := genTarget().Draw(t, "n")
		keep := new(big.Int).Set(n)
		c := blockchain.BigToCompact(n)
		render := func() any { return map[string]any{"target": fmt.Sprintf("%x", keep), "compact": fmt.Sprintf("%08x", c)} }
		if n.Cmp(keep) != 0 {
			vk.Report(t, "C09:BigToCompact:mutates-argument", "argument changed", render())
		}
		d := blockchain.CompactToBig(c)
		if d.Cmp(n) > 0 {
			vk.Report(t, "C09:BigToCompact:encodes-larger-target", fmt.Sprintf("%x -> %08x -> %x", n, c, d), render())
		}
		if d.Sign() <= 0 {
			vk.Report(t, "C09:BigToCompact:positive-target-not-positive", fmt.Sprintf("%x -> %08x -> %x", n, c, d), render())
		}
		if loss := new(big.Int).Sub(n, d); loss.Cmp(ulp(c)) >= 0 {
			vk.Report(t, "C09:BigToCompact:loses-more-than-one-unit", fmt.Sprintf("%x -> %08x -> %x", n, c, d), render())
		}
		if c != refEnc(n) {
			vk.Report(t, "C09:BigToCompact:differs-from-reference", fmt.Sprintf("%x -> %08x, reference %08x", n, c, refEnc(n)), render())
		}
		if !isCanonical(c) {
			vk.Report(t, "C09:BigToCompact:non-canonical-output", fmt.Sprintf("%x -> %08x", n, c), render())
		}
		// monotone: a larger target never encodes to a smaller one
		var delta *big.Int
		if rapid.Bool().Draw(t, "near") {
			delta = new(big.Int).Rsh(n, uint(rapid.IntRange(8, 40).Draw(t, "rsh")))
			delta.Add(delta, big.NewInt(int64(rapid.IntRange(0, 3).Draw(t, "plus"))))
		} else {
			delta = genTarget().Draw(t, "delta")
		}
		n2 := new(big.Int).Add(n, delta)
		class := "target"
		if n2.Cmp(two256) <= 0 {
			c2 := blockchain.BigToCompact(n2)
			d2 := blockchain.CompactToBig(c2)
			if d2.Cmp(d) < 0 {
				vk.Report(t, "C09:BigToCompact:not-monotone", fmt.Sprintf("%x<=%x but %x>%x", n, n2, d, d2), render())
			}
			if c != c2 && blockchain.CalcWork(c2).Cmp(blockchain.CalcWork(c)) > 0 {
				vk.Report(t, "C09:CalcWork:increases-with-target", fmt.Sprintf("%08x %08x", c, c2), render())
			}
			class = "target+pair"
		}
		if d.Cmp(n) != 0 {
			class += "/truncated"
		} else {
			class += "/exact"
		}
		vk.Case("encode/"+class, d.Cmp(n) != 0, keep.Bytes(), render)
	})
}

// ------------------------------------------------------------------ (b) CheckProofOfWork

func h256(t *rapid.T, label string) (h [32]byte) {
	copy(h[:], rapid.SliceOfN(rapid.Byte(), 32, 32).Draw(t, label))
	return
}

func TestCheckProofOfWork(t *testing.T) {
	rapid.Check(t, func(t *rapid.T) {
		version, ts, pbits, nonce := rapid.Uint32().Draw(t, "version"), rapid.Uint32().Draw(t, "time"), rapid.Uint32().Draw(t, "parentBits"), rapid.Uint32().Draw(t, "nonce")
		prev, root := h256(t, "prev"), h256(t, "root")
		hash := btcHeaderHash(version, prev, root, ts, pbits, nonce)

		// target relative to the hash: the two representable neighbours of the hash, or free
		var bits uint32
		mode := rapid.SampledFrom([]string{"just-below-hash", "just-above-hash", "above-hash", "free", "easy", "non-positive"}).Draw(t, "mode")
		below := refEnc(hash) // decodes to <= hash
		switch mode {
		case "just-below-hash":
			bits = below
		case "just-above-hash":
			bits = below
			if refDec(below).Cmp(hash) != 0 {
				bits = nextUp(below)
			}
		case "above-hash":
			bits = below
			for i, n := 0, rapid.IntRange(1, 12).Draw(t, "steps"); i < n; i++ {
				bits = nextUp(bits)
			}
		case "free":
			bits = genCompact().Draw(t, "bits")
		case "easy":
			bits = rapid.SampledFrom([]uint32{0x207fffff, 0x1f0008ff, 0x21008000, 0x2100ffff, 0x22000001}).Draw(t, "bits")
		default:
			bits = rapid.SampledFrom([]uint32{0, 0x00800000, 0x01000000, 0x03800001, 0x20800001, 0x207fffff | 0x00800000, 0x02000001, 0x01003456}).Draw(t, "bits")
		}
		target := refDec(bits)
		var limit *big.Int
		lmode := rapid.SampledFrom([]string{"mainnet", "equal-target", "target-1", "target+1", "free"}).Draw(t, "limitMode")
		switch lmode {
		case "mainnet":
			limit = new(big.Int).Sub(new(big.Int).Lsh(one, 255), one)
		case "equal-target":
			limit = new(big.Int).Set(target)
		case "target-1":
			limit = new(big.Int).Sub(target, one)
		case "target+1":
			limit = new(big.Int).Add(target, one)
		default:
			limit = genTarget().Draw(t, "limit")
		}
		limitKeep := new(big.Int).Set(limit)

		header := &ctypes.Header{Bits: bits, Version: rapid.Uint32().Draw(t, "elaVersion"), Nonce: rapid.Uint32().Draw(t, "elaNonce")}
		header.AuxPow = auxpow.AuxPow{ParBlockHeader: auxpow.BtcHeader{Version: version, Previous: common.Uint256(prev),
			MerkleRoot: common.Uint256(root), Timestamp: ts, Bits: pbits, Nonce: nonce}}
		err := blockchain.CheckProofOfWork(header, limit)
		wantOK, clause := refPoW(hash, bits, limitKeep)
		render := func() any {
			return map[string]any{"bits": fmt.Sprintf("%08x", bits), "target": fmt.Sprintf("%x", target), "limit": fmt.Sprintf("%x", limitKeep),
				"parent_hash_value": fmt.Sprintf("%064x", hash), "mode": mode, "limit_mode": lmode,
				"parent_header": map[string]any{"version": version, "prev": vk.Hex(prev[:]), "root": vk.Hex(root[:]), "time": ts, "bits": pbits, "nonce": nonce}}
		}
		if limit.Cmp(limitKeep) != 0 {
			vk.Report(t, "C09:CheckProofOfWork:mutates-limit", "powLimit changed", render())
		}
		if (err == nil) != wantOK {
			if err == nil {
				vk.Report(t, "C09:CheckProofOfWork:accepted:"+clause, "accepted although "+clause, render())
			} else {
				vk.Report(t, "C09:CheckProofOfWork:rejected-valid", err.Error(), render())
			}
		}
		// HashToBig on the node's own header hash must be the little-endian value
		hh := header.AuxPow.ParBlockHeader.Hash()
		if hb := blockchain.HashToBig(&hh); hb.Cmp(hash) != 0 {
			vk.Report(t, "C09:HashToBig:value", fmt.Sprintf("%x vs reference %x", hb, hash), render())
		}
		class := "accept"
		if !wantOK {
			class = "reject:" + clause
		}
		nt := target.Sign() > 0 && (clause == "" || clause == "hash-above-target" || lmode != "mainnet")
		vk.Case("pow/"+mode+"/"+class, nt, []byte(fmt.Sprintf("%x|%08x|%x", hash, bits, limitKeep)), render)
	})
}

// ------------------------------------------------------------------ (c) retarget

// stub store: blockchain.New only looks at two metadata keys of the chain
// database; answering "initialised, no block index" makes it return the
// BlockChain with the retarget fields it derived from the configuration.
type dbBucket = database.Bucket

type stubBucket struct{ dbBucket }

func (stubBucket) Get(key []byte) []byte            { return []byte{1} }
func (stubBucket) Bucket(key []byte) database.Bucket { return nil }

type stubTx struct{ database.Tx }

func (stubTx) Metadata() database.Bucket { return stubBucket{} }

type stubFFLDB struct{ blockchain.IFFLDBChainStore }

func (stubFFLDB) View(fn func(tx database.Tx) error) error { return fn(stubTx{}) }

type stubStore struct{ blockchain.IChainStore }

func (stubStore) GetFFLDB() blockchain.IFFLDBChainStore { return stubFFLDB{} }

func newChain(t vk.TB, cfg *retargetCfg) *blockchain.BlockChain {
	params := *config.GetDefaultParams() // copy: the PoW settings are changed below
	params.GenesisBlock = &types.Block{Header: ctypes.Header{Version: 0, Timestamp: 1513936800, Bits: cfg.LimitBits}} // New only hashes it
	params.PowConfiguration.PowLimit = new(big.Int).Set(cfg.Limit)
	params.PowConfiguration.PowLimitBits = cfg.LimitBits
	params.PowConfiguration.TargetTimespan = time.Duration(cfg.Timespan) * time.Second
	params.PowConfiguration.TargetTimePerBlock = time.Duration(cfg.Spacing) * time.Second
	params.PowConfiguration.AdjustmentFactor = cfg.Factor
	chain, err := blockchain.New(stubStore{}, &params, nil, nil, nil)
	if err != nil {
		t.Fatalf("harness: blockchain.New with stub store: %v", err)
	}
	return chain
}

func genRetargetCfg(t *rapid.T) *retargetCfg {
	cfg := &retargetCfg{}
	if rapid.IntRange(0, 24).Draw(t, "shipped") == 0 {
		// the shipped parameter shape: 24 h / 2 min / factor 4 (720 blocks per retarget)
		cfg.Timespan, cfg.Spacing, cfg.Factor = 86400, 120, 4
	} else {
		cfg.Spacing = int64(rapid.IntRange(1, 600).Draw(t, "spacing"))
		bpr := int64(rapid.IntRange(1, 40).Draw(t, "blocksPerRetarget"))
		cfg.Timespan = cfg.Spacing * bpr
		if rapid.IntRange(0, 3).Draw(t, "ragged") == 0 && cfg.Spacing > 1 {
			cfg.Timespan += int64(rapid.IntRange(1, int(cfg.Spacing)-1).Draw(t, "extra")) // not a multiple of the spacing
		}
		var divisors []int64
		for f := int64(1); f <= 8; f++ {
			if cfg.Timespan%f == 0 {
				divisors = append(divisors, f)
			}
		}
		if rapid.IntRange(0, 4).Draw(t, "factorNotDividing") == 0 {
			cfg.Factor = int64(rapid.IntRange(1, 8).Draw(t, "factor"))
			if cfg.Factor > cfg.Timespan {
				cfg.Factor = cfg.Timespan // timespan/factor == 0 is not a configuration anyone runs
			}
		} else {
			cfg.Factor = divisors[rapid.IntRange(0, len(divisors)-1).Draw(t, "divisor")]
		}
	}
	switch rapid.IntRange(0, 11).Draw(t, "limitKind") {
	case 10:
		cfg.Limit = new(big.Int).Sub(new(big.Int).Lsh(one, 255), one)
		cfg.LimitBits = 0x1f0008ff // mainnet: limit bits far below the limit
	case 11:
		cfg.Limit = new(big.Int).Sub(new(big.Int).Lsh(one, 255), one)
		cfg.LimitBits = instantBits // instant-block mode: difficulty never changes
	default:
		cfg.Limit = genTarget().Filter(func(n *big.Int) bool { return n.BitLen() >= 24 && n.Cmp(two256) < 0 }).Draw(t, "limit")
		cfg.LimitBits = refEnc(cfg.Limit)
	}
	return cfg
}

func TestRetarget(t *testing.T) {
	rapid.Check(t, func(t *rapid.T) {
		cfg := genRetargetCfg(t)
		chain := newChain(t, cfg)
		bpr := cfg.blocksPerRetarget()

		// previous block height
		var prevHeight int64
		boundary := rapid.IntRange(0, 5).Draw(t, "boundary") != 0
		k := int64(rapid.IntRange(1, 3).Draw(t, "k"))
		if boundary {
			prevHeight = k*bpr - 1
		} else {
			prevHeight = k*bpr - 1 + int64(rapid.IntRange(1, 40).Draw(t, "off"))
			if rapid.IntRange(0, 9).Draw(t, "genesis") == 0 {
				prevHeight = 0
			}
		}

		// previous target: anything a valid chain can carry (positive, <= limit)
		var prevBits uint32
		switch rapid.IntRange(0, 5).Draw(t, "prevKind") {
		case 0:
			prevBits = refEnc(cfg.Limit)
		case 1:
			prevBits = cfg.LimitBits
		case 2: // close below the limit, so that old*span/T crosses it
			n := new(big.Int).Rsh(cfg.Limit, uint(rapid.IntRange(0, 4).Draw(t, "rsh")))
			prevBits = refEnc(n)
		default:
			n := genTarget().Filter(func(n *big.Int) bool { return n.Cmp(cfg.Limit) <= 0 }).Draw(t, "old")
			prevBits = refEnc(n)
		}
		old := refDec(prevBits)

		// window timestamps: steer the span to the clamp edges
		minS, maxS := cfg.minSpan(), cfg.maxSpan()
		var span int64
		switch rapid.SampledFrom([]string{"max+1", "min-1", "max", "min", "max-1", "min+1", "backwards", "free", "T", "short"}).Draw(t, "spanKind") {
		case "min-1":
			span = minS - 1
		case "min":
			span = minS
		case "min+1":
			span = minS + 1
		case "max-1":
			span = maxS - 1
		case "max":
			span = maxS
		case "max+1":
			span = maxS + 1
		case "T":
			span = cfg.Timespan
		case "short":
			span = int64(rapid.IntRange(0, int(minS)).Draw(t, "short"))
		case "backwards":
			span = int64(rapid.IntRange(-int(cfg.Timespan), -1).Draw(t, "backwards")) // last block stamped before the first
		default:
			span = int64(rapid.IntRange(0, int(2*maxS)).Draw(t, "span"))
		}
		first := prevHeight - bpr + 1
		if first < 0 {
			first = 0
		}
		if first == prevHeight && span != 0 {
			span = 0 // one-block window
		}
		base := int64(rapid.IntRange(1_000_000_000, 2_000_000_000).Draw(t, "t0"))
		if base+span > 0xffffffff {
			span = 0xffffffff - base
		}
		// nodes from below the window up to the previous block
		lowest := first - int64(rapid.IntRange(0, 3).Draw(t, "below"))
		if lowest < 0 {
			lowest = 0
		}
		var prevNode, parent *blockchain.BlockNode
		jmul := int64(rapid.IntRange(0, 14400).Draw(t, "jitterMul")) // inner timestamps do not matter: cheap scatter
		innerBits := genCompact().Draw(t, "innerBits")              // only the previous block's bits count
		for h := lowest; h <= prevHeight; h++ {
			ts := base + (h*jmul)%14401 - 7200
			if h == first {
				ts = base
			}
			if h == prevHeight {
				ts = base + span
			}
			bits := prevBits
			if h != prevHeight {
				bits = innerBits
			}
			node := &blockchain.BlockNode{Height: uint32(h), Timestamp: uint32(ts), Bits: bits, Parent: parent, WorkSum: new(big.Int)}
			parent, prevNode = node, node
		}

		var got uint32
		var err error
		panicked, pval, frame := vk.Catch(func() {
			got, err = chain.CalcNextRequiredDifficulty(prevNode, time.Unix(base+span+cfg.Spacing, 0))
		})
		want, kind, exact := refRetarget(cfg, uint32(prevHeight), prevBits, span)
		render := func() any {
			return map[string]any{"timespan_s": cfg.Timespan, "spacing_s": cfg.Spacing, "factor": cfg.Factor,
				"limit": fmt.Sprintf("%x", cfg.Limit), "limit_bits": fmt.Sprintf("%08x", cfg.LimitBits),
				"prev_height": prevHeight, "prev_bits": fmt.Sprintf("%08x", prevBits), "window_span_s": span,
				"got_bits": fmt.Sprintf("%08x", got), "reference_bits": fmt.Sprintf("%08x", want), "kind": kind}
		}
		switch {
		case panicked:
			vk.Report(t, "C09:CalcNextRequiredDifficulty:panic:"+frame, fmt.Sprint(pval), render())
		case err != nil:
			vk.Report(t, "C09:CalcNextRequiredDifficulty:error", err.Error(), render())
		}
		atBoundary := exact != nil
		if span < 0 && atBoundary {
			// The node subtracts the 32-bit timestamps unsigned, so a window whose last block
			// is stamped earlier than its first counts as ~2^32 s and clamps to the maximum;
			// the statement only bounds the move, which is checked below.
			kind = "backwards-window"
		} else if got != want {
			vk.Report(t, "C09:CalcNextRequiredDifficulty:differs-from-reference:"+kind, fmt.Sprintf("got %08x want %08x", got, want), render())
		}
		r := refDec(got)
		if atBoundary {
			// never above the limit, never more than factor up
			upper := new(big.Int).Mul(old, big.NewInt(cfg.Factor))
			if r.Cmp(cfg.Limit) > 0 {
				vk.Report(t, "C09:CalcNextRequiredDifficulty:above-limit", fmt.Sprintf("new target %x limit %x", r, cfg.Limit), render())
			}
			if r.Cmp(upper) > 0 {
				vk.Report(t, "C09:CalcNextRequiredDifficulty:moved-up-more-than-factor", fmt.Sprintf("old %x new %x", old, r), render())
			}
			// never more than factor down (integer division of the timespan by the factor and
			// compact truncation allow less than one representable step below old*min/T)
			lower := new(big.Int).Mul(old, big.NewInt(cfg.minSpan()))
			lower.Quo(lower, big.NewInt(cfg.Timespan))
			if lower.Cmp(cfg.Limit) > 0 {
				lower.Set(cfg.Limit)
			}
			if new(big.Int).Add(r, ulp(got)).Cmp(lower) <= 0 {
				vk.Report(t, "C09:CalcNextRequiredDifficulty:moved-down-more-than-factor", fmt.Sprintf("old %x new %x", old, r), render())
			}
		} else if r.Cmp(cfg.Limit) > 0 && refDec(cfg.LimitBits).Cmp(cfg.Limit) <= 0 && old.Cmp(cfg.Limit) <= 0 {
			vk.Report(t, "C09:CalcNextRequiredDifficulty:above-limit", fmt.Sprintf("new target %x limit %x", r, cfg.Limit), render())
		}
		class := kind
		if cfg.Timespan%cfg.Factor != 0 {
			class += "/factor-not-dividing"
		}
		nt := atBoundary && kind != "unclamped"
		vk.Case("retarget/"+class, nt, []byte(fmt.Sprint(render())), render)
	})
}
