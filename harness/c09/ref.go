// Reference side of C09.  The compact format is described here through the
// OpenSSL "MPI" byte representation it derives from (size byte + the first
// three bytes of the sign-and-magnitude big-endian number), not through the
// shift arithmetic the node uses.  Nothing in this file calls /repo/blockchain.
package c09

import (
	"crypto/sha256"
	"encoding/binary"
	"math/big"
)

var (
	one    = big.NewInt(1)
	two256 = new(big.Int).Lsh(big.NewInt(1), 256)
)

// refDec decodes a compact value: bytes b0 b1 b2 (b0 without its top bit, which
// is the sign) are the most significant bytes of a size-byte big-endian number.
func refDec(c uint32) *big.Int {
	size := int(c >> 24)
	mant := []byte{byte(c>>16) & 0x7f, byte(c >> 8), byte(c)}
	var raw []byte
	if size <= 3 {
		raw = mant[:size]
	} else {
		raw = make([]byte, size)
		copy(raw, mant)
	}
	n := new(big.Int).SetBytes(raw)
	if c&0x00800000 != 0 {
		n.Neg(n)
	}
	return n
}

// refEnc encodes n: write |n| big-endian without leading zeros, prepend a zero
// byte if the first byte has its top bit set (that bit is the sign), the byte
// count is the size, the first three bytes (zero padded) the mantissa.
func refEnc(n *big.Int) uint32 {
	if n.Sign() == 0 {
		return 0
	}
	mag := new(big.Int).Abs(n).Bytes()
	if mag[0]&0x80 != 0 {
		mag = append([]byte{0}, mag...)
	}
	size := len(mag)
	var m [3]byte
	copy(m[:], mag)
	c := uint32(size)<<24 | uint32(m[0])<<16 | uint32(m[1])<<8 | uint32(m[2])
	if n.Sign() < 0 {
		c |= 0x00800000
	}
	return c
}

// isCanonical tells whether c is the encoding refEnc gives to the number it
// decodes to, stated structurally: zero is 0; otherwise the mantissa is
// non-zero, has no superfluous leading zero byte (a zero first byte is there
// only to keep the top bit of the second byte from being read as the sign),
// and mantissa bytes beyond the size are zero.
func isCanonical(c uint32) bool {
	if c == 0 {
		return true
	}
	size := c >> 24
	b0, b1, b2 := byte(c>>16)&0x7f, byte(c>>8), byte(c)
	if b0 == 0 && b1 < 0x80 {
		return false // leading zero not needed (or mantissa zero)
	}
	switch size {
	case 0:
		return false
	case 1:
		return b1 == 0 && b2 == 0 // and b0 != 0 by the test above
	case 2:
		return b2 == 0
	}
	return true
}

// ulp is the spacing of representable values around a value of the given
// compact size: one unit of the last mantissa byte.
func ulp(c uint32) *big.Int {
	size := int(c >> 24)
	if size <= 3 {
		return big.NewInt(1)
	}
	return new(big.Int).Lsh(big.NewInt(1), uint(8*(size-3)))
}

// nextUp returns the canonical compact value of the smallest representable
// positive number strictly greater than dec(c), for a canonical positive c.
func nextUp(c uint32) uint32 {
	return refEnc(new(big.Int).Add(refDec(c), ulp(c)))
}

func refWork(c uint32) *big.Int {
	t := refDec(c)
	if t.Sign() <= 0 {
		return new(big.Int)
	}
	return new(big.Int).Quo(two256, new(big.Int).Add(t, one))
}

// btcHeaderHash is the numeric value of the double SHA-256 of the 80-byte
// parent header, read as a little-endian 256-bit integer.
func btcHeaderHash(version uint32, prev, root [32]byte, ts, bits, nonce uint32) *big.Int {
	var b [80]byte
	binary.LittleEndian.PutUint32(b[0:], version)
	copy(b[4:], prev[:])
	copy(b[36:], root[:])
	binary.LittleEndian.PutUint32(b[68:], ts)
	binary.LittleEndian.PutUint32(b[72:], bits)
	binary.LittleEndian.PutUint32(b[76:], nonce)
	h1 := sha256.Sum256(b[:])
	h := sha256.Sum256(h1[:])
	n := new(big.Int)
	for i := 31; i >= 0; i-- { // byte 31 is the most significant
		n.Lsh(n, 8)
		n.Or(n, big.NewInt(int64(h[i])))
	}
	return n
}

// refPoW: the statement's three conditions.
func refPoW(hash *big.Int, bits uint32, limit *big.Int) (ok bool, clause string) {
	t := refDec(bits)
	switch {
	case t.Sign() <= 0:
		return false, "target-not-positive"
	case t.Cmp(limit) > 0:
		return false, "target-above-limit"
	case hash.Cmp(t) > 0:
		return false, "hash-above-target"
	}
	return true, ""
}

// retargetCfg is what the retarget rule depends on, in seconds.
type retargetCfg struct {
	Timespan  int64 // target timespan
	Spacing   int64 // target time per block
	Factor    int64
	Limit     *big.Int
	LimitBits uint32
}

func (c *retargetCfg) blocksPerRetarget() int64 { return c.Timespan / c.Spacing }
func (c *retargetCfg) minSpan() int64           { return c.Timespan / c.Factor }
func (c *retargetCfg) maxSpan() int64           { return c.Timespan * c.Factor }

const instantBits = 0x207fffff

// refRetarget returns the expected next bits.  span is last.Timestamp -
// first.Timestamp over the window of blocksPerRetarget blocks ending at the
// previous block (only used at a boundary).
func refRetarget(cfg *retargetCfg, prevHeight uint32, prevBits uint32, span int64) (bits uint32, kind string, exact *big.Int) {
	if prevHeight == 0 || cfg.LimitBits == instantBits {
		return cfg.LimitBits, "fixed-limit-bits", nil
	}
	if (int64(prevHeight)+1)%cfg.blocksPerRetarget() != 0 {
		return prevBits, "no-boundary", nil
	}
	adj, kind := span, "unclamped"
	if adj < cfg.minSpan() {
		adj, kind = cfg.minSpan(), "clamped-min"
	} else if adj > cfg.maxSpan() {
		adj, kind = cfg.maxSpan(), "clamped-max"
	}
	x := new(big.Int).Mul(refDec(prevBits), big.NewInt(adj))
	x.Quo(x, big.NewInt(cfg.Timespan))
	if x.Cmp(cfg.Limit) > 0 {
		x.Set(cfg.Limit)
		kind += "+limit"
	}
	return refEnc(x), kind, x
}

// ---- allocation-free forms used by the 2^32 sweep (cross-checked against the
// big-int forms above on every sampled value)

// sameAsCompactValue reports whether n is the number compact value c denotes.
func sameAsCompactValue(n *big.Int, c uint32) bool {
	size := int(c >> 24)
	mant := [3]byte{byte(c>>16) & 0x7f, byte(c >> 8), byte(c)}
	var want, have [256]byte // big-endian, right aligned
	if size <= 3 {
		copy(want[256-size:], mant[:size])
	} else {
		copy(want[256-size:], mant[:])
	}
	zero := want == [256]byte{}
	if n.BitLen() > 256*8 {
		return false
	}
	n.FillBytes(have[:])
	if have != want {
		return false
	}
	switch {
	case zero:
		return n.Sign() == 0
	case c&0x00800000 != 0:
		return n.Sign() < 0
	}
	return n.Sign() > 0
}

// refReencode is refEnc(refDec(c)) computed on the three mantissa bytes.
func refReencode(c uint32) uint32 {
	size := int(c >> 24)
	mant := []byte{byte(c>>16) & 0x7f, byte(c >> 8), byte(c)}
	if size < 3 {
		mant = mant[:size]
	}
	for len(mant) > 0 && mant[0] == 0 { // strip leading zero bytes
		mant = mant[1:]
		size--
	}
	if len(mant) == 0 {
		return 0
	}
	if mant[0]&0x80 != 0 { // keep the sign bit clear
		mant = append([]byte{0}, mant...)
		size++
	}
	var m [3]byte
	copy(m[:], mant)
	out := uint32(size)<<24 | uint32(m[0])<<16 | uint32(m[1])<<8 | uint32(m[2])
	if c&0x00800000 != 0 {
		out |= 0x00800000
	}
	return out
}
