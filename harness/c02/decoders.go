package c02

import (
	"bytes"
	"encoding/binary"
	"fmt"
	"io"
	"reflect"

	"github.com/elastos/Elastos.ELA/auxpow"
	"github.com/elastos/Elastos.ELA/blockchain/indexers"
	"github.com/elastos/Elastos.ELA/common/config"
	pg "github.com/elastos/Elastos.ELA/core/contract/program"
	"github.com/elastos/Elastos.ELA/core/types"
	ctypes "github.com/elastos/Elastos.ELA/core/types/common"
	"github.com/elastos/Elastos.ELA/core/types/interfaces"
	"github.com/elastos/Elastos.ELA/core/types/payload"
	crstate "github.com/elastos/Elastos.ELA/cr/state"
	dmsg "github.com/elastos/Elastos.ELA/dpos/p2p/msg"
	dstate "github.com/elastos/Elastos.ELA/dpos/state"
	"github.com/elastos/Elastos.ELA/elanet/bloom"
	"github.com/elastos/Elastos.ELA/p2p"
	"github.com/elastos/Elastos.ELA/p2p/msg"
	"pgregory.net/rapid"
	"verifharness/gen"
)

// Caps a decoder may allocate on its own authority before it has read the
// bytes (the property's mechanism: length-limited ReadVarBytes / ReadVarString
// and explicit count limits).  The allocation bound of a decoder is
// K*len(input) + 2*cap + slack.
const (
	capNone   = 64 << 10   // only small caps (keys, signatures, codes <= 64001)
	cap1M     = 1 << 20    // MaxPayloadDataSize / MaxOpinionDataSize / MaxProposalDataSize
	cap8M     = 8000000    // pact.MaxBlockContextSize (evidence headers)
	cap16M    = 16 << 20   // common.MaxVarStringLength (strings, attribute data)
	capInv    = 50000 * 44 // MaxInvPerMsg inventory vectors + pointers
	capMerkle = 10000*40 + cap16M/16
)

// seg is one Write call of the serializer: the field boundaries of a valid
// encoding.  Count and length fields are the 1/2/4/8-byte segments.
type seg struct{ off, n int }

type segWriter struct {
	buf  []byte
	segs []seg
}

func (w *segWriter) Write(p []byte) (int, error) {
	w.segs = append(w.segs, seg{len(w.buf), len(p)})
	w.buf = append(w.buf, p...)
	return len(p), nil
}

// decoder is one wire / disk decoder under test.
type decoder struct {
	name string
	cap  int
	// dec decodes in (ver = payload version where the decoder takes one)
	// and reports how many bytes it consumed.
	dec func(ver byte, in []byte) (int, error)
	// gen draws a valid value and returns its version and encoding through w.
	gen func(t *rapid.T, f *gen.Filler, w io.Writer) (ver byte, err error)
}

type serializable interface {
	Serialize(w io.Writer) error
	Deserialize(r io.Reader) error
}

func viaReader(in []byte, f func(r *bytes.Reader) error) (int, error) {
	r := bytes.NewReader(in)
	err := f(r)
	return len(in) - r.Len(), err
}

// plain builds a decoder for a self-contained Serialize/Deserialize type.
func plain(name string, cap int, fresh func() serializable, build func(t *rapid.T, f *gen.Filler) serializable) decoder {
	return decoder{
		name: name, cap: cap,
		dec: func(_ byte, in []byte) (int, error) {
			return viaReader(in, func(r *bytes.Reader) error { return fresh().Deserialize(r) })
		},
		gen: func(t *rapid.T, f *gen.Filler, w io.Writer) (byte, error) {
			return 0, build(t, f).Serialize(w)
		},
	}
}

func filled(f *gen.Filler, v serializable) serializable {
	f.Fill(v)
	return v
}

// payloadCaps: largest pre-read allocation each payload decoder may make.
var payloadCaps = map[string]int{
	"CoinBase": cap1M, "RegisterAsset": cap16M, "TransferAsset": capNone, "Record": cap16M,
	"SideChainPow": cap1M, "WithdrawFromSideChain": cap16M, "TransferCrossChainAsset": cap16M,
	"RegisterProducer": cap16M, "CancelProducer": capNone, "UpdateProducer": cap16M,
	"ReturnDepositCoin": capNone, "ActivateProducer": capNone,
	"IllegalProposalEvidence": cap8M, "IllegalVoteEvidence": cap8M, "IllegalBlockEvidence": cap8M,
	"IllegalSidechainEvidence": cap16M, "InactiveArbitrators": capNone, "UpdateVersion": capNone,
	"NextTurnDPOSInfo": capNone, "ProposalResult": capNone, "RegisterCR": cap16M, "UnregisterCR": capNone,
	"UpdateCR": cap16M, "ReturnCRDepositCoin": capNone, "CRCProposal": cap16M, "CRCProposalReview": cap1M,
	"CRCProposalTracking": cap1M, "CRCAppropriation": capNone, "CRCProposalWithdraw": capNone,
	"CRCProposalRealWithdraw": capNone, "CRAssetsRectify": capNone, "CRCouncilMemberClaimNode": capNone,
	"RevertToPOW": capNone, "RevertToDPOS": capNone, "ReturnSideChainDepositCoin": capNone,
	"DposV2ClaimReward": capNone, "DposV2ClaimRewardRealWithdraw": capNone, "ExchangeVotes": capNone,
	"Voting": capNone, "ReturnVotes": capNone, "VotesRealWithdraw": capNone, "RecordSponsor": capNone,
	"CreateNFT": cap16M, "NFTDestroyFromSideChain": capNone,
}

var outputPayloadCaps = map[ctypes.OutputType]int{
	ctypes.OTNone: capNone, ctypes.OTVote: capNone, ctypes.OTMapping: capNone, ctypes.OTCrossChain: cap16M,
	ctypes.OTWithdrawFromSideChain: cap16M, ctypes.OTReturnSideChainDepositCoin: cap16M,
	ctypes.OTDposV2Vote: capNone, ctypes.OTStake: capNone,
}

func drawVersion(t *rapid.T, spec *gen.TxSpec) byte {
	v := rapid.SampledFrom(spec.Versions).Draw(t, "payloadVersion")
	if rapid.IntRange(0, 9).Draw(t, "undefVer") == 0 {
		max := spec.Versions[len(spec.Versions)-1]
		v = rapid.SampledFrom([]byte{max + 1, 0x7f, 0xff}).Draw(t, "undefVerVal")
	}
	return v
}

// decoders is the table: every wire/disk decoder of the statement.
var decoders = buildDecoders()

func buildDecoders() []decoder {
	var ds []decoder

	// ---- transactions of every type (payload version drawn per case)
	for i := range gen.Specs {
		spec := &gen.Specs[i]
		ds = append(ds, decoder{
			name: "tx/" + spec.Name, cap: cap16M,
			dec: func(_ byte, in []byte) (int, error) {
				_, n, err := gen.DecodeTx(in)
				return n, err
			},
			gen: func(t *rapid.T, f *gen.Filler, w io.Writer) (byte, error) {
				pv := drawVersion(t, spec)
				tv := ctypes.TransactionVersion(9)
				if spec.Type <= ctypes.TransferCrossChainAsset && rapid.Bool().Draw(t, "txv0") {
					tv = 0
				}
				tx := f.BuildTx(tv, spec.Type, pv, &gen.TxOpts{Ring: f.Ring, MaxAttrs: 2, MaxInputs: 2, MaxOutputs: 3, MaxPrograms: 2, Budget: f.Budget})
				return pv, tx.Serialize(w)
			},
		})
	}

	// ---- payloads alone, Deserialize(r, version)
	for i := range gen.Specs {
		spec := &gen.Specs[i]
		c, ok := payloadCaps[spec.Name]
		if !ok {
			panic("c02: no cap for payload of " + spec.Name)
		}
		p0, _ := interfaces.GetPayload(spec.Type, 0)
		ds = append(ds, decoder{
			name: fmt.Sprintf("payload/%s(%s)", reflect.TypeOf(p0).Elem().Name(), spec.Name), cap: c,
			dec: func(ver byte, in []byte) (int, error) {
				p, err := interfaces.GetPayload(spec.Type, ver)
				if err != nil {
					return 0, err
				}
				return viaReader(in, func(r *bytes.Reader) error { return p.Deserialize(r, ver) })
			},
			gen: func(t *rapid.T, f *gen.Filler, w io.Writer) (byte, error) {
				pv := drawVersion(t, spec)
				return pv, f.Payload(spec.Type, pv).Serialize(w, pv)
			},
		})
	}

	// ---- output payloads, outputs, attributes, programs, inputs
	for _, ot := range gen.OutputTypes {
		ot := ot
		p0 := gen.NewOutputPayload(ot)
		ds = append(ds, decoder{
			name: fmt.Sprintf("outputpayload/%d(%s)", ot, reflect.TypeOf(p0).Elem().Name()), cap: outputPayloadCaps[ot],
			dec: func(_ byte, in []byte) (int, error) {
				return viaReader(in, func(r *bytes.Reader) error { return gen.NewOutputPayload(ot).Deserialize(r) })
			},
			gen: func(t *rapid.T, f *gen.Filler, w io.Writer) (byte, error) {
				return 0, f.OutputPayload(ot).Serialize(w)
			},
		})
	}
	for _, tv := range []ctypes.TransactionVersion{0, 9} {
		tv := tv
		ds = append(ds, decoder{
			name: fmt.Sprintf("output/txv%d", tv), cap: cap16M,
			dec: func(_ byte, in []byte) (int, error) {
				return viaReader(in, func(r *bytes.Reader) error { return new(ctypes.Output).Deserialize(r, tv) })
			},
			gen: func(t *rapid.T, f *gen.Filler, w io.Writer) (byte, error) {
				return 0, f.GenOutput(tv, nil).Serialize(w, tv)
			},
		})
	}
	ds = append(ds,
		plain("attribute", cap16M, func() serializable { return new(ctypes.Attribute) },
			func(t *rapid.T, f *gen.Filler) serializable { return gen.GenAttribute(t, f.Budget) }),
		plain("program", capNone, func() serializable { return new(pg.Program) },
			func(t *rapid.T, f *gen.Filler) serializable { return f.GenProgram() }),
		plain("input", capNone, func() serializable { return new(ctypes.Input) },
			func(t *rapid.T, f *gen.Filler) serializable { return gen.GenInput(t) }),
	)

	// ---- blocks, headers, auxpow, confirm
	blockOpts := func(f *gen.Filler) gen.TxOpts {
		return gen.TxOpts{Ring: f.Ring, MaxAttrs: 1, MaxInputs: 2, MaxOutputs: 2, MaxPrograms: 1, Budget: f.Budget}
	}
	ds = append(ds,
		plain("block", cap16M, func() serializable { return new(types.Block) },
			func(t *rapid.T, f *gen.Filler) serializable { return gen.GenBlock(t, blockOpts(f), 0, 3) }),
		decoder{
			name: "block.DeserializeTxLoc", cap: cap16M,
			dec: func(_ byte, in []byte) (int, error) {
				buf := bytes.NewBuffer(append([]byte(nil), in...))
				_, err := new(types.Block).DeserializeTxLoc(buf)
				return len(in) - buf.Len(), err
			},
			gen: func(t *rapid.T, f *gen.Filler, w io.Writer) (byte, error) {
				return 0, gen.GenBlock(t, blockOpts(f), 0, 3).Serialize(w)
			},
		},
		plain("dposblock", cap16M, func() serializable { return new(types.DposBlock) },
			func(t *rapid.T, f *gen.Filler) serializable { return gen.GenDposBlock(t, blockOpts(f), 0, 3) }),
		plain("header", capNone, func() serializable { return new(ctypes.Header) },
			func(t *rapid.T, f *gen.Filler) serializable {
				h := f.GenHeader(rapid.Bool().Draw(t, "withAux"))
				return &h
			}),
		decoder{
			name: "header.DeserializeNoAux", cap: capNone,
			dec: func(_ byte, in []byte) (int, error) {
				return viaReader(in, func(r *bytes.Reader) error { return new(ctypes.Header).DeserializeNoAux(r) })
			},
			gen: func(t *rapid.T, f *gen.Filler, w io.Writer) (byte, error) {
				h := f.GenHeader(false)
				return 0, h.SerializeNoAux(w)
			},
		},
		plain("dposheader", capNone, func() serializable { return new(types.DPOSHeader) },
			func(t *rapid.T, f *gen.Filler) serializable {
				h := &types.DPOSHeader{Header: f.GenHeader(rapid.Bool().Draw(t, "withAux"))}
				if rapid.Bool().Draw(t, "haveConfirm") {
					h.HaveConfirm = true
					h.Confirm = *f.GenConfirm(3)
				}
				return h
			}),
		plain("auxpow", capNone, func() serializable { return new(auxpow.AuxPow) },
			func(t *rapid.T, f *gen.Filler) serializable { a := f.GenAuxPow(); return &a }),
		plain("btctx", capNone, func() serializable { return new(auxpow.BtcTx) },
			func(t *rapid.T, f *gen.Filler) serializable { a := f.GenAuxPow(); return &a.ParCoinbaseTx }),
		plain("btcheader", capNone, func() serializable { return new(auxpow.BtcHeader) },
			func(t *rapid.T, f *gen.Filler) serializable { a := f.GenAuxPow(); return &a.ParBlockHeader }),
		plain("confirm", capNone, func() serializable { return new(payload.Confirm) },
			func(t *rapid.T, f *gen.Filler) serializable { return f.GenConfirm(4) }),
		plain("dposproposal", capNone, func() serializable { return new(payload.DPOSProposal) },
			func(t *rapid.T, f *gen.Filler) serializable { return filled(f, new(payload.DPOSProposal)) }),
		plain("dposproposalvote", capNone, func() serializable { return new(payload.DPOSProposalVote) },
			func(t *rapid.T, f *gen.Filler) serializable { return filled(f, new(payload.DPOSProposalVote)) }),
		plain("detailedvoteinfo", capNone, func() serializable { return new(payload.DetailedVoteInfo) },
			func(t *rapid.T, f *gen.Filler) serializable { return filled(f, new(payload.DetailedVoteInfo)) }),
		plain("merkleproof", capMerkle, func() serializable { return new(bloom.MerkleProof) },
			func(t *rapid.T, f *gen.Filler) serializable { return filled(f, new(bloom.MerkleProof)) }),
	)

	// ---- disk: checkpoints and the transaction cache (read back at start-up).
	// Valid encodings are those of the empty state (every count field present
	// as its own segment) and, for the cache, of 0-3 generated transactions.
	ds = append(ds,
		decoder{
			name: "disk/dposcheckpoint", cap: cap16M,
			dec: func(_ byte, in []byte) (int, error) {
				return viaReader(in, func(r *bytes.Reader) error { return new(dstate.CheckPoint).Deserialize(r) })
			},
			gen: func(t *rapid.T, f *gen.Filler, w io.Writer) (byte, error) {
				c := new(dstate.CheckPoint)
				c.Height = rapid.Uint32().Draw(t, "cpHeight")
				return 0, c.Serialize(w)
			},
		},
		decoder{
			name: "disk/crcheckpoint", cap: cap16M,
			dec: func(_ byte, in []byte) (int, error) {
				return viaReader(in, func(r *bytes.Reader) error { return new(crstate.Checkpoint).Deserialize(r) })
			},
			gen: func(t *rapid.T, f *gen.Filler, w io.Writer) (byte, error) {
				c := new(crstate.Checkpoint)
				c.Height = rapid.Uint32().Draw(t, "cpHeight")
				return 0, c.Serialize(w)
			},
		},
		decoder{
			name: "disk/txcache-checkpoint", cap: cap16M,
			dec: func(_ byte, in []byte) (int, error) {
				cp := indexers.NewCheckpoint(&indexers.UnspentIndex{TxCache: indexers.NewTxCache(config.GetDefaultParams())})
				return viaReader(in, func(r *bytes.Reader) error { return cp.Deserialize(r) })
			},
			gen: func(t *rapid.T, f *gen.Filler, w io.Writer) (byte, error) {
				// height, varint count, then (height, transaction) records
				var hb [4]byte
				binary.LittleEndian.PutUint32(hb[:], rapid.Uint32().Draw(t, "cpHeight"))
				if _, err := w.Write(hb[:]); err != nil {
					return 0, err
				}
				n := rapid.IntRange(0, 3).Draw(t, "cacheTxs")
				if _, err := w.Write(gen.VarUint(uint64(n))); err != nil {
					return 0, err
				}
				for i := 0; i < n; i++ {
					binary.LittleEndian.PutUint32(hb[:], rapid.Uint32().Draw(t, "txHeight"))
					if _, err := w.Write(hb[:]); err != nil {
						return 0, err
					}
					tx := gen.GenTx(t, gen.TxOpts{Ring: f.Ring, MaxAttrs: 1, MaxInputs: 2, MaxOutputs: 2, MaxPrograms: 1, Budget: f.Budget})
					if err := tx.Serialize(w); err != nil {
						return 0, err
					}
				}
				return 0, nil
			},
		},
	)

	// ---- p2p and dpos messages through their own Deserialize
	for _, m := range messages {
		m := m
		ds = append(ds, decoder{
			name: "msg/" + m.net + "/" + m.name, cap: m.cap,
			dec: func(_ byte, in []byte) (int, error) {
				return viaReader(in, func(r *bytes.Reader) error { return m.fresh().Deserialize(r) })
			},
			gen: func(t *rapid.T, f *gen.Filler, w io.Writer) (byte, error) {
				return 0, m.build(t, f).Serialize(w)
			},
		})
	}
	return ds
}

// message describes one P2P / DPoS command.
type message struct {
	net, name string // "main" | "dpos", command
	cap       int
	framed    bool // reachable through the node's framed read path
	fresh     func() p2p.Message
	build     func(t *rapid.T, f *gen.Filler) p2p.Message
}

func fillMsg(fresh func() p2p.Message) func(t *rapid.T, f *gen.Filler) p2p.Message {
	return func(t *rapid.T, f *gen.Filler) p2p.Message {
		m := fresh()
		f.Fill(m)
		return m
	}
}

func m(net, name string, cap int, framed bool, fresh func() p2p.Message, build func(t *rapid.T, f *gen.Filler) p2p.Message) message {
	if build == nil {
		build = fillMsg(fresh)
	}
	return message{net, name, cap, framed, fresh, build}
}

func smallBlockOpts(f *gen.Filler) gen.TxOpts {
	return gen.TxOpts{Ring: f.Ring, MaxAttrs: 1, MaxInputs: 2, MaxOutputs: 2, MaxPrograms: 1, Budget: f.Budget}
}

var messages = []message{
	// main net (p2p/msg); framed = handled by p2p/peer.createMessage or elanet.createMessage
	m("main", p2p.CmdVersion, cap16M, true, func() p2p.Message { return new(msg.Version) }, nil),
	m("main", p2p.CmdVerAck, capNone, true, func() p2p.Message { return new(msg.VerAck) }, nil),
	m("main", p2p.CmdGetAddr, capNone, true, func() p2p.Message { return new(msg.GetAddr) }, nil),
	m("main", p2p.CmdAddr, capNone, true, func() p2p.Message { return new(msg.Addr) }, nil),
	m("main", p2p.CmdPing, capNone, true, func() p2p.Message { return new(msg.Ping) }, nil),
	m("main", p2p.CmdPong, capNone, true, func() p2p.Message { return new(msg.Pong) }, nil),
	m("main", p2p.CmdMemPool, capNone, true, func() p2p.Message { return new(msg.MemPool) }, nil),
	m("main", p2p.CmdTx, cap16M, true,
		func() p2p.Message {
			return msg.NewTx(&lazyTx{})
		},
		func(t *rapid.T, f *gen.Filler) p2p.Message {
			return msg.NewTx(gen.GenTx(t, gen.TxOpts{Ring: f.Ring, MaxAttrs: 2, MaxInputs: 2, MaxOutputs: 3, MaxPrograms: 2, Budget: f.Budget, UndefinedVersions: true}))
		}),
	m("main", p2p.CmdBlock, cap16M, true, func() p2p.Message { return msg.NewBlock(new(types.DposBlock)) },
		func(t *rapid.T, f *gen.Filler) p2p.Message {
			return msg.NewBlock(gen.GenDposBlock(t, smallBlockOpts(f), 0, 3))
		}),
	m("main", p2p.CmdInv, capInv, true, func() p2p.Message { return new(msg.Inv) }, nil),
	m("main", p2p.CmdNotFound, capInv, true, func() p2p.Message { return new(msg.NotFound) }, nil),
	m("main", p2p.CmdGetData, capInv, true, func() p2p.Message { return new(msg.GetData) }, nil),
	m("main", p2p.CmdGetBlocks, capNone, true, func() p2p.Message { return new(msg.GetBlocks) }, nil),
	m("main", p2p.CmdFilterAdd, capNone, true, func() p2p.Message { return new(msg.FilterAdd) }, nil),
	m("main", p2p.CmdFilterClear, capNone, true, func() p2p.Message { return new(msg.FilterClear) }, nil),
	m("main", p2p.CmdFilterLoad, capNone, true, func() p2p.Message { return new(msg.FilterLoad) },
		func(t *rapid.T, f *gen.Filler) p2p.Message {
			x := new(msg.FilterLoad)
			f.Fill(x)
			x.HashFuncs %= msg.MaxFilterLoadHashFuncs + 1
			return x
		}),
	m("main", p2p.CmdTxFilter, capNone, true, func() p2p.Message { return new(msg.TxFilterLoad) }, nil),
	m("main", p2p.CmdReject, cap16M, true, func() p2p.Message { return new(msg.Reject) }, nil),
	m("main", p2p.CmdDAddr, capNone, true, func() p2p.Message { return new(msg.DAddr) }, nil),
	m("main", p2p.CmdMerkleBlock, capMerkle, false, func() p2p.Message { return msg.NewMerkleBlock(new(ctypes.Header)) },
		func(t *rapid.T, f *gen.Filler) p2p.Message {
			h := f.GenHeader(rapid.Bool().Draw(t, "withAux"))
			x := msg.NewMerkleBlock(&h)
			x.Transactions = rapid.Uint32().Draw(t, "mbTxs")
			for i, n := 0, rapid.IntRange(0, 5).Draw(t, "mbHashes"); i < n; i++ {
				u := gen.Uint256().Draw(t, "mbHash")
				x.Hashes = append(x.Hashes, &u)
			}
			x.Flags = gen.DataBytes(1250, f.Budget).Draw(t, "mbFlags")
			return x
		}),

	// DPoS network (dpos/p2p/msg); framed = dpos/p2p/peer.createMessage or dpos.createMessage
	m("dpos", dmsg.CmdVersion, cap16M, true, func() p2p.Message { return new(dmsg.Version) }, nil),
	m("dpos", dmsg.CmdVerAck, capNone, true, func() p2p.Message { return new(dmsg.VerAck) }, nil),
	m("dpos", dmsg.CmdAddr, cap16M, true, func() p2p.Message { return new(dmsg.Addr) }, nil),
	m("dpos", dmsg.CmdPing, capNone, true, func() p2p.Message { return new(dmsg.Ping) }, nil),
	m("dpos", dmsg.CmdPong, capNone, true, func() p2p.Message { return new(dmsg.Pong) }, nil),
	m("dpos", dmsg.CmdInv, capNone, true, func() p2p.Message { return new(dmsg.Inventory) }, nil),
	m("dpos", dmsg.CmdGetBlock, capNone, true, func() p2p.Message { return new(dmsg.GetBlock) }, nil),
	m("dpos", dmsg.CmdReceivedProposal, capNone, true, func() p2p.Message { return new(dmsg.Proposal) }, nil),
	m("dpos", dmsg.CmdAcceptVote, capNone, true, func() p2p.Message { return &dmsg.Vote{Command: dmsg.CmdAcceptVote} },
		func(t *rapid.T, f *gen.Filler) p2p.Message {
			x := &dmsg.Vote{}
			f.Fill(&x.Vote)
			x.Command = dmsg.CmdAcceptVote
			return x
		}),
	m("dpos", dmsg.CmdRejectVote, capNone, true, func() p2p.Message { return &dmsg.Vote{Command: dmsg.CmdRejectVote} },
		func(t *rapid.T, f *gen.Filler) p2p.Message {
			x := &dmsg.Vote{}
			f.Fill(&x.Vote)
			x.Command = dmsg.CmdRejectVote
			return x
		}),
	m("dpos", dmsg.CmdGetBlocks, capNone, true, func() p2p.Message { return new(dmsg.GetBlocks) }, nil),
	m("dpos", dmsg.CmdResponseBlocks, cap16M, true, func() p2p.Message { return new(dmsg.ResponseBlocks) },
		func(t *rapid.T, f *gen.Filler) p2p.Message {
			x := new(dmsg.ResponseBlocks)
			for i, n := 0, rapid.IntRange(0, 2).Draw(t, "rbBlocks"); i < n; i++ {
				x.BlockConfirms = append(x.BlockConfirms, gen.GenDposBlock(t, smallBlockOpts(f), 0, 2))
			}
			return x
		}),
	m("dpos", dmsg.CmdRequestConsensus, capNone, true, func() p2p.Message { return new(dmsg.RequestConsensus) }, nil),
	m("dpos", dmsg.CmdResponseConsensus, capNone, true, func() p2p.Message { return new(dmsg.ResponseConsensus) }, nil),
	m("dpos", dmsg.CmdRequestProposal, capNone, true, func() p2p.Message { return new(dmsg.RequestProposal) }, nil),
	m("dpos", dmsg.CmdIllegalProposals, cap8M, true, func() p2p.Message { return new(dmsg.IllegalProposals) }, nil),
	m("dpos", dmsg.CmdIllegalVotes, cap8M, true, func() p2p.Message { return new(dmsg.IllegalVotes) }, nil),
	m("dpos", dmsg.CmdSidechainIllegalData, cap16M, true, func() p2p.Message { return new(dmsg.SidechainIllegalData) }, nil),
	m("dpos", dmsg.CmdResponseInactiveArbitrators, capNone, true, func() p2p.Message { return new(dmsg.ResponseInactiveArbitrators) }, nil),
	m("dpos", dmsg.CmdResponseRevertToDPOS, capNone, true, func() p2p.Message { return new(dmsg.ResponseRevertToDPOS) }, nil),
	m("dpos", dmsg.CmdResetConsensusView, capNone, true, func() p2p.Message { return new(dmsg.ResetView) }, nil),
	// the DPoS network also carries blocks (types.Block) and transactions
	m("dpos", p2p.CmdBlock, cap16M, true, func() p2p.Message { return msg.NewBlock(new(types.Block)) },
		func(t *rapid.T, f *gen.Filler) p2p.Message {
			return msg.NewBlock(gen.GenBlock(t, smallBlockOpts(f), 0, 3))
		}),
	m("dpos", p2p.CmdTx, cap16M, true,
		func() p2p.Message {
			return msg.NewTx(&lazyTx{})
		},
		func(t *rapid.T, f *gen.Filler) p2p.Message {
			return msg.NewTx(gen.GenTx(t, gen.TxOpts{Ring: f.Ring, MaxAttrs: 2, MaxInputs: 2, MaxOutputs: 3, MaxPrograms: 2, Budget: f.Budget, UndefinedVersions: true}))
		}),
	m("dpos", "reject", cap16M, false, func() p2p.Message { return new(dmsg.Reject) }, nil),
	m("dpos", "daddr", cap16M, false, func() p2p.Message { return new(dmsg.Daddr) }, nil),
}

// lazyTx decodes a transaction the way CheckAndCreateTxMessage does
// (GetTransactionByBytes, then Deserialize on the same reader).
type lazyTx struct{ tx interfaces.Transaction }

func (l *lazyTx) Serialize(w io.Writer) error { return l.tx.Serialize(w) }
func (l *lazyTx) Deserialize(r io.Reader) error {
	br, ok := r.(*bytes.Reader)
	if !ok {
		return fmt.Errorf("lazyTx needs a bytes.Reader")
	}
	b := make([]byte, br.Len())
	_, _ = io.ReadFull(br, b)
	tx, n, err := gen.DecodeTx(b)
	l.tx = tx
	_, _ = br.Seek(int64(n-len(b)), io.SeekCurrent)
	return err
}
