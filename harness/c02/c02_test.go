// C02 - decoding untrusted bytes never panics and allocates within bounds.
//
// Every wire / disk decoder of the statement is driven with (a) valid
// encodings carrying 1-3 byte mutations, (b) grammar-aware hostile inputs: a
// valid encoding whose count / length field (found from the serializer's own
// Write boundaries) is replaced by a hostile value, (c) raw bytes.
// Oracle: no panic (recovered; top in-repo frame is the signature), TotalAlloc
// delta of the call <= K*len(input) + 2*cap(decoder) + slack, and no fatal
// runtime error (the input is journalled before every call).
package c02

import (
	"bytes"
	"encoding/binary"
	"encoding/hex"
	"fmt"
	"net"
	"os"
	"runtime"
	"runtime/debug"
	"strings"
	"testing"
	"time"

	"github.com/elastos/Elastos.ELA/common"
	"github.com/elastos/Elastos.ELA/common/log"
	"github.com/elastos/Elastos.ELA/dpos"
	dmsg "github.com/elastos/Elastos.ELA/dpos/p2p/msg"
	"github.com/elastos/Elastos.ELA/elanet"
	"github.com/elastos/Elastos.ELA/p2p"
	"github.com/elastos/Elastos.ELA/p2p/msg"
	"github.com/elastos/Elastos.ELA/p2p/peer"
	"pgregory.net/rapid"
	"verifharness/gen"
	"verifharness/lib/vk"
)

const (
	// allocK: "a small multiple of the input length".  Go's append growth
	// alone costs up to ~5x the final slice, and the smallest wire element (a
	// one-byte empty string / var-bytes / content header) becomes a 16-32 byte
	// header, so honest decoding reaches ~100 bytes per input byte; 256 leaves
	// margin while an unbounded wire count overshoots by orders of magnitude.
	allocK = 256
	// slack: fixed overheads (readers, error values, formatted messages).
	allocSlack = 64 << 10
)

func TestMain(m *testing.M) {
	gen.Init()
	// the node initialises its logger before any peer is served; decoders log
	dir, err := os.MkdirTemp("", "c02log")
	if err != nil {
		panic(err)
	}
	log.NewDefault(dir, 6, 0, 0)
	debug.SetGCPercent(400)
	vk.Main(m, "C02")
}

// measure runs f and returns the bytes allocated during the call.
func measure(f func()) uint64 {
	var a, b runtime.MemStats
	runtime.ReadMemStats(&a)
	f()
	runtime.ReadMemStats(&b)
	return b.TotalAlloc - a.TotalAlloc
}

func bound(inLen, cap int) uint64 {
	return uint64(allocK)*uint64(inLen) + 2*uint64(cap) + allocSlack
}

// journal layout: "C02J1" | kind(1) | index(uint16 LE) | ver(1) | extra(uint32 LE) | input
func journal(kind byte, idx int, ver byte, extra uint32, in []byte) {
	b := make([]byte, 0, 13+len(in))
	b = append(b, "C02J1"...)
	b = append(b, kind)
	b = binary.LittleEndian.AppendUint16(b, uint16(idx))
	b = append(b, ver)
	b = binary.LittleEndian.AppendUint32(b, extra)
	b = append(b, in...)
	vk.Journal(b)
}

// verdict runs one decoder on one input under the oracle.  It returns the
// signature of a violation ("" if none), the detail, and the bytes consumed.
func verdict(name string, cap int, in []byte, call func() (int, error)) (sig, detail string, consumed int, derr error) {
	var n int
	var err error
	var alloc uint64
	panicked, val, frame := vk.Catch(func() {
		alloc = measure(func() { n, err = call() })
	})
	if panicked {
		kind := "panic"
		s := fmt.Sprint(val)
		switch {
		case strings.Contains(s, "makeslice"):
			kind = "makeslice"
		case strings.Contains(s, "out of range"):
			kind = "index-out-of-range"
		case strings.Contains(s, "nil pointer"):
			kind = "nil-deref"
		}
		return "C02:" + frame + ":" + kind, fmt.Sprintf("panic in decoder %s: %v", name, val), 0, nil
	}
	if b := bound(len(in), cap); alloc > b {
		return "C02:" + name + ":alloc", fmt.Sprintf("allocated %d bytes decoding %d input bytes (bound %d = %d*len + 2*%d + %d)", alloc, len(in), b, allocK, cap, allocSlack), n, err
	}
	return "", "", n, err
}

// survey mode (C02_SURVEY=1): count signatures instead of failing, to list
// every failing site of a tree in one run (diagnostic; never used by vcheck).
var (
	survey     = os.Getenv("C02_SURVEY") != ""
	surveySigs = map[string]int{}
	surveyEx   = map[string]string{}
)

func report(t vk.TB, sig, detail string, rendered map[string]any) {
	if survey {
		surveySigs[sig]++
		if _, ok := surveyEx[sig]; !ok {
			surveyEx[sig] = fmt.Sprintf("%s input=%v ver=%v", detail, rendered["input"], rendered["version"])
		}
		return
	}
	vk.Report(t, sig, detail, rendered)
}

func dumpSurvey(t *testing.T) {
	if !survey {
		return
	}
	for sig, n := range surveySigs {
		t.Logf("SURVEY %6d %s :: %.300s", n, sig, surveyEx[sig])
	}
}

func render(name string, ver byte, kind string, in []byte, detail string) map[string]any {
	return map[string]any{"decoder": name, "version": ver, "inputKind": kind, "input": hex.EncodeToString(in), "len": len(in), "detail": detail}
}

// hostileInput builds the three input kinds from a valid encoding.
// reach = offset the decoder must consume beyond for the case to count.
func hostileInput(t *rapid.T, enc []byte, segs []seg) (in []byte, kind string, reach int) {
	switch k := rapid.IntRange(0, 9).Draw(t, "inputKind"); {
	case k <= 2 || len(enc) == 0: // (a) mutated valid encoding
		if len(enc) == 0 {
			return rapid.SliceOfN(rapid.Byte(), 0, 40).Draw(t, "raw"), "raw", 0
		}
		return gen.MutateN(t, enc, 3), "mutated", 0
	case k <= 8: // (b) hostile count / length
		var cands []seg
		for _, s := range segs {
			if s.n == 1 || s.n == 2 || s.n == 4 || s.n == 8 {
				cands = append(cands, s)
			}
		}
		if len(cands) == 0 {
			return gen.MutateN(t, enc, 3), "mutated", 0
		}
		s := cands[gen.UniformIndex(t, len(cands), "field")]
		v := gen.HostileCount().Draw(t, "hostile")
		out := append([]byte(nil), enc[:s.off]...)
		switch {
		case s.n == 1: // varint (or a one-byte field): any width
			if rapid.IntRange(0, 5).Draw(t, "noncanon") == 0 {
				if b, ok := gen.VarUintWidth(v, rapid.SampledFrom([]int{3, 5, 9}).Draw(t, "width")); ok {
					out = append(out, b...)
					break
				}
			}
			out = append(out, gen.VarUint(v)...)
		case s.n == 2:
			out = binary.LittleEndian.AppendUint16(out, uint16(v))
		case s.n == 4:
			out = binary.LittleEndian.AppendUint32(out, uint32(v))
		default:
			out = binary.LittleEndian.AppendUint64(out, v)
		}
		switch rapid.IntRange(0, 2).Draw(t, "tail") {
		case 0:
		case 1:
			out = append(out, enc[s.off+s.n:]...)
		default:
			out = append(out, rapid.SliceOfN(rapid.Byte(), 0, 64).Draw(t, "tailBytes")...)
		}
		return out, "hostile-count", s.off
	default: // (c) raw
		return rapid.SliceOfN(rapid.Byte(), 0, 200).Draw(t, "raw"), "raw", 1
	}
}

func budget() int {
	if vk.Thorough() {
		return 70000
	}
	return 300
}

func oneDecoderCase(t *rapid.T, di int) {
	d := &decoders[di]
	f := gen.NewFiller(t, nil)
	f.Budget = budget()
	f.MaxElems = 3
	dmsg.SetPayloadVersion(uint32(rapid.IntRange(0, 1).Draw(t, "dposPayloadVersion")))
	w := &segWriter{}
	ver, err := d.gen(t, f, w)
	if err != nil {
		t.Fatalf("harness: %s: valid value does not serialize: %v", d.name, err)
	}
	in, kind, reach := hostileInput(t, w.buf, w.segs)
	if rapid.IntRange(0, 19).Draw(t, "otherVersion") == 0 {
		ver = rapid.Byte().Draw(t, "ver")
	}
	journal('d', di, ver, uint32(dmsg.GetPayloadVersion()), in)
	sig, detail, consumed, _ := verdict(d.name, d.cap, in, func() (int, error) { return d.dec(ver, in) })
	nontrivial := len(in) > 0 && consumed > reach
	vk.Case(d.name+"/"+kind, nontrivial, append([]byte(d.name), in...), func() any { return render(d.name, ver, kind, in, "") })
	if sig != "" {
		report(t, sig, detail, render(d.name, ver, kind, in, detail))
	}
}

// TestDecoders: every decoder of the table, drawn uniformly.
func TestDecoders(t *testing.T) {
	rapid.Check(t, func(t *rapid.T) {
		oneDecoderCase(t, gen.UniformIndex(t, len(decoders), "decoder"))
	})
	dumpSurvey(t)
}

// TestDecodersEach (thorough): -rapid.checks cases for every decoder in turn.
func TestDecodersEach(t *testing.T) {
	shard, nshards := vk.Shard()
	for i := range decoders {
		if i%nshards != shard {
			continue
		}
		i := i
		t.Run(strings.NewReplacer("/", "_", "(", "_", ")", "").Replace(decoders[i].name), func(t *testing.T) {
			rapid.Check(t, func(t *rapid.T) { oneDecoderCase(t, i) })
		})
	}
}

// ---------------------------------------------------------------- framed read path

const magic = 0x7630401f

type fakeConn struct {
	r *bytes.Reader
}

func (c *fakeConn) Read(b []byte) (int, error)       { return c.r.Read(b) }
func (c *fakeConn) Write(b []byte) (int, error)      { return len(b), nil }
func (c *fakeConn) Close() error                     { return nil }
func (c *fakeConn) LocalAddr() net.Addr              { return &net.TCPAddr{} }
func (c *fakeConn) RemoteAddr() net.Addr             { return &net.TCPAddr{} }
func (c *fakeConn) SetDeadline(time.Time) error      { return nil }
func (c *fakeConn) SetReadDeadline(time.Time) error  { return nil }
func (c *fakeConn) SetWriteDeadline(time.Time) error { return nil }

// createMain / createDPoS mirror Peer.createMessage of the two networks: the
// handshake commands are built by the peer, everything else by the node's
// factory (exported by the verif hooks).
func createMain(hdr p2p.Header, r net.Conn) (p2p.Message, error) {
	var m p2p.Message
	switch hdr.GetCMD() {
	case p2p.CmdVersion:
		m = &msg.Version{}
	case p2p.CmdVerAck:
		m = &msg.VerAck{}
	case p2p.CmdGetAddr:
		m = &msg.GetAddr{}
	case p2p.CmdAddr:
		m = &msg.Addr{}
	case p2p.CmdPing:
		m = &msg.Ping{}
	case p2p.CmdPong:
		m = &msg.Pong{}
	default:
		return elanet.VerifCreateMessage(hdr, r)
	}
	return peer.CheckAndCreateMessage(hdr, m, r)
}

func createDPoS(hdr p2p.Header, r net.Conn) (p2p.Message, error) {
	var m p2p.Message
	switch hdr.GetCMD() {
	case dmsg.CmdVersion:
		m = &dmsg.Version{}
	case dmsg.CmdVerAck:
		m = &dmsg.VerAck{}
	case dmsg.CmdAddr:
		m = &dmsg.Addr{}
	case dmsg.CmdPing:
		m = &dmsg.Ping{}
	case dmsg.CmdPong:
		m = &dmsg.Pong{}
	default:
		return dpos.VerifCreateMessage(hdr, r)
	}
	return peer.CheckAndCreateMessage(hdr, m, r)
}

func frame(cmd string, length uint32, checksumOf []byte, payload []byte) []byte {
	sum := common.Sha256D(checksumOf)
	out := make([]byte, 0, 24+len(payload))
	out = binary.LittleEndian.AppendUint32(out, magic)
	var c [12]byte
	copy(c[:], cmd)
	out = append(out, c[:]...)
	out = binary.LittleEndian.AppendUint32(out, length)
	out = append(out, sum[:4]...)
	return append(out, payload...)
}

func readFramed(net string, in []byte) (int, error) {
	c := &fakeConn{r: bytes.NewReader(in)}
	create := createMain
	if net == "dpos" {
		create = createDPoS
	}
	_, err := p2p.ReadMessage(c, magic, time.Minute, create)
	return len(in) - c.r.Len(), err
}

// framedBound returns the cap the framed read path may use for input in: the
// decoder cap plus MaxLength of the command NAMED IN THE HEADER (the node
// dispatches on it), or nothing for a command that network does not handle.
func framedBound(net string, in []byte) (name string, cap int) {
	if len(in) < 24 {
		return "framed/" + net + "/short-header", capNone
	}
	cmd := string(bytes.TrimRight(in[4:16], "\x00"))
	for i := range messages {
		m := &messages[i]
		if m.framed && m.net == net && m.name == cmd {
			return "framed/" + net + "/" + cmd, m.cap + int(m.fresh().MaxLength())
		}
	}
	return "framed/" + net + "/unknown-command", capNone
}

var framedMessages = func() []int {
	var idx []int
	for i, m := range messages {
		if m.framed {
			idx = append(idx, i)
		}
	}
	return idx
}()

func oneFramedCase(t *rapid.T, mi int) {
	m := &messages[mi]
	f := gen.NewFiller(t, nil)
	f.Budget = budget()
	f.MaxElems = 3
	dmsg.SetPayloadVersion(uint32(rapid.IntRange(0, 1).Draw(t, "dposPayloadVersion")))
	w := &segWriter{}
	if err := m.build(t, f).Serialize(w); err != nil {
		t.Fatalf("harness: %s/%s: valid message does not serialize: %v", m.net, m.name, err)
	}
	maxLen := m.fresh().MaxLength()
	var in []byte
	kind := ""
	reach := 24
	switch k := rapid.IntRange(0, 9).Draw(t, "frameKind"); {
	case k <= 5: // correct header, payload of the three kinds
		payload, pk, r := hostileInput(t, w.buf, w.segs)
		in, kind, reach = frame(m.name, uint32(len(payload)), payload, payload), "framed/"+pk, 24+r
	case k == 6: // declared length differs from what follows
		length := uint32(gen.HostileCount().Draw(t, "declLen"))
		if rapid.Bool().Draw(t, "nearMax") {
			length = maxLen - uint32(rapid.IntRange(0, 2).Draw(t, "belowMax")) + uint32(rapid.IntRange(0, 2).Draw(t, "aboveMax"))
		}
		in, kind = frame(m.name, length, w.buf, w.buf), "framed/declared-length"
	case k == 7: // wrong checksum
		in, kind = frame(m.name, uint32(len(w.buf)), append([]byte{1}, w.buf...), w.buf), "framed/bad-checksum"
	case k == 8: // corrupted header bytes
		in, kind = frame(m.name, uint32(len(w.buf)), w.buf, w.buf), "framed/header-mutated"
		pos := rapid.IntRange(0, 23).Draw(t, "hdrPos")
		in[pos] ^= byte(rapid.IntRange(1, 255).Draw(t, "hdrXor"))
		reach = 23
	default: // truncated stream
		full := frame(m.name, uint32(len(w.buf)), w.buf, w.buf)
		in, kind = full[:rapid.IntRange(0, len(full)).Draw(t, "cut")], "framed/truncated"
		reach = 0
	}
	name := "framed/" + m.net + "/" + m.name
	netIdx := uint32(0)
	if m.net == "dpos" {
		netIdx = 1
	}
	journal('f', mi, 0, netIdx<<8|uint32(dmsg.GetPayloadVersion()), in)
	bname, bcap := framedBound(m.net, in)
	sig, detail, consumed, _ := verdict(bname, bcap, in, func() (int, error) { return readFramed(m.net, in) })
	vk.Case(name+"/"+strings.TrimPrefix(kind, "framed/"), consumed > reach, append([]byte(name), in...), func() any { return render(name, 0, kind, in, "") })
	if sig != "" {
		report(t, sig, detail, render(name, 0, kind, in, detail))
	}
}

// TestFramed: every command through p2p.ReadMessage and the node's factories.
func TestFramed(t *testing.T) {
	rapid.Check(t, func(t *rapid.T) {
		oneFramedCase(t, framedMessages[gen.UniformIndex(t, len(framedMessages), "message")])
	})
	dumpSurvey(t)
}

// ---------------------------------------------------------------- native fuzzing and replay

// runRaw applies the oracle to a raw (selector, version, input) triple.
func runRaw(t testing.TB, kind byte, idx int, ver byte, extra uint32, in []byte) {
	switch kind {
	case 'f':
		mi := framedMessages[idx%len(framedMessages)]
		m := &messages[mi]
		dmsg.SetPayloadVersion(extra & 1)
		name, bcap := framedBound(m.net, in)
		sig, detail, _, _ := verdict(name, bcap, in, func() (int, error) { return readFramed(m.net, in) })
		if sig != "" {
			vk.Report(t, sig, detail, render(name, 0, "fuzz", in, detail))
		}
	default:
		d := &decoders[idx%len(decoders)]
		dmsg.SetPayloadVersion(extra & 1)
		sig, detail, _, _ := verdict(d.name, d.cap, in, func() (int, error) { return d.dec(ver, in) })
		if sig != "" {
			vk.Report(t, sig, detail, render(d.name, ver, "fuzz", in, detail))
		}
	}
}

// TestReplayInput re-runs a journalled case (fatal crash) or a raw input.
func TestReplayInput(t *testing.T) {
	p := os.Getenv("VERIF_REPLAY_INPUT")
	if p == "" {
		t.Skip("no VERIF_REPLAY_INPUT")
	}
	b, err := os.ReadFile(p)
	if err != nil {
		t.Fatalf("harness: %v", err)
	}
	if len(b) >= 13 && string(b[:5]) == "C02J1" {
		runRaw(t, b[5], int(binary.LittleEndian.Uint16(b[6:8])), b[8], binary.LittleEndian.Uint32(b[9:13]), b[13:])
		return
	}
	// a native-fuzz corpus file or bare bytes: try every decoder
	for i := range decoders {
		runRaw(t, 'd', i, 0, 0, b)
	}
}
