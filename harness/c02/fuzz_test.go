package c02

import (
	"encoding/binary"
	"testing"

	dmsg "github.com/elastos/Elastos.ELA/dpos/p2p/msg"
	"pgregory.net/rapid"
	"verifharness/gen"
)

// example encodings of decoder di (valid, from the structured generator)
func examples(di, n int) [][]byte {
	d := &decoders[di]
	var ver byte
	g := rapid.Custom(func(t *rapid.T) []byte {
		_ = rapid.Bool().Draw(t, "_") // Example insists on at least one draw
		f := gen.NewFiller(t, nil)
		f.Budget = 120
		f.MaxElems = 2
		dmsg.SetPayloadVersion(1)
		w := &segWriter{}
		v, err := d.gen(t, f, w)
		if err != nil {
			return nil
		}
		ver = v
		return append([]byte{v}, w.buf...)
	})
	var out [][]byte
	for i := 0; i < n; i++ {
		if e := g.Example(i + 1); e != nil {
			out = append(out, e)
		}
	}
	_ = ver
	return out
}

var hostileSeeds = [][]byte{
	{}, {0x00}, {0xff, 0xff, 0xff, 0xff, 0xff, 0xff, 0xff, 0xff, 0xff},
	{0xfe, 0xff, 0xff, 0xff, 0xff}, {0xfd, 0xff, 0xff}, {0xfc},
	{0x00, 0x01, 0x00, 0xff, 0xff, 0xff, 0xff, 0xff, 0xff, 0xff, 0xff, 0xff},
}

// FuzzDecoders: coverage-guided search over (decoder selector, payload
// version, input) with the same oracle as TestDecoders.
func FuzzDecoders(f *testing.F) {
	for di := range decoders {
		for _, e := range examples(di, 1) {
			f.Add(uint16(di), e[0], e[1:])
			// hostile count right after a valid prefix of every length is left
			// to the fuzzer; give it the truncations at a few points
			if len(e) > 8 {
				f.Add(uint16(di), e[0], append(append([]byte(nil), e[1:len(e)/2]...), 0xff, 0xff, 0xff, 0xff, 0xff, 0xff, 0xff, 0xff, 0xff))
				f.Add(uint16(di), e[0], append(append([]byte(nil), e[1:len(e)/2]...), 0xfe, 0x00, 0x00, 0x00, 0x40))
			}
		}
		for k := 0; k < 2; k++ {
			f.Add(uint16(di), byte(0), hostileSeeds[(di+k*3)%len(hostileSeeds)])
		}
	}
	f.Fuzz(func(t *testing.T, sel uint16, ver byte, data []byte) {
		if len(data) > 1<<20 {
			return
		}
		runRaw(t, 'd', int(sel&0x7fff), ver, uint32(sel>>15), data)
	})
}

// FuzzFramed: the framed read path of both networks.
func FuzzFramed(f *testing.F) {
	for i, mi := range framedMessages {
		m := &messages[mi]
		g := rapid.Custom(func(t *rapid.T) []byte {
			_ = rapid.Bool().Draw(t, "_") // Example insists on at least one draw
			fl := gen.NewFiller(t, nil)
			fl.Budget = 120
			fl.MaxElems = 2
			dmsg.SetPayloadVersion(1)
			w := &segWriter{}
			if err := m.build(t, fl).Serialize(w); err != nil {
				return nil
			}
			return w.buf
		})
		for k := 1; k <= 1; k++ {
			if p := g.Example(k); p != nil {
				f.Add(uint16(i), frame(m.name, uint32(len(p)), p, p))
				// declared length at the message's limit with no payload
				if ml := m.fresh().MaxLength(); ml <= 1<<20 {
					f.Add(uint16(i), frame(m.name, ml, p, nil))
				}
			}
		}
		var hdr [24]byte
		binary.LittleEndian.PutUint32(hdr[:], magic)
		copy(hdr[4:], m.name)
		f.Add(uint16(i), hdr[:])
		// a header naming ANOTHER command than the selector (regression: the
		// bound must follow the command the node dispatches on)
		f.Add(uint16(i), frame("inv", 536624, nil, nil))
		f.Add(uint16(i), frame("block", 3158064, nil, nil))
	}
	f.Fuzz(func(t *testing.T, sel uint16, data []byte) {
		if len(data) > 1<<20 {
			return
		}
		runRaw(t, 'f', int(sel&0x7fff), 0, uint32(sel>>15), data)
	})
}
