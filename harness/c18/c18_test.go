// C18 - stored blocks read back byte-for-byte (whole, header prefix, regions),
// across block-file rollover and reopen.
//
// Generator: rapid state machine over an ffldb database with a tiny maximum
// block-file size (hook ffldb.VerifTune): store batches of blocks in read-write
// transactions, commit / roll back, reopen, and read through every block read
// entry point with regions inside, at and beyond the end of the block.
// Oracle: the harness keeps the exact bytes it handed to StoreBlock, keyed by
// hash; every read must return the corresponding slice or the error code the
// database.Tx contract names.
package c18

import (
	"bytes"
	"crypto/sha256"
	"encoding/binary"
	"encoding/json"
	"errors"
	"fmt"
	"os"
	"testing"

	"github.com/btcsuite/btcd/wire"
	"github.com/elastos/Elastos.ELA/common"
	"github.com/elastos/Elastos.ELA/database"
	"github.com/elastos/Elastos.ELA/database/ffldb"
	"pgregory.net/rapid"
	"verifharness/lib/vk"
)

func TestMain(m *testing.M) { vk.Main(m, "C18") }

const (
	hdrLen       = 84 // serialized header without auxpow: 4+32+32+4+4+4+4
	recordExtra  = 12 // network + length + checksum around each block in a flat file
	stUnknown    = "unknown"
	stPending    = "pending"
	stCommitted  = "committed"
	stRolledBack = "rolled-back"
)

type config struct {
	MaxFile   uint32 `json:"max_file"`
	CacheSize uint64 `json:"cache_size"`
	FlushSecs uint32 `json:"flush_secs"`
}

type blk struct {
	id     int
	hash   common.Uint256
	data   []byte
	state  string
	reopen bool // committed before the last reopen
	file   uint32
}

type machine struct {
	dir    string
	cfg    config
	db     database.DB
	dbOpen bool
	tx     database.Tx
	txRW   bool
	blocks []*blk
	ops    []string
	dead   bool
	seq    uint64

	// classification
	reopens, commits, rollbacks, rollovers int
	ntReads, reads, invalidReads           int
	maxFileNum                             uint32
	pendingReads, windowReads              int
}

func (m *machine) log(f string, a ...any) { m.ops = append(m.ops, fmt.Sprintf(f, a...)) }

func (m *machine) render() any {
	return map[string]any{"config": m.cfg, "ops": m.ops}
}

func (m *machine) report(t *rapid.T, sig, detail string) bool {
	m.log("!! %s: %s", sig, detail)
	if vk.Report(t, sig, detail, m.render()) {
		m.dead = true
		return true
	}
	return false
}

func errCode(err error) (database.ErrorCode, bool) {
	var de database.Error
	if errors.As(err, &de) {
		return de.ErrorCode, true
	}
	return 0, false
}

func codeName(err error) string {
	if err == nil {
		return "success"
	}
	if c, ok := errCode(err); ok {
		return c.String()
	}
	return "non-database-error"
}

// ---------------------------------------------------------------- content

// fillBytes expands a rapid-drawn seed into n bytes (xorshift64*), so that
// large blocks cost one draw instead of thousands.
func fillBytes(seed uint64, n int) []byte {
	b := make([]byte, n)
	x := seed | 1
	for i := 0; i < n; i += 8 {
		x ^= x >> 12
		x ^= x << 25
		x ^= x >> 27
		var w [8]byte
		binary.LittleEndian.PutUint64(w[:], x*0x2545F4914F6CDD1D)
		copy(b[i:], w[:])
	}
	return b
}

func (m *machine) known(state string) []*blk {
	var out []*blk
	for _, b := range m.blocks {
		if b.state == state {
			out = append(out, b)
		}
	}
	return out
}

// ---------------------------------------------------------------- life cycle

func (m *machine) open(t *rapid.T, create bool) {
	var err error
	if create {
		m.db, err = database.Create("ffldb", m.dir, wire.MainNet)
		if err != nil {
			t.Fatalf("harness: create: %v", err)
		}
	} else {
		m.db, err = database.Open("ffldb", m.dir, wire.MainNet)
		if err != nil {
			m.report(t, "C18:Open:error-after-clean-close", err.Error())
			m.dead = true
			return
		}
	}
	if !ffldb.VerifTune(m.db, m.cfg.MaxFile, m.cfg.CacheSize, m.cfg.FlushSecs) {
		t.Fatalf("harness: VerifTune rejected the database")
	}
	m.dbOpen = true
}

func (m *machine) cleanup() {
	func() {
		defer func() { _ = recover() }()
		if m.tx != nil {
			_ = m.tx.Rollback()
		}
	}()
	func() {
		defer func() { _ = recover() }()
		if m.db != nil && m.dbOpen {
			_ = m.db.Close()
		}
	}()
	_ = os.RemoveAll(m.dir)
}

// ---------------------------------------------------------------- reads

type region struct {
	b        *blk
	off, len uint32
	kind     string
}

func (r region) inRange() bool {
	end := uint64(r.off) + uint64(r.len)
	return end <= uint64(len(r.b.data))
}

// visible tells whether the block exists from the viewpoint of the current
// transaction (or of a fresh read-only one).
func (m *machine) visible(b *blk) bool {
	return b.state == stCommitted || (b.state == stPending && m.tx != nil && m.txRW)
}

func (m *machine) drawBlock(t *rapid.T) *blk {
	// 1 in 8: a hash the database must not know (never stored or rolled back)
	if len(m.blocks) == 0 || rapid.IntRange(0, 7).Draw(t, "unknownHash") == 0 {
		if rb := m.known(stRolledBack); len(rb) > 0 && rapid.Bool().Draw(t, "rolledBack") {
			return rb[rapid.IntRange(0, len(rb)-1).Draw(t, "rbIdx")]
		}
		var h common.Uint256
		copy(h[:], fillBytes(rapid.Uint64().Draw(t, "strangerSeed"), 32))
		return &blk{id: -1, hash: h, state: stUnknown}
	}
	return m.blocks[rapid.IntRange(0, len(m.blocks)-1).Draw(t, "blockIdx")]
}

func (m *machine) drawRegion(t *rapid.T, b *blk) region {
	n := uint32(len(b.data))
	r := region{b: b}
	switch rapid.IntRange(0, 13).Draw(t, "regionKind") {
	case 0:
		r.kind, r.off, r.len = "whole", 0, n
	case 1:
		r.kind, r.off, r.len = "header", 0, hdrLen
	case 2, 3, 4:
		r.kind = "inside"
		if n > 0 {
			r.off = uint32(rapid.IntRange(0, int(n)-1).Draw(t, "off"))
			r.len = uint32(rapid.IntRange(1, int(n-r.off)).Draw(t, "len"))
		}
	case 5:
		r.kind = "suffix"
		if n > 0 {
			r.off = uint32(rapid.IntRange(0, int(n)-1).Draw(t, "off"))
			r.len = n - r.off
		}
	case 6:
		r.kind, r.off, r.len = "empty-at-end", n, 0
	case 7:
		r.kind = "empty-inside"
		r.off = uint32(rapid.IntRange(0, int(n)).Draw(t, "off"))
	case 8:
		// ends 1..12 bytes after the block: still inside the flat-file record
		// (length prefix/checksum/next record), which must not be served
		r.kind = "ends-in-record-trailer"
		over := uint32(rapid.IntRange(1, recordExtra).Draw(t, "over"))
		r.off = uint32(rapid.IntRange(0, int(n)).Draw(t, "off"))
		r.len = n - r.off + over
	case 9:
		r.kind = "ends-beyond"
		over := uint32(rapid.IntRange(13, 5000).Draw(t, "over"))
		r.off = uint32(rapid.IntRange(0, int(n)).Draw(t, "off"))
		r.len = n - r.off + over
	case 10:
		r.kind = "starts-beyond"
		r.off = n + uint32(rapid.IntRange(1, 5000).Draw(t, "past"))
		r.len = uint32(rapid.IntRange(0, 64).Draw(t, "len"))
	case 11:
		// offset+len wraps around uint32 to a small number
		r.kind = "uint32-wrap"
		k := uint32(rapid.IntRange(1, 5000).Draw(t, "k"))
		r.off = ^uint32(0) - k + 1 // 2^32-k
		r.len = k + uint32(rapid.IntRange(0, int(n)).Draw(t, "wrapTo"))
	case 12:
		r.kind = "uint32-wrap-len"
		r.off = uint32(rapid.IntRange(0, int(n)).Draw(t, "off"))
		r.len = ^uint32(0) - uint32(rapid.IntRange(0, 16).Draw(t, "k"))
	default:
		r.kind, r.off, r.len = "huge", uint32(rapid.IntRange(0, 1<<31).Draw(t, "off")), uint32(rapid.IntRange(0, 1<<31).Draw(t, "len"))
	}
	return r
}

func (m *machine) wantRegion(r region) (data []byte, code database.ErrorCode, ok bool) {
	if !m.visible(r.b) {
		return nil, database.ErrBlockNotFound, false
	}
	if !r.inRange() {
		return nil, database.ErrBlockRegionInvalid, false
	}
	return r.b.data[r.off : r.off+r.len], 0, true
}

func (m *machine) noteRead(r region) {
	m.reads++
	if !m.visible(r.b) {
		return
	}
	if !r.inRange() {
		m.invalidReads++
		if r.kind == "ends-in-record-trailer" && r.b.state == stCommitted {
			m.windowReads++
		}
		return
	}
	if r.b.state == stPending {
		m.pendingReads++
	}
	if r.len > 0 && r.b.state == stCommitted && (r.b.file >= 1 || r.b.reopen) {
		m.ntReads++
	}
}

func (m *machine) where(b *blk) string {
	switch {
	case b.state == stCommitted && b.reopen:
		return "committed+reopened"
	default:
		return b.state
	}
}

// check compares one result with the model.
func (m *machine) check(t *rapid.T, site string, r region, got []byte, err error) {
	want, code, ok := m.wantRegion(r)
	desc := fmt.Sprintf("block b%d (%d bytes, %s, file %d) region %s off=%d len=%d", r.b.id, len(r.b.data), m.where(r.b), r.b.file, r.kind, r.off, r.len)
	if ok {
		if err != nil {
			m.report(t, "C18:"+site+":error-for-valid-read:"+codeName(err), desc+": "+err.Error())
			return
		}
		if !bytes.Equal(got, want) {
			m.report(t, "C18:"+site+":bytes-differ", fmt.Sprintf("%s: got %d bytes %s, want %d bytes %s", desc, len(got), vk.Hex(got), len(want), vk.Hex(want)))
		}
		return
	}
	if err == nil {
		what := "unknown-block-served"
		if code == database.ErrBlockRegionInvalid {
			what = "out-of-range-region-served"
		}
		m.report(t, "C18:"+site+":"+what, fmt.Sprintf("%s: got %d bytes %s, want %v", desc, len(got), vk.Hex(got), code))
		return
	}
	if c, isDB := errCode(err); !isDB || c != code {
		m.report(t, "C18:"+site+":error-code:want-"+code.String()+":got-"+codeName(err), desc+": "+err.Error())
	}
}

// withTx runs f inside the open transaction or, when none is open, inside a
// fresh read-only one (unmanaged, so that no frame of the code under test sits
// between the verdict and rapid).
func (m *machine) withTx(t *rapid.T, f func(tx database.Tx)) {
	if m.tx != nil {
		f(m.tx)
		return
	}
	tx, err := m.db.Begin(false)
	if err != nil {
		t.Fatalf("harness: Begin(false): %v", err)
	}
	defer func() { _ = tx.Rollback() }()
	f(tx)
}

// ---------------------------------------------------------------- machine

func genConfig(t *rapid.T) config {
	_, dCache, dFlush := ffldb.VerifDefaults()
	c := config{
		CacheSize: rapid.SampledFrom([]uint64{0, 512, dCache}).Draw(t, "cacheSize"),
		FlushSecs: rapid.SampledFrom([]uint32{0, dFlush}).Draw(t, "flushSecs"),
	}
	if rapid.Bool().Draw(t, "roundMax") {
		c.MaxFile = rapid.SampledFrom([]uint32{128, 256, 512, 1024, 4096, 8192}).Draw(t, "maxFile")
	} else {
		c.MaxFile = uint32(rapid.IntRange(128, 8192).Draw(t, "maxFile"))
	}
	return c
}

func run(t *rapid.T) *machine {
	dir, err := os.MkdirTemp("", "c18-")
	if err != nil {
		t.Fatalf("harness: %v", err)
	}
	m := &machine{dir: dir, cfg: genConfig(t)}
	defer m.cleanup()
	m.open(t, true)

	// every block record (block + 12) fits one flat file: the shipped limits
	// are 64 MiB per file and 8 MB per block, an oversized block never occurs
	maxBlock := int(m.cfg.MaxFile) - recordExtra

	newBlock := func(t *rapid.T) *blk {
		var n int
		switch rapid.IntRange(0, 9).Draw(t, "sizeKind") {
		case 0:
			n = rapid.IntRange(1, hdrLen-1).Draw(t, "size") // shorter than a header
		case 1:
			n = hdrLen
		case 2:
			n = maxBlock // fills a file exactly
		case 3:
			// exactly up to (or one byte past) the end of the current file
			if _, off, ok := ffldb.VerifWriteCursor(m.db); ok {
				pend := 0
				for _, p := range m.known(stPending) {
					pend += len(p.data) + recordExtra
				}
				room := int(m.cfg.MaxFile) - int(off) - pend - recordExtra
				room += rapid.IntRange(0, 1).Draw(t, "onePast")
				if room >= 1 && room <= maxBlock {
					n = room
					break
				}
			}
			n = rapid.IntRange(1, maxBlock).Draw(t, "size")
		case 4:
			n = 0 // empty block (not produced by the node; rare edge)
			if rapid.IntRange(0, 3).Draw(t, "reallyEmpty") != 0 {
				hi := 200
				if hi > maxBlock {
					hi = maxBlock
				}
				n = rapid.IntRange(1, hi).Draw(t, "size")
			}
		case 5, 6:
			n = rapid.IntRange(1, maxBlock).Draw(t, "size")
		default:
			hi := 400
			if hi > maxBlock {
				hi = maxBlock
			}
			n = rapid.IntRange(1, hi).Draw(t, "size")
		}
		if n > maxBlock {
			t.Fatalf("harness: generated a block larger than a block file (%d > %d)", n, maxBlock)
		}
		m.seq++
		b := &blk{id: len(m.blocks), data: fillBytes(rapid.Uint64().Draw(t, "contentSeed"), n)}
		if n > 0 && rapid.IntRange(0, 5).Draw(t, "dupContent") == 0 && len(m.blocks) > 0 {
			// same bytes as an earlier block under another hash
			src := m.blocks[rapid.IntRange(0, len(m.blocks)-1).Draw(t, "dupOf")]
			if len(src.data) <= maxBlock {
				b.data = append([]byte{}, src.data...)
			}
		}
		var seq [8]byte
		binary.BigEndian.PutUint64(seq[:], m.seq)
		h := sha256.Sum256(append(seq[:], b.data...))
		b.hash = common.Uint256(sha256.Sum256(h[:]))
		return b
	}

	actions := map[string]func(*rapid.T){
		"beginRW": func(t *rapid.T) {
			if m.tx != nil {
				t.Skip("tx open")
			}
			tx, err := m.db.Begin(true)
			if err != nil {
				t.Fatalf("harness: Begin(true): %v", err)
			}
			m.tx, m.txRW = tx, true
			m.log("tx = Begin(rw)")
		},
		"beginRO": func(t *rapid.T) {
			if m.tx != nil {
				t.Skip("tx open")
			}
			tx, err := m.db.Begin(false)
			if err != nil {
				t.Fatalf("harness: Begin(false): %v", err)
			}
			m.tx, m.txRW = tx, false
			m.log("tx = Begin(ro)")
		},
		"store": func(t *rapid.T) {
			if m.tx != nil && !m.txRW {
				t.Skip("read-only tx open")
			}
			if m.tx == nil {
				tx, err := m.db.Begin(true)
				if err != nil {
					t.Fatalf("harness: Begin(true): %v", err)
				}
				m.tx, m.txRW = tx, true
				m.log("tx = Begin(rw)")
			}
			k := rapid.IntRange(1, 4).Draw(t, "batch")
			for i := 0; i < k && !m.dead; i++ {
				b := newBlock(t)
				err := m.tx.StoreBlock(b.hash, append([]byte{}, b.data...))
				m.log("StoreBlock(b%d, %d bytes)", b.id, len(b.data))
				if err != nil {
					m.report(t, "C18:StoreBlock:error-for-new-block:"+codeName(err), err.Error())
					return
				}
				b.state = stPending
				m.blocks = append(m.blocks, b)
			}
		},
		"storeDuplicate": func(t *rapid.T) {
			if m.tx == nil || !m.txRW {
				t.Skip("no rw tx")
			}
			var cands []*blk
			for _, b := range m.blocks {
				if m.visible(b) {
					cands = append(cands, b)
				}
			}
			if len(cands) == 0 {
				t.Skip("nothing stored")
			}
			b := cands[rapid.IntRange(0, len(cands)-1).Draw(t, "dup")]
			err := m.tx.StoreBlock(b.hash, append([]byte{}, b.data...))
			m.log("StoreBlock(b%d again, %s) -> %s", b.id, b.state, codeName(err))
			if c, ok := errCode(err); !ok || c != database.ErrBlockExists {
				m.report(t, "C18:StoreBlock:duplicate-hash-not-rejected", fmt.Sprintf("b%d (%s): got %s, want ErrBlockExists", b.id, b.state, codeName(err)))
			}
		},
		"commit": func(t *rapid.T) {
			if m.tx == nil {
				t.Skip("no tx")
			}
			if !m.txRW {
				err := m.tx.Rollback()
				m.tx = nil
				m.log("ro tx closed")
				if err != nil {
					t.Fatalf("harness: ro rollback: %v", err)
				}
				return
			}
			err := m.tx.Commit()
			m.tx = nil
			m.log("Commit() -> %s", codeName(err))
			if err != nil {
				m.report(t, "C18:Commit:error:"+codeName(err), err.Error())
				return
			}
			m.commits++
			for _, b := range m.known(stPending) {
				b.state = stCommitted
				f, off, l, ok := ffldb.VerifBlockLocation(m.db, b.hash[:])
				if !ok {
					m.report(t, "C18:Commit:block-index-entry-missing", fmt.Sprintf("b%d has no block index row after commit", b.id))
					return
				}
				b.file = f
				if f > m.maxFileNum {
					m.rollovers += int(f - m.maxFileNum)
					m.maxFileNum = f
				}
				_ = off
				_ = l
			}
		},
		"rollback": func(t *rapid.T) {
			if m.tx == nil || !m.txRW {
				t.Skip("no rw tx")
			}
			err := m.tx.Rollback()
			m.tx = nil
			m.log("Rollback()")
			if err != nil {
				t.Fatalf("harness: Rollback: %v", err)
			}
			m.rollbacks++
			for _, b := range m.known(stPending) {
				b.state = stRolledBack
			}
		},
		"restoreRolledBack": func(t *rapid.T) {
			// a hash whose transaction was rolled back can be stored again
			if m.tx == nil || !m.txRW {
				t.Skip("no rw tx")
			}
			rb := m.known(stRolledBack)
			if len(rb) == 0 {
				t.Skip("none")
			}
			b := rb[rapid.IntRange(0, len(rb)-1).Draw(t, "rb")]
			err := m.tx.StoreBlock(b.hash, append([]byte{}, b.data...))
			m.log("StoreBlock(b%d, %d bytes) after its rollback -> %s", b.id, len(b.data), codeName(err))
			if err != nil {
				m.report(t, "C18:StoreBlock:error-after-rollback:"+codeName(err), err.Error())
				return
			}
			b.state = stPending
		},
		"reopen": func(t *rapid.T) {
			if m.tx != nil {
				t.Skip("tx open")
			}
			if rapid.IntRange(0, 2).Draw(t, "reallyReopen") != 0 {
				t.Skip("rare")
			}
			if err := m.db.Close(); err != nil {
				m.report(t, "C18:Close:error:"+codeName(err), err.Error())
				return
			}
			m.dbOpen = false
			m.log("Close(); Open()")
			m.open(t, false)
			m.reopens++
			for _, b := range m.known(stCommitted) {
				b.reopen = true
			}
		},
		"hasBlock": func(t *rapid.T) {
			n := rapid.IntRange(1, 4).Draw(t, "n")
			bs := make([]*blk, n)
			hs := make([]common.Uint256, n)
			for i := range bs {
				bs[i] = m.drawBlock(t)
				hs[i] = bs[i].hash
			}
			m.withTx(t, func(tx database.Tx) {
				got, err := tx.HasBlocks(hs)
				if err != nil {
					m.report(t, "C18:HasBlocks:error:"+codeName(err), err.Error())
					return
				}
				for i, b := range bs {
					one, err := tx.HasBlock(b.hash)
					m.log("HasBlock(b%d %s) -> %v", b.id, b.state, one)
					if err != nil || one != m.visible(b) || got[i] != one {
						m.report(t, "C18:HasBlock:result", fmt.Sprintf("b%d (%s): HasBlock=%v HasBlocks=%v err=%v, want %v", b.id, b.state, one, got[i], err, m.visible(b)))
						return
					}
				}
			})
		},
		"fetchBlock": func(t *rapid.T) {
			b := m.drawBlock(t)
			r := region{b: b, off: 0, len: uint32(len(b.data)), kind: "whole-block"}
			m.noteRead(r)
			m.withTx(t, func(tx database.Tx) {
				got, err := tx.FetchBlock(&b.hash)
				m.log("FetchBlock(b%d %s) -> %s", b.id, b.state, codeName(err))
				m.check(t, "FetchBlock", r, got, err)
			})
		},
		"fetchHeader": func(t *rapid.T) {
			b := m.drawBlock(t)
			r := region{b: b, off: 0, len: hdrLen, kind: "header-prefix"}
			m.noteRead(r)
			m.withTx(t, func(tx database.Tx) {
				got, err := tx.FetchBlockHeader(&b.hash)
				m.log("FetchBlockHeader(b%d %s, %d bytes) -> %s", b.id, b.state, len(b.data), codeName(err))
				m.check(t, "FetchBlockHeader", r, got, err)
			})
		},
		"fetchRegion": func(t *rapid.T) {
			b := m.drawBlock(t)
			r := m.drawRegion(t, b)
			m.noteRead(r)
			m.withTx(t, func(tx database.Tx) {
				got, err := tx.FetchBlockRegion(&database.BlockRegion{Hash: &b.hash, Offset: r.off, Len: r.len})
				m.log("FetchBlockRegion(b%d %s %d bytes, %s off=%d len=%d) -> %s", b.id, b.state, len(b.data), r.kind, r.off, r.len, codeName(err))
				m.check(t, "FetchBlockRegion", r, got, err)
			})
		},
		"fetchMany": func(t *rapid.T) {
			// bulk variants: all results in request order, or the error of one
			// of the offending entries
			n := rapid.IntRange(1, 6).Draw(t, "n")
			kind := rapid.SampledFrom([]string{"FetchBlocks", "FetchBlockHeaders", "FetchBlockRegions", "FetchBlockRegions"}).Draw(t, "bulk")
			allGood := rapid.IntRange(0, 3).Draw(t, "allGood") != 0
			var rs []region
			for i := 0; i < n; i++ {
				b := m.drawBlock(t)
				if allGood {
					var vis []*blk
					for _, x := range m.blocks {
						if m.visible(x) {
							vis = append(vis, x)
						}
					}
					if len(vis) == 0 {
						t.Skip("nothing visible")
					}
					b = vis[rapid.IntRange(0, len(vis)-1).Draw(t, "vis")]
				}
				var r region
				switch kind {
				case "FetchBlocks":
					r = region{b: b, off: 0, len: uint32(len(b.data)), kind: "whole-block"}
				case "FetchBlockHeaders":
					r = region{b: b, off: 0, len: hdrLen, kind: "header-prefix"}
				default:
					r = m.drawRegion(t, b)
					if allGood && !r.inRange() {
						r = region{b: b, off: 0, len: uint32(len(b.data)), kind: "whole"}
					}
				}
				rs = append(rs, r)
				m.noteRead(r)
			}
			m.withTx(t, func(tx database.Tx) {
				var got [][]byte
				var err error
				hs := make([]common.Uint256, len(rs))
				regs := make([]database.BlockRegion, len(rs))
				for i, r := range rs {
					hs[i] = r.b.hash
					regs[i] = database.BlockRegion{Hash: &hs[i], Offset: r.off, Len: r.len}
				}
				switch kind {
				case "FetchBlocks":
					got, err = tx.FetchBlocks(hs)
				case "FetchBlockHeaders":
					got, err = tx.FetchBlockHeaders(hs)
				default:
					got, err = tx.FetchBlockRegions(regs)
				}
				var desc []string
				wantCodes := map[database.ErrorCode]bool{}
				for _, r := range rs {
					desc = append(desc, fmt.Sprintf("b%d(%s,%dB,file%d) %s off=%d len=%d", r.b.id, m.where(r.b), len(r.b.data), r.b.file, r.kind, r.off, r.len))
					if _, code, ok := m.wantRegion(r); !ok {
						wantCodes[code] = true
					}
				}
				m.log("%s(%v) -> %s", kind, desc, codeName(err))
				if len(wantCodes) == 0 {
					if err != nil {
						m.report(t, "C18:"+kind+":error-for-valid-read:"+codeName(err), fmt.Sprintf("%v: %v", desc, err))
						return
					}
					if len(got) != len(rs) {
						m.report(t, "C18:"+kind+":result-count", fmt.Sprintf("%d results for %d requests", len(got), len(rs)))
						return
					}
					for i, r := range rs {
						m.check(t, kind, r, got[i], nil)
						if m.dead {
							return
						}
					}
					return
				}
				if err == nil {
					m.report(t, "C18:"+kind+":invalid-entry-served", fmt.Sprintf("%v: success, want one of %v", desc, wantCodes))
					return
				}
				if c, ok := errCode(err); !ok || !wantCodes[c] {
					m.report(t, "C18:"+kind+":error-code:got-"+codeName(err), fmt.Sprintf("%v: %v, want one of %v", desc, err, wantCodes))
				}
			})
		},
		"": func(t *rapid.T) {},
	}
	dup := func(name string, k int) {
		for i := 2; i <= k; i++ {
			actions[fmt.Sprintf("%s%d", name, i)] = actions[name]
		}
	}
	dup("store", 3)
	dup("fetchRegion", 4)
	dup("fetchBlock", 2)
	dup("commit", 3)
	for name, f := range actions {
		f := f
		actions[name] = func(t *rapid.T) {
			if m.dead {
				return
			}
			p, val, frame := vk.Catch(func() { f(t) })
			if p {
				if frame == "unknown" {
					panic(val)
				}
				m.report(t, "C18:panic:"+frame, fmt.Sprint(val))
				m.dead = true
			}
		}
	}
	t.Repeat(actions)

	// final sweep: close any transaction, then every block ever stored is read
	// back whole and by header (fresh read-only transaction, after the last commit)
	if !m.dead {
		if m.tx != nil {
			_ = m.tx.Rollback()
			if m.txRW {
				for _, b := range m.known(stPending) {
					b.state = stRolledBack
				}
			}
			m.tx = nil
		}
		m.withTx(t, func(tx database.Tx) {
			for _, b := range m.blocks {
				if m.dead {
					return
				}
				r := region{b: b, off: 0, len: uint32(len(b.data)), kind: "whole-block"}
				m.noteRead(r)
				got, err := tx.FetchBlock(&b.hash)
				m.check(t, "FetchBlock", r, got, err)
			}
		})
	}
	return m
}

func finish(m *machine) {
	nt := m.ntReads > 0
	cl := "store"
	switch {
	case m.reopens > 0 && m.rollovers > 0:
		cl += "/reopen+rollover"
	case m.reopens > 0:
		cl += "/reopen"
	case m.rollovers > 0:
		cl += "/rollover"
	case m.commits > 0:
		cl += "/single-file"
	default:
		cl += "/nothing-committed"
	}
	if m.rollbacks > 0 {
		cl += "+rollback"
	}
	key, _ := json.Marshal([]any{m.cfg, m.ops})
	vk.Case(cl, nt, key, m.render)
	vk.Count("reads", int64(m.reads))
	vk.Count("reads.nonempty-of-block-in-file>=1-or-after-reopen", int64(m.ntReads))
	vk.Count("reads.of-pending-blocks", int64(m.pendingReads))
	vk.Count("reads.out-of-range", int64(m.invalidReads))
	vk.Count("reads.region-ending-1-12-bytes-past-a-committed-block", int64(m.windowReads))
	vk.Count("file-rollovers", int64(m.rollovers))
	vk.Count("reopens", int64(m.reopens))
	vk.Count("blocks-stored", int64(len(m.blocks)))
}

func TestBlockStore(t *testing.T) {
	rapid.Check(t, func(t *rapid.T) { finish(run(t)) })
}
