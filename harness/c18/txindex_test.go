// C18, second layer: the transaction index's block regions slice exactly the
// transaction's serialization out of the stored block.
//
// Real code path: blockchain.dbStoreBlock stores DposBlock.Serialize() under
// the block hash; indexers.TxIndex.ConnectBlock records (block, offset, len)
// per transaction from Block.TxLoc(); dbFetchTx reads that region back.  Here
// generated blocks (harness/gen: every tx type/version, with and without
// auxpow and confirm) go through the same calls on an ffldb database with a
// small block-file size; the oracle is the transaction's own serialization.
package c18

import (
	"bytes"
	"encoding/binary"
	"encoding/json"
	"fmt"
	"os"
	"sync"
	"testing"

	"github.com/btcsuite/btcd/wire"
	"github.com/elastos/Elastos.ELA/blockchain/indexers"
	"github.com/elastos/Elastos.ELA/common"
	"github.com/elastos/Elastos.ELA/common/log"
	"github.com/elastos/Elastos.ELA/core/types"
	"github.com/elastos/Elastos.ELA/database"
	"github.com/elastos/Elastos.ELA/database/ffldb"
	"pgregory.net/rapid"
	"verifharness/gen"
	"verifharness/lib/vk"
)

type ixBlock struct {
	d    *types.DposBlock
	hash common.Uint256
	raw  []byte
	txs  [][]byte // serialization of each transaction
	txh  []common.Uint256
	file uint32
}

// refHeaderPrefix is the harness's own serialization of the 84-byte header
// without auxpow: version, previous, merkle root, timestamp, bits, nonce,
// height (little endian integers).
func refHeaderPrefix(b *types.Block) []byte {
	out := make([]byte, 0, hdrLen)
	u32 := func(v uint32) { out = binary.LittleEndian.AppendUint32(out, v) }
	u32(b.Header.Version)
	out = append(out, b.Header.Previous[:]...)
	out = append(out, b.Header.MerkleRoot[:]...)
	u32(b.Header.Timestamp)
	u32(b.Header.Bits)
	u32(b.Header.Nonce)
	u32(b.Header.Height)
	return out
}

var logOnce sync.Once

func TestTxIndexRegions(t *testing.T) {
	gen.Init()
	logOnce.Do(func() {
		// the indexer logs through the process-global logger; level 6 keeps it quiet
		dir, _ := os.MkdirTemp("", "c18-log")
		log.NewDefault(dir, 6, 0, 0)
	})
	rapid.Check(t, func(t *rapid.T) {
		var ops []string
		logf := func(f string, a ...any) { ops = append(ops, fmt.Sprintf(f, a...)) }
		render := func() any { return map[string]any{"ops": ops} }
		dead := false
		report := func(sig, detail string) {
			logf("!! %s: %s", sig, detail)
			if vk.Report(t, sig, detail, render()) {
				dead = true
			}
		}

		// ---- generate the chain of blocks first
		nBlocks := rapid.IntRange(2, 6).Draw(t, "nBlocks")
		var blocks []*ixBlock
		seenTx := map[common.Uint256]bool{}
		seenBlk := map[common.Uint256]bool{}
		largest := 0
		for i := 0; i < nBlocks; i++ {
			d := gen.GenDposBlock(t, gen.TxOpts{Budget: 120}, 1, 4)
			buf := new(bytes.Buffer)
			if err := d.Serialize(buf); err != nil {
				t.Fatalf("harness: generated block does not serialize: %v", err)
			}
			b := &ixBlock{d: d, hash: d.Block.Hash(), raw: append([]byte{}, buf.Bytes()...)}
			if seenBlk[b.hash] {
				continue
			}
			ok := true
			for _, tx := range d.Block.Transactions {
				h := tx.Hash()
				if seenTx[h] {
					ok = false // the index keeps one entry per tx hash; the node never has duplicates
				}
			}
			if !ok {
				continue
			}
			seenBlk[b.hash] = true
			for _, tx := range d.Block.Transactions {
				seenTx[tx.Hash()] = true
				b.txh = append(b.txh, tx.Hash())
				b.txs = append(b.txs, append([]byte{}, gen.TxBytes(tx)...))
			}
			if len(b.raw) > largest {
				largest = len(b.raw)
			}
			blocks = append(blocks, b)
		}
		if len(blocks) == 0 {
			t.Skip("no usable block")
		}

		// ---- database with a block-file size that forces rollovers
		dir, err := os.MkdirTemp("", "c18ix-")
		if err != nil {
			t.Fatalf("harness: %v", err)
		}
		defer os.RemoveAll(dir)
		_, dCache, dFlush := ffldb.VerifDefaults()
		maxFile := uint32(largest + recordExtra + rapid.IntRange(0, 2*largest).Draw(t, "slack"))
		cacheSize := rapid.SampledFrom([]uint64{0, dCache}).Draw(t, "cacheSize")
		flush := rapid.SampledFrom([]uint32{0, dFlush}).Draw(t, "flushSecs")
		var db database.DB
		open := func(create bool) bool {
			var err error
			if create {
				db, err = database.Create("ffldb", dir, wire.MainNet)
				if err != nil {
					t.Fatalf("harness: create: %v", err)
				}
			} else {
				db, err = database.Open("ffldb", dir, wire.MainNet)
				if err != nil {
					report("C18:Open:error-after-clean-close", err.Error())
					return false
				}
			}
			if !ffldb.VerifTune(db, maxFile, cacheSize, flush) {
				t.Fatalf("harness: VerifTune")
			}
			return true
		}
		open(true)
		defer func() {
			defer func() { _ = recover() }()
			_ = db.Close()
		}()
		logf("maxFile=%d cache=%d flush=%d", maxFile, cacheSize, flush)

		idx := indexers.NewTxIndex(db)
		if err := db.Update(func(dbTx database.Tx) error { return idx.Create(dbTx) }); err != nil {
			t.Fatalf("harness: TxIndex.Create: %v", err)
		}
		if err := idx.Init(); err != nil {
			t.Fatalf("harness: TxIndex.Init: %v", err)
		}

		reopened, rolled := false, false
		verify := func(upto int, when string) {
			for bi := 0; bi < upto && !dead; bi++ {
				b := blocks[bi]
				// header prefix
				var hdr []byte
				err := db.View(func(dbTx database.Tx) error {
					h, err := dbTx.FetchBlockHeader(&b.hash)
					hdr = append([]byte{}, h...)
					return err
				})
				if err != nil {
					report("C18:TxIndex:FetchBlockHeader:error", fmt.Sprintf("block %d %s: %v", bi, when, err))
					return
				}
				if want := refHeaderPrefix(b.d.Block); !bytes.Equal(hdr, want) {
					report("C18:TxIndex:FetchBlockHeader:not-the-header-serialization", fmt.Sprintf("block %d %s: got %s want %s", bi, when, vk.Hex(hdr), vk.Hex(want)))
					return
				}
				for ti := range b.txs {
					region, err := idx.TxBlockRegion(&b.txh[ti])
					if err != nil || region == nil {
						report("C18:TxIndex:TxBlockRegion:missing", fmt.Sprintf("block %d tx %d %s: region=%v err=%v", bi, ti, when, region, err))
						return
					}
					if *region.Hash != b.hash {
						report("C18:TxIndex:TxBlockRegion:wrong-block", fmt.Sprintf("block %d tx %d %s: region names block %s, want %s", bi, ti, when, region.Hash, b.hash))
						return
					}
					var got []byte
					err = db.View(func(dbTx database.Tx) error {
						g, err := dbTx.FetchBlockRegion(region)
						got = append([]byte{}, g...)
						return err
					})
					if err != nil {
						report("C18:TxIndex:FetchBlockRegion:error", fmt.Sprintf("block %d tx %d %s off=%d len=%d of %d: %v", bi, ti, when, region.Offset, region.Len, len(b.raw), err))
						return
					}
					if !bytes.Equal(got, b.txs[ti]) {
						report("C18:TxIndex:region-is-not-the-transaction", fmt.Sprintf("block %d tx %d %s off=%d len=%d: got %s, transaction serializes to %s", bi, ti, when, region.Offset, region.Len, vk.Hex(got), vk.Hex(b.txs[ti])))
						return
					}
				}
				// the whole block
				var whole []byte
				err = db.View(func(dbTx database.Tx) error {
					w, err := dbTx.FetchBlock(&b.hash)
					whole = append([]byte{}, w...)
					return err
				})
				if err != nil || !bytes.Equal(whole, b.raw) {
					report("C18:TxIndex:FetchBlock:bytes-differ", fmt.Sprintf("block %d %s: err=%v got %d bytes want %d", bi, when, err, len(whole), len(b.raw)))
					return
				}
			}
		}

		for bi := 0; bi < len(blocks) && !dead; {
			// one database transaction connects 1..3 blocks, like a batch of ProcessBlock calls
			k := rapid.IntRange(1, 3).Draw(t, "batch")
			end := bi + k
			if end > len(blocks) {
				end = len(blocks)
			}
			err := db.Update(func(dbTx database.Tx) error {
				for j := bi; j < end; j++ {
					b := blocks[j]
					if err := dbTx.StoreBlock(b.hash, append([]byte{}, b.raw...)); err != nil {
						return fmt.Errorf("StoreBlock: %w", err)
					}
					if err := idx.ConnectBlock(dbTx, b.d.Block); err != nil {
						return fmt.Errorf("ConnectBlock: %w", err)
					}
				}
				return nil
			})
			logf("connected blocks %d..%d (%d txs) err=%v", bi, end-1, len(blocks[bi].txs), err)
			if err != nil {
				report("C18:TxIndex:connect:error", err.Error())
				return
			}
			for j := bi; j < end; j++ {
				if f, _, _, ok := ffldb.VerifBlockLocation(db, blocks[j].hash[:]); ok {
					blocks[j].file = f
					if f > 0 {
						rolled = true
					}
				}
			}
			bi = end
			if rapid.IntRange(0, 3).Draw(t, "reopen") == 0 {
				if err := db.Close(); err != nil {
					report("C18:Close:error", err.Error())
					return
				}
				if !open(false) {
					return
				}
				idx = indexers.NewTxIndex(db)
				if err := idx.Init(); err != nil {
					report("C18:TxIndex:Init-after-reopen:error", err.Error())
					return
				}
				reopened = true
				logf("reopen")
			}
			if rapid.Bool().Draw(t, "verifyNow") {
				verify(bi, "mid-history")
			}
		}
		verify(len(blocks), "at-end")

		cl := "txindex"
		if rolled {
			cl += "/rollover"
		}
		if reopened {
			cl += "/reopen"
		}
		ntx := 0
		for _, b := range blocks {
			ntx += len(b.txs)
		}
		vk.Count("txindex.transactions-read-through-index", int64(ntx))
		key, _ := json.Marshal(ops)
		raws := []byte{}
		for _, b := range blocks {
			raws = append(raws, b.hash[:]...)
		}
		vk.Case(cl, rolled || reopened, append(key, raws...), render)
	})
}
